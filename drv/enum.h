#ifndef VP_ENUM_H
#define VP_ENUM_H
#include "stats.h"
struct vp_enum_domain { std::string name; uint64_t count; bool complete; };
struct vp_enum_stats
{
    Stats s;
    std::vector<vp_enum_domain> domains; // what this shard enumerated
    std::string first_violation;         // "sig: message (input)"
    void domain(char const *name, uint64_t count, bool complete) { domains.push_back({name, count, complete}); }
    void violation(std::string const &v) { if (first_violation.empty()) { first_violation = v; } }
};
#endif
