// enum_main.cc — exhaustive loops over finite sub-domains (one shard per process).
// usage: enum <shard> <nshards> <tier 0|1>; the executor's vp_enum fills the stats.
#include "enum.h"

int main(int argc, char **argv)
{
    vp_info const *info = vp_get_info();
    unsigned shard = argc > 1 ? unsigned(atoi(argv[1])) : 0;
    unsigned nshards = argc > 2 ? unsigned(atoi(argv[2])) : 1;
    int tier = argc > 3 ? atoi(argv[3]) : 0;
    vp_enum_stats st;
    st.s.engine = "enumeration";
    if (!vp_enum) { fprintf(stderr, "no enumerator in this executor\n"); return 3; }
    int bad = vp_enum(shard, nshards, tier, &st);
    st.s.violations = uint64_t(bad);
    char const *out = getenv("VP_OUT");
    st.s.write(out, info);
    if (out)
    {
        std::string p = std::string(out) + ".enum.json";
        FILE *f = fopen(p.c_str(), "w");
        if (f)
        {
            fprintf(f, "{\"domains\":[");
            for (size_t i = 0; i < st.domains.size(); ++i)
            {
                if (i) { fputc(',', f); }
                fprintf(f, "{\"name\":");
                Stats::jstr(f, st.domains[i].name);
                fprintf(f, ",\"count\":%llu,\"complete\":%s}", (unsigned long long)st.domains[i].count, st.domains[i].complete ? "true" : "false");
            }
            fprintf(f, "],\"first_violation\":");
            Stats::jstr(f, st.first_violation);
            fprintf(f, "}\n");
            fclose(f);
        }
    }
    if (bad) { printf("ENUM-VIOLATION %s\n", st.first_violation.c_str()); }
    return bad ? 1 : 0;
}
