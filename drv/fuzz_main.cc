// fuzz_main.cc — libFuzzer entry: the same executor, the same tape, coverage-guided.
// Semantic violations save the tape to <VP_OUT>.fail.tape, flush the counters and exit(77);
// sanitizer reports go through libFuzzer's crash- artifacts.
#include "stats.h"
#include <unistd.h>

static Stats g_stats;
static vp_info const *g_info;
static char const *g_out;
static bool g_init = false;

static void flush_stats(void)
{
    if (g_out) { g_stats.write(g_out, g_info); }
}

extern "C" int LLVMFuzzerTestOneInput(uint8_t const *data, size_t size)
{
    if (!g_init)
    {
        g_init = true;
        g_info = vp_get_info();
        g_out = getenv("VP_OUT");
        g_stats.engine = "libfuzzer";
        atexit(flush_stats);
    }
    vp_report rep;
    int rc = vp_run(data, size, &rep);
    g_stats.account(rep, rc, size);
    if (rc == 0 && rep.nontrivial && g_stats.samples.size() < 3 && (g_stats.nontrivial % 1000) == 1)
    {
        vp_report r2;
        r2.want_render = true;
        vp_run(data, size, &r2);
        if (r2.render.size() > 1600) { r2.render.resize(1600); r2.render += " ..."; }
        g_stats.samples.push_back(r2.render);
    }
    if (rc == 1)
    {
        vp_report r2;
        r2.want_render = true;
        vp_run(data, size, &r2);
        if (g_out)
        {
            std::string p = std::string(g_out) + ".fail.tape";
            vp_write_tape(p.c_str(), data, size, &r2, g_info);
            g_stats.write(g_out, g_info);
        }
        fprintf(stderr, "VP-SEMANTIC-VIOLATION %s: %s\n", r2.sig.c_str(), r2.msg.c_str());
        fflush(nullptr);
        _exit(77);
    }
    return 0;
}
