// rc_driver.cc — rapidcheck generates and shrinks choice tapes; no liba headers here.
// Configured only through RC_PARAMS (seed, max_success, max_size) plus VP_OUT (output
// prefix) and VP_TAPE_LEN (tape length reached at size 100).
#include "stats.h"
#include <rapidcheck.h>
#include <unistd.h>
extern "C" int __llvm_profile_write_file(void) __attribute__((weak));

extern "C" void __sanitizer_set_death_callback(void (*)(void)) __attribute__((weak));

static Stats g_stats;
static vp_info const *g_info;
static char const *g_out;
static std::vector<uint8_t> g_cur;      // tape being executed (for sanitizer deaths)
static std::vector<uint8_t> g_lastfail; // last tape that failed (= shrunk one at the end)
static bool g_in_case = false;

static void death_cb(void)
{
    if (!g_out) { return; }
    if (g_in_case)
    {
        std::string p = std::string(g_out) + ".crash.tape";
        vp_report rep;
        rep.sig = "sanitizer";
        rep.msg = "sanitizer abort while executing this tape";
        vp_write_tape(p.c_str(), g_cur.data(), g_cur.size(), &rep, g_info);
    }
    g_stats.write(g_out, g_info);
}

int main()
{
    g_info = vp_get_info();
    g_out = getenv("VP_OUT");
    g_stats.engine = "rapidcheck";
    unsigned tape_len = g_info->tape_len;
    if (char const *e = getenv("VP_TAPE_LEN")) { tape_len = unsigned(atoi(e)); }
    if (tape_len < 1) { tape_len = 1; }
    size_t want_samples = 6;
    if (char const *e = getenv("VP_SAMPLES")) { want_samples = size_t(atoi(e)); }
    if (__sanitizer_set_death_callback) { __sanitizer_set_death_callback(death_cb); }

    std::vector<uint8_t> dict = {0x00, 0x01, 0x02, 0x7F, 0x80, 0xFF, 0xFE};
    for (unsigned i = 0; i < g_info->dict_len; ++i) { dict.push_back(g_info->dict[i]); }

    auto elem = rc::gen::resize(
        100, rc::gen::weightedOneOf<uint8_t>({
                 {5, rc::gen::map(rc::gen::inRange<int>(0, 256), [](int v) { return uint8_t(v); })},
                 {3, rc::gen::map(rc::gen::inRange<int>(0, 16), [](int v) { return uint8_t(v); })},
                 {2, rc::gen::elementOf(dict)},
             }));
    auto tapes = rc::gen::scale(double(tape_len) / 100.0, rc::gen::container<std::vector<uint8_t>>(elem));

    uint64_t next_sample = 1;
    bool ok = rc::check(g_info->property, [&]() {
        g_cur = *tapes;
        vp_report rep;
        g_in_case = true;
        int rc = vp_run(g_cur.data(), g_cur.size(), &rep);
        g_in_case = false;
        g_stats.account(rep, rc, g_cur.size());
        if (rc == 0 && rep.nontrivial && g_stats.samples.size() < want_samples && g_stats.nontrivial >= next_sample)
        {
            vp_report r2;
            r2.want_render = true;
            g_in_case = true;
            vp_run(g_cur.data(), g_cur.size(), &r2);
            g_in_case = false;
            if (r2.render.size() > 1600)
            {
                r2.render.resize(1600);
                r2.render += " ...";
            }
            g_stats.samples.push_back(r2.render);
            next_sample = next_sample * 8 + 1;
        }
        if (rc == 1)
        {
            g_lastfail = g_cur;
            RC_FAIL(rep.sig + ": " + rep.msg);
        }
    });
    if (!ok && g_out)
    {
        vp_report rep;
        rep.want_render = true;
        g_cur = g_lastfail;
        g_in_case = true;
        int rc = vp_run(g_lastfail.data(), g_lastfail.size(), &rep);
        g_in_case = false;
        if (rc == 1)
        {
            std::string p = std::string(g_out) + ".fail.tape";
            vp_write_tape(p.c_str(), g_lastfail.data(), g_lastfail.size(), &rep, g_info);
        }
    }
    g_stats.write(g_out, g_info);
    fflush(nullptr);
    if (__llvm_profile_write_file) { __llvm_profile_write_file(); } // coverage builds of tools/coverage_audit.py only
    _exit(ok ? 0 : 1);
}
