// replay_main.cc — run saved tapes without any generator library (plain regression check).
// usage: replay [-q] tape...   exit 0: all hold; 1: a violation; sanitizer aborts exit non-zero too
#include "stats.h"

int main(int argc, char **argv)
{
    vp_info const *info = vp_get_info();
    bool quiet = false;
    int bad = 0;
    for (int i = 1; i < argc; ++i)
    {
        if (strcmp(argv[i], "-q") == 0) { quiet = true; continue; }
        bool ok;
        std::vector<uint8_t> t = vp_read_tape(argv[i], &ok);
        if (!ok) { fprintf(stderr, "cannot read %s\n", argv[i]); return 3; }
        vp_report rep;
        rep.want_render = !quiet;
        if (!quiet)
        {
            setenv("VP_TRACE", "1", 1);
            printf("== %s [%s/%s] %zu bytes\n", argv[i], info->property, info->unit, t.size());
            fflush(stdout);
        }
        int rc = vp_run(t.data(), t.size(), &rep);
        if (rc == 1)
        {
            printf("REPLAY-VIOLATION sig=%s msg=%s\n", rep.sig.c_str(), rep.msg.c_str());
            bad = 1;
        }
        else { printf("REPLAY-OK rc=%d nontrivial=%d\n", rc, int(rep.nontrivial)); }
        fflush(stdout);
    }
    return bad;
}
