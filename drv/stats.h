// stats.h — counters kept by every driver and written as JSON for the orchestrator.
#ifndef VP_STATS_H
#define VP_STATS_H

#include "vp.h"
#include <string>
#include <unordered_set>
#include <vector>

struct Stats
{
    std::string engine;
    uint64_t evaluations = 0, nontrivial = 0, discarded = 0, violations = 0;
    uint64_t excluded = 0, subcases = 0, tape_bytes = 0, max_tape = 0;
    uint64_t label_count[64] = {0};
    double metric[8] = {0};
    std::unordered_set<uint64_t> distinct;    // hashes of non-trivial decoded cases
    std::unordered_set<uint64_t> distinct_all;
    bool capped = false;
    std::vector<std::string> samples;
    static constexpr size_t CAP = 4000000;

    void account(vp_report const &r, int rc, size_t tape_n)
    {
        ++evaluations;
        tape_bytes += tape_n;
        if (tape_n > max_tape) { max_tape = tape_n; }
        excluded += r.excluded;
        subcases += r.subcases;
        if (rc == 2) { ++discarded; }
        if (rc == 1) { ++violations; }
        for (int i = 0; i < 64; ++i)
        {
            if ((r.labels >> i) & 1) { ++label_count[i]; }
        }
        for (int i = 0; i < 8; ++i)
        {
            if (r.metric[i] > metric[i]) { metric[i] = r.metric[i]; }
        }
        if (distinct_all.size() < CAP) { distinct_all.insert(r.hash); }
        if (r.nontrivial && rc == 0)
        {
            ++nontrivial;
            if (distinct.size() < CAP) { distinct.insert(r.hash); }
            else { capped = true; }
        }
    }

    static void jstr(FILE *f, std::string const &s)
    {
        fputc('"', f);
        for (unsigned char c : s)
        {
            if (c == '"' || c == '\\') { fprintf(f, "\\%c", c); }
            else if (c == '\n') { fputs("\\n", f); }
            else if (c < 0x20 || c >= 0x7F) { fprintf(f, "\\u%04x", c); }
            else { fputc(c, f); }
        }
        fputc('"', f);
    }

    // writes <out>.json and <out>.hashes (binary u64 list of distinct non-trivial hashes)
    void write(char const *out, vp_info const *info) const
    {
        if (!out) { return; }
        std::string jp = std::string(out) + ".json.tmp";
        FILE *f = fopen(jp.c_str(), "w");
        if (!f) { return; }
        fprintf(f, "{\"engine\":");
        jstr(f, engine);
        fprintf(f, ",\"property\":");
        jstr(f, info->property);
        fprintf(f, ",\"unit\":");
        jstr(f, info->unit);
        fprintf(f, ",\"evaluations\":%llu,\"nontrivial\":%llu,\"distinct_nontrivial\":%llu,"
                   "\"distinct_all\":%llu,\"capped\":%s,\"discarded\":%llu,\"violations\":%llu,"
                   "\"excluded\":%llu,\"subcases\":%llu,\"tape_bytes\":%llu,\"max_tape\":%llu",
                (unsigned long long)evaluations, (unsigned long long)nontrivial,
                (unsigned long long)distinct.size(), (unsigned long long)distinct_all.size(),
                capped ? "true" : "false", (unsigned long long)discarded,
                (unsigned long long)violations, (unsigned long long)excluded,
                (unsigned long long)subcases, (unsigned long long)tape_bytes,
                (unsigned long long)max_tape);
        fprintf(f, ",\"labels\":{");
        bool first = true;
        for (int i = 0; info->label_names && i < 64 && info->label_names[i]; ++i)
        {
            if (!first) { fputc(',', f); }
            first = false;
            jstr(f, info->label_names[i]);
            fprintf(f, ":%llu", (unsigned long long)label_count[i]);
        }
        if (label_count[63])
        {
            fprintf(f, "%s\"known_finding_excluded\":%llu", first ? "" : ",", (unsigned long long)label_count[63]);
        }
        fprintf(f, "},\"metrics\":{");
        first = true;
        for (int i = 0; info->metric_names && i < 8 && info->metric_names[i]; ++i)
        {
            if (!first) { fputc(',', f); }
            first = false;
            jstr(f, info->metric_names[i]);
            fprintf(f, ":%.6g", metric[i]);
        }
        fprintf(f, "},\"samples\":[");
        for (size_t i = 0; i < samples.size(); ++i)
        {
            if (i) { fputc(',', f); }
            jstr(f, samples[i]);
        }
        fprintf(f, "]}\n");
        fclose(f);
        std::string fin = std::string(out) + ".json";
        rename(jp.c_str(), fin.c_str());
        std::string hp = std::string(out) + ".hashes";
        f = fopen(hp.c_str(), "wb");
        if (f)
        {
            size_t k = 0;
            for (uint64_t h : distinct)
            {
                if (k++ >= 1000000) { break; } // merged across processes by the orchestrator
                fwrite(&h, 8, 1, f);
            }
            fclose(f);
        }
    }
};

inline void vp_write_tape(char const *path, uint8_t const *p, size_t n, vp_report const *rep, vp_info const *info)
{
    FILE *f = fopen(path, "w");
    if (!f) { return; }
    fprintf(f, "# vp tape v1\n# property: %s unit: %s\n", info->property, info->unit);
    if (rep)
    {
        fprintf(f, "# signature: %s\n", rep->sig.c_str());
        std::string m = rep->msg;
        for (char &c : m) { if (c == '\n') { c = ' '; } }
        fprintf(f, "# message: %s\n", m.c_str());
        if (!rep->render.empty())
        {
            size_t a = 0;
            while (a < rep->render.size())
            {
                size_t b = rep->render.find('\n', a);
                if (b == std::string::npos) { b = rep->render.size(); }
                fprintf(f, "#   %.*s\n", int(b - a), rep->render.c_str() + a);
                a = b + 1;
            }
        }
    }
    for (size_t i = 0; i < n; ++i)
    {
        fprintf(f, "%02x%s", p[i], (i % 32 == 31 || i + 1 == n) ? "\n" : " ");
    }
    if (n == 0) { fputc('\n', f); }
    fclose(f);
}

inline std::vector<uint8_t> vp_read_tape(char const *path, bool *ok)
{
    std::vector<uint8_t> v;
    *ok = false;
    FILE *f = fopen(path, "r");
    if (!f) { return v; }
    // raw binary artifact (libFuzzer) unless it starts with the header
    char line[65536];
    bool text = false;
    long start = ftell(f);
    if (fgets(line, sizeof(line), f) && strncmp(line, "# vp tape", 9) == 0) { text = true; }
    fseek(f, start, SEEK_SET);
    if (!text)
    {
        int c;
        while ((c = fgetc(f)) != EOF) { v.push_back(uint8_t(c)); }
    }
    else
    {
        while (fgets(line, sizeof(line), f))
        {
            if (line[0] == '#') { continue; }
            char *p = line;
            while (*p)
            {
                while (*p == ' ' || *p == '\n' || *p == '\r' || *p == '\t') { ++p; }
                if (!*p) { break; }
                char *e;
                unsigned long b = strtoul(p, &e, 16);
                if (e == p) { break; }
                v.push_back(uint8_t(b));
                p = e;
            }
        }
    }
    fclose(f);
    *ok = true;
    return v;
}

#endif /* VP_STATS_H */
