// vp.h — interface between a property executor and the generic drivers.
//
// An executor is the only translation unit that includes liba headers. It decodes a byte
// "choice tape" into a structured case, drives liba, evaluates the property's oracle and
// fills a vp_report. Every random decision is a read from the tape; an exhausted tape
// yields zeros and zero always decodes to the simplest choice.
#ifndef VP_H
#define VP_H

#include <cstdarg>
#include <cstddef>
#include <cstdint>
#include <cstdio>
#include <cstdlib>
#include <cstring>
#include <string>

struct vp_report
{
    uint64_t labels = 0;      // bit i set: class label i occurred in this case
    bool nontrivial = false;  // by the property's stated rule
    uint64_t hash = 0;        // hash of the *decoded* case (distinctness)
    uint64_t excluded = 0;    // sub-cases excluded by construction (counted)
    uint64_t subcases = 0;    // oracle evaluations inside this case (ops, points, faults)
    double metric[8] = {0};   // property specific maxima (e.g. largest error ratio)
    bool want_render = false; // driver asks for a human-readable rendering
    std::string render;       // decoded case (only when want_render)
    std::string sig;          // violation signature, e.g. "vec_remove:index_wrap"
    std::string msg;          // violation message
};

struct vp_info
{
    char const *property;     // "C01"
    char const *unit;         // sub-executor / configuration name
    char const *rule;         // generation + non-triviality rule (goes into evidence)
    char const *const *label_names; // NULL terminated, at most 64
    char const *const *metric_names; // NULL terminated, at most 8
    unsigned tape_len;        // nominal maximal tape length
    uint8_t const *dict;      // interesting byte values for the generator
    unsigned dict_len;
};

// provided by the executor
extern "C" vp_info const *vp_get_info(void);
// 0 ok, 1 violation (rep->sig/msg set), 2 discarded
extern "C" int vp_run(uint8_t const *tape, size_t n, vp_report *rep);
// optional exhaustive enumerator: returns number of violations; see enum_main.cc
struct vp_enum_stats;
extern "C" int vp_enum(unsigned shard, unsigned nshards, int tier, vp_enum_stats *st) __attribute__((weak));

struct vp_fail
{
};

// ---------------------------------------------------------------------------------------
// Inputs the library declares const can be handed over in memory that really is read-only: a copy that ends flush against an
// inaccessible page (reads past the end fault as well). A write through the const pointer is then a SEGV instead of going unnoticed.
#include <sys/mman.h>
struct RoBlock
{
    void *map = nullptr;
    size_t maplen = 0;
    void *p = nullptr;
    RoBlock(void const *src, size_t n, size_t align)
    {
        size_t const pg = 4096;
        size_t pages = (n + pg - 1) / pg;
        if (!pages) { pages = 1; }
        maplen = (pages + 1) * pg;
        map = mmap(nullptr, maplen, PROT_READ | PROT_WRITE, MAP_PRIVATE | MAP_ANONYMOUS, -1, 0);
        if (map == MAP_FAILED) { map = nullptr; p = nullptr; return; }
        char *end = (char *)map + pages * pg;
        size_t off = align ? (n + align - 1) / align * align : n;
        p = end - off;
        if (n) { memcpy(p, src, n); }
        mprotect(map, pages * pg, PROT_READ);
        mprotect(end, pg, PROT_NONE);
    }
    ~RoBlock() { if (map) { munmap(map, maplen); } }
    RoBlock(RoBlock const &) = delete;
};

class Tape
{
public:
    Tape(uint8_t const *p, size_t n) : p_(p), n_(n), i_(0) {}
    bool done() const { return i_ >= n_; }
    size_t pos() const { return i_; }
    size_t left() const { return i_ < n_ ? n_ - i_ : 0; }
    uint8_t tail() const { return n_ ? p_[n_ - 1] : uint8_t(0); } // the last byte, without consuming it (ambient choices)
    uint8_t u8() { return i_ < n_ ? p_[i_++] : (++i_, uint8_t(0)); }
    uint16_t u16() { uint16_t a = u8(); return uint16_t(a | (uint16_t(u8()) << 8)); }
    uint32_t u32() { uint32_t a = u16(); return a | (uint32_t(u16()) << 16); }
    uint64_t u64() { uint64_t a = u32(); return a | (uint64_t(u32()) << 32); }
    // uniform-ish value in [lo, hi], one byte if the span fits, else more; 0 -> lo
    uint64_t range(uint64_t lo, uint64_t hi)
    {
        if (hi <= lo) { return lo; }
        uint64_t span = hi - lo;
        uint64_t v;
        if (span < 0x100) { v = u8(); }
        else if (span < 0x10000) { v = u16(); }
        else if (span < 0x100000000ull) { v = u32(); }
        else { v = u64(); }
        if (span == UINT64_MAX) { return lo + v; }
        return lo + v % (span + 1);
    }
    bool coin() { return (u8() & 1) != 0; }
    // true with probability about num/256
    bool chance(unsigned num) { return u8() % 256 < num && num > 0 ? true : false; }

private:
    uint8_t const *p_;
    size_t n_, i_;
};

// ---------------------------------------------------------------------------------------
// FNV-1a style incremental hash for decoded cases
struct Hash
{
    uint64_t h = 1469598103934665603ull;
    void add(uint64_t v)
    {
        for (int i = 0; i < 8; ++i)
        {
            h ^= (v >> (8 * i)) & 0xFF;
            h *= 1099511628211ull;
        }
    }
    void addd(double d)
    {
        uint64_t v;
        memcpy(&v, &d, 8);
        add(v);
    }
    void addb(void const *p, size_t n)
    {
        uint8_t const *b = (uint8_t const *)p;
        for (size_t i = 0; i < n; ++i)
        {
            h ^= b[i];
            h *= 1099511628211ull;
        }
    }
};

// ---------------------------------------------------------------------------------------
// per-case context helpers used by executors
struct Ctx
{
    vp_report *rep;
    Hash hash;
    explicit Ctx(vp_report *r) : rep(r) {}
    void label(unsigned i) { rep->labels |= (uint64_t(1) << i); }
    bool has(unsigned i) const { return (rep->labels >> i) & 1; }
    void metric(unsigned i, double v)
    {
        if (v > rep->metric[i]) { rep->metric[i] = v; }
    }
    __attribute__((format(printf, 2, 3))) void log(char const *fmt, ...)
    {
        if (!rep->want_render) { return; }
        if (rep->render.size() > 60000) { return; }
        char buf[1024];
        va_list ap;
        va_start(ap, fmt);
        vsnprintf(buf, sizeof(buf), fmt, ap);
        va_end(ap);
        rep->render += buf;
        static int trace = -1;
        if (trace < 0) { trace = getenv("VP_TRACE") ? 1 : 0; }
        if (trace)
        {
            // replay mode: print as we go, so a sanitizer abort still shows the decoded prefix
            fputs(buf, stdout);
            fflush(stdout);
        }
    }
    __attribute__((format(printf, 3, 4), noreturn)) void fail(char const *sig, char const *fmt, ...)
    {
        char buf[2048];
        va_list ap;
        va_start(ap, fmt);
        vsnprintf(buf, sizeof(buf), fmt, ap);
        va_end(ap);
        rep->sig = sig;
        rep->msg = buf;
        throw vp_fail();
    }
};

#define VP_CHECK(cx, cond, sig, ...) \
    do { if (!(cond)) { (cx).fail(sig, __VA_ARGS__); } } while (0)

// known-finding exclusion: VP_KNOWN="sig1,sig2" — a failure with a listed signature ends
// the case as "excluded by construction" instead of as a violation (see known_findings.json)
inline bool vp_is_known(std::string const &sig)
{
    char const *k = getenv("VP_KNOWN");
    if (!k || !*k) { return false; }
    std::string s(k);
    size_t a = 0;
    while (a <= s.size())
    {
        size_t b = s.find(',', a);
        if (b == std::string::npos) { b = s.size(); }
        if (s.compare(a, b - a, sig) == 0) { return true; }
        a = b + 1;
    }
    return false;
}

// findings of the argument-evaluation scan of this unit (vp/once.py, generated into the unit's build directory): reported
// by every case, so that any tape reproduces them
#if defined(__has_include)
#if __has_include("vp_once.h")
#include "vp_once.h"
#define VP_HAVE_ONCE 1
#endif
#endif
static inline void vp_once_report(Ctx &cx)
{
#ifdef VP_HAVE_ONCE
    if (vp_once_findings[0])
    {
        char sig[96];
        char const *e = vp_once_findings[0];
        size_t k = 0;
        while (e[k] && e[k] != ' ' && k < 40) { ++k; }
        snprintf(sig, sizeof(sig), "%s:%.*s", strstr(e, "attribute const") ? "api:const_attribute_on_memory_reader" : "api:argument_evaluated_more_than_once", int(k), e);
        cx.fail(sig, "%s", e);
    }
#else
    (void)cx;
#endif
}

// Ambient process state the caller of a library is free to have: a stale errno from an unrelated earlier call and - for the
// executors whose results do not depend on floating-point rounding (they define VP_AMBIENT_ROUNDING) - the dynamic rounding mode.
// Chosen per case from the LAST byte of the tape (not consumed from the stream, so the decoding of the case is unchanged);
// restored afterwards. An empty tape or a last byte of 0 gives errno 0 and round-to-nearest.
#include <cerrno>
#include <cfenv>
static int g_vp_ambient_round = FE_TONEAREST;
static inline int vp_ambient_enter(uint8_t const *tape, size_t n)
{
    static int const errs[8] = {0, EOVERFLOW, ERANGE, EDOM, EILSEQ, ENOMEM, EINVAL, EINTR};
    uint8_t ab = n ? tape[n - 1] : 0;
    int old = fegetround();
    g_vp_ambient_round = FE_TONEAREST;
#ifdef VP_AMBIENT_ROUNDING
    switch ((ab >> 3) & 7)
    {
    case 5: g_vp_ambient_round = FE_DOWNWARD; break;
    case 6: g_vp_ambient_round = FE_UPWARD; break;
    case 7: g_vp_ambient_round = FE_TOWARDZERO; break;
    default: break;
    }
    fesetround(g_vp_ambient_round);
#endif
    errno = errs[ab & 7];
    return old;
}
static inline void vp_ambient_leave(int old)
{
    fesetround(old);
    errno = 0;
}

// wrapper: executors implement `static void run_case(Tape &, Ctx &)` and use VP_DEFINE_RUN
#define VP_DEFINE_RUN(run_case)                                               \
    extern "C" int vp_run(uint8_t const *tape, size_t n, vp_report *rep)      \
    {                                                                         \
        Tape t(tape, n);                                                      \
        Ctx cx(rep);                                                          \
        int vp_amb_ = vp_ambient_enter(tape, n);                              \
        try                                                                   \
        {                                                                     \
            vp_once_report(cx);                                               \
            run_case(t, cx);                                                  \
        }                                                                     \
        catch (vp_fail const &)                                               \
        {                                                                     \
            vp_ambient_leave(vp_amb_);                                        \
            rep->hash = cx.hash.h;                                            \
            if (vp_is_known(rep->sig))                                        \
            {                                                                 \
                rep->excluded += 1;                                           \
                rep->labels |= (uint64_t(1) << 63);                           \
                return 2;                                                     \
            }                                                                 \
            return 1;                                                         \
        }                                                                     \
        vp_ambient_leave(vp_amb_);                                            \
        rep->hash = cx.hash.h;                                                \
        return 0;                                                             \
    }

#endif /* VP_H */
