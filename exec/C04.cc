#define VP_AMBIENT_ROUNDING 1 // results of this executor may not depend on the dynamic floating-point rounding mode (drv/vp.h)
// C04 — vector and fixed buffer against an abstract sequence (also the vec/buf part of C07
// when built with -DVP_FAULT: allocation faults injected at every request position).
#include "fault.h"
#include <algorithm>
#include <climits>
#include <string>
#include <vector>
extern "C" {
#include "a/buf.h"
#include "a/vec.h"
}

typedef std::vector<uint8_t> Elem;

enum
{
    L_VEC, L_BUF, L_RM_SPARE, L_RM_FULL, L_SORTF_SPARE, L_SORTF_FULL, L_SORTB_SPARE, L_SORTB_FULL, L_BIGIDX, L_REALLOC,
    L_BUF_REFUSED, L_STORE_MID, L_ERASE_MID, L_ERASE_TRUNC, L_SETZ, L_SWAP, L_PUSH_SORT, L_SIZ_GT8, L_FAULT_HIT, L_FAULT_LATE, L_BUF_SETM_SHRINK, L_SEARCH, L_LARGE, L_KEY_BEHIND_NUL
};
static char const *const labels[] = {"vector", "buffer", "positional_remove_with_spare_slot", "positional_remove_exactly_full",
                                     "sort_fore_spare", "sort_fore_full", "sort_back_spare", "sort_back_full", "index_ge_2^32",
                                     "reallocation", "buffer_refused_op", "store_in_middle", "erase_in_middle", "erase_truncates", "setz",
                                     "swap", "push_sort", "element_size_gt_8", "fault_hit_library_request", "fault_not_in_first_op", "buf_setm_shrink_below_count", "search", "capacity_or_count_of_several_hundred_elements", "key_in_byte_1_behind_a_mostly_NUL_byte", nullptr};
static char const *const metrics[] = {"max_elements", "faulty_executions", nullptr};
static uint8_t const dict[] = {16, 6, 5, 11, 12, 13, 14};
#ifdef VP_FAULT
#define PROP_ID "C07"
#define UNIT "vecbuf"
#else
#define PROP_ID "C04"
#define UNIT "vecbuf"
#endif
static vp_info const info = {PROP_ID, UNIT, "", labels, metrics, 300, dict, sizeof(dict)};
extern "C" vp_info const *vp_get_info(void) { return &info; }

// The comparison contract is the sign of the result only; the style is fixed per history (0: -1/0/+1, 1: difference,
// 2: difference * 1000, 3: INT_MIN/0/INT_MAX, 4..7: asymmetric mixes).
static int g_cmp_style = 0;
static int cmp_shape2(int x, int y);
// left argument: an element; right argument: a probe whose single byte holds the complement of the key
// where the one-byte key sits inside an element: byte 0, or - per history, for elements of two bytes or more - byte 1 behind a
// byte that is mostly NUL (elements that agree up to a NUL and differ behind it; binary data is not a C string)
static bool g_key_hi = false;
static size_t g_key_at = 0; // set from the box right before every call that takes the comparator
static int cmp_elem_probe(void const *a, void const *b)
{
    return cmp_shape2(((uint8_t const *)a)[g_key_at], uint8_t(~*(uint8_t const *)b));
}
static int cmp_first(void const *a, void const *b)
{
    return cmp_shape2(((uint8_t const *)a)[g_key_at], ((uint8_t const *)b)[g_key_at]);
}
static int cmp_shape2(int x, int y)
{
    int s = (x > y) - (x < y);
    switch (g_cmp_style & 7)
    {
    default: case 0: return s;
    case 1: return x - y;
    case 2: return (x - y) * 1000;
    case 3: return s > 0 ? INT_MAX : s < 0 ? INT_MIN : 0;
    case 4: return s > 0 ? 2 : s;
    case 5: return s < 0 ? -2 : s;
    case 6: return s > 0 ? x - y + 1 : s;
    case 7: return s < 0 ? INT_MIN : x - y;
    }
}
static int copy_elem_siz = 1;
static int copy_calls = 0;
static int copy_fn(void *dst, void const *src)
{
    memcpy(dst, src, size_t(copy_elem_siz));
    ++copy_calls;
    return 0;
}
static std::vector<void *> dtor_seen;
static void dtor_fn(void *p) { dtor_seen.push_back(p); }

struct Box
{
    bool is_buf = false;
    bool heap_obj = false;  // vec: a_vec_new/a_vec_die ; buf: a_buf_new (else ctor on caller storage)
    a_vec vstore;
    a_vec *v = nullptr;
    a_buf *b = nullptr;
    void *own = nullptr;    // caller storage for a_buf_ctor (exact-size heap block)
    size_t siz = 1;
    size_t cap = 0;         // buffer capacity the model expects
    std::vector<Elem> m;
    unsigned serial = 0;

    size_t num() const { return is_buf ? a_buf_num(b) : a_vec_num(v); }
    size_t mem() const { return is_buf ? a_buf_mem(b) : a_vec_mem(v); }
    size_t esz() const { return is_buf ? a_buf_siz(b) : a_vec_siz(v); }
    uint8_t *base() const { return (uint8_t *)(is_buf ? a_buf_ptr(b) : a_vec_ptr(v)); }
};

struct Run
{
    Ctx &cx;
    Box bx[2];
    int nbox = 1;
    int fault_mode = 0;
    unsigned opno = 0;
    bool rm_spare = false, rm_full = false, sf_spare = false, sf_full = false, sb_spare = false, sb_full = false, bigidx = false;
    explicit Run(Ctx &c) : cx(c) {}
};

static inline size_t kpos(Box const &b) { return (g_key_hi && b.siz >= 2) ? 1 : 0; }
static Elem mk(Box &b, uint8_t key)
{
    Elem e(b.siz);
    unsigned s = b.serial++;
    for (size_t j = 0; j < b.siz; ++j) { e[j] = uint8_t(s * 7 + j * 13 + 1); }
    if (kpos(b)) { e[0] = (s % 4 == 3) ? uint8_t(s * 7 + 1) : uint8_t(0); }
    e[kpos(b)] = key;
    return e;
}

static bool model_sorted(Box const &b)
{
    for (size_t i = 1; i < b.m.size(); ++i) { if (b.m[i - 1][kpos(b)] > b.m[i][kpos(b)]) { return false; } }
    return true;
}

static void verify(Run &r, Box &b, char const *after)
{
    Ctx &cx = r.cx;
    shim_check(cx, after);
    size_t num = b.num(), mem = b.mem();
    VP_CHECK(cx, b.esz() == b.siz, "seq:element_size", "after %s: element size %zu, expected %zu", after, b.esz(), b.siz);
    VP_CHECK(cx, num <= mem, "seq:count_exceeds_capacity", "after %s: count %zu > capacity %zu", after, num, mem);
    VP_CHECK(cx, num == b.m.size(), "seq:count", "after %s: count %zu, abstract sequence has %zu", after, num, b.m.size());
    if (b.is_buf) { VP_CHECK(cx, mem == b.cap, "buf:capacity_changed", "after %s: buffer capacity %zu, expected %zu", after, mem, b.cap); }
    uint8_t *p = b.base();
    for (size_t i = 0; i < num; ++i)
    {
        if (memcmp(p + i * b.siz, b.m[i].data(), b.siz) != 0)
        {
            cx.fail("seq:content", "after %s: element %zu of %zu differs from the abstract sequence (first byte %u, expected %u)", after, i, num, p[i * b.siz], b.m[i][0]);
        }
    }
    // the whole claimed capacity must be owned storage: touch every byte (ASan red zones)
    if (mem && p)
    {
        volatile uint8_t sink = 0;
        for (size_t i = num * b.siz; i < mem * b.siz; ++i) { sink ^= p[i]; }
        (void)sink;
    }
    r.cx.metric(0, double(num));
}

static void check_inside(Run &r, Box &b, void *p, char const *what, bool allow_end = false)
{
    uint8_t *base = b.base();
    size_t span = b.siz * b.mem();
    uint8_t *q = (uint8_t *)p;
    bool ok = base && q >= base && (allow_end ? q <= base + span : q < base + span) && size_t(q - base) % b.siz == 0;
    VP_CHECK(r.cx, ok, "seq:pointer_outside_storage", "%s returned %p, storage is [%p, %p) with element size %zu", what, p, (void *)base, (void *)(base + span), b.siz);
}

static size_t g_idx_siz = 1; // element size of the container the current operation works on
static size_t gen_idx(Tape &t, size_t n, Run &r)
{
    uint8_t cb = t.u8();
    uint8_t c = cb % 16;
    size_t near = (cb / 16) % (n + 3); // spare bits of the same byte: small offsets around the huge values
    size_t v;
    switch (c)
    {
    case 0: case 1: case 2: case 3: v = n ? t.u8() % n : 0; break;
    case 4: v = 0; break;
    case 5: v = 1; break;
    case 6: v = n / 2; break;
    case 7: v = n ? n - 1 : 0; break;
    case 8: v = n; break;
    case 9: v = n + 1; break;
    case 10: v = 2 * n + 1; break;
    case 11: v = (size_t(1) << 31) + near; break;
    case 12: v = 0xFFFFFFFFull + near; break;
    case 13: v = (size_t(1) << (63 - (cb / 16) % 4)) + near; break;       // 2^63, 2^62, 2^61, 2^60 (+ small): index * size wraps for sizes 2, 4, 8, 16
    case 14: v = SIZE_MAX / g_idx_siz + 1 + near; break;                 // the first index whose byte offset wraps
    default: v = SIZE_MAX - near; break;                                 // as a signed number: -1, -2, ...
    }
    if (v >= (size_t(1) << 32))
    {
        r.bigidx = true;
        r.cx.label(L_BIGIDX);
    }
    return v;
}

// a failed operation: only legitimate when a fault was injected during it (or, for the buffer, no room)
static void expect_fault(Run &r, uint64_t faults_before, char const *op)
{
    VP_CHECK(r.cx, g_shim.faults > faults_before, "seq:spurious_failure", "%s reported failure although no allocation failed", op);
    r.cx.label(L_FAULT_HIT);
    if (r.opno > 1) { r.cx.label(L_FAULT_LATE); }
}

static void multiset_same(Run &r, Box &b, std::vector<Elem> want, char const *op)
{
    // adopt the container's order (ties may land anywhere), require sortedness + same multiset
    size_t num = b.num();
    VP_CHECK(r.cx, num == want.size(), "seq:count", "after %s: count %zu, expected %zu", op, num, want.size());
    std::vector<Elem> got;
    uint8_t *p = b.base();
    for (size_t i = 0; i < num; ++i) { got.emplace_back(p + i * b.siz, p + (i + 1) * b.siz); }
    for (size_t i = 1; i < num; ++i) { VP_CHECK(r.cx, got[i - 1][kpos(b)] <= got[i][kpos(b)], "sort:not_sorted", "after %s: element %zu (key %u) precedes key %u", op, i - 1, got[i - 1][kpos(b)], got[i][kpos(b)]); }
    std::vector<Elem> a = got;
    std::sort(a.begin(), a.end());
    std::sort(want.begin(), want.end());
    VP_CHECK(r.cx, a == want, "sort:multiset_changed", "after %s: elements were lost, duplicated or torn", op);
    b.m = got;
}

// ---------------------------------------------------------------------------------------
static void op_push(Run &r, Box &b, Tape &t, bool fore, int sort_after)
{
    uint8_t key = t.u8();
    Elem e = mk(b, key);
    bool spare_before = b.num() < b.mem();
    for (int attempt = 0; attempt < 2; ++attempt)
    {
        uint64_t fb = g_shim.faults;
        size_t oldnum = b.num();
        bool generic = !fore && (r.opno & 3) == 0; // the generic spellings a_vec_push / a_buf_push (= push_back)
        bool typed = (r.opno & 4) != 0; // the typed macro spellings (a cast of the function's result)
        typedef uint8_t E;
        void *p = typed ? (b.is_buf ? (fore ? (void *)A_BUF_PUSH_FORE(E, b.b) : generic ? (void *)A_BUF_PUSH(E, b.b) : (void *)A_BUF_PUSH_BACK(E, b.b))
                                    : (fore ? (void *)A_VEC_PUSH_FORE(E, b.v) : generic ? (void *)A_VEC_PUSH(E, b.v) : (void *)A_VEC_PUSH_BACK(E, b.v)))
                        : b.is_buf ? (fore ? a_buf_push_fore(b.b) : generic ? a_buf_push(b.b) : a_buf_push_back(b.b)) : (fore ? a_vec_push_fore(b.v) : generic ? a_vec_push(b.v) : a_vec_push_back(b.v));
        r.cx.log("%s push_%s key %u -> %s\n", b.is_buf ? "buf" : "vec", fore ? "fore" : "back", key, p ? "ok" : "null");
        if (!p)
        {
            if (b.is_buf && oldnum == b.cap)
            {
                r.cx.label(L_BUF_REFUSED);
                verify(r, b, "refused push");
                return;
            }
            expect_fault(r, fb, "push");
            verify(r, b, "failed push");
            if (r.fault_mode == 1 && attempt == 0) { continue; }
            return;
        }
        VP_CHECK(r.cx, !(b.is_buf && oldnum >= b.cap), "buf:wrote_past_capacity", "push into a full buffer (count %zu, capacity %zu) returned a slot", oldnum, b.cap);
        check_inside(r, b, p, "push");
        VP_CHECK(r.cx, p == b.base() + b.siz * (fore ? 0 : oldnum), "seq:push_slot", "push_%s returned slot %zu", fore ? "fore" : "back", size_t((uint8_t *)p - b.base()) / b.siz);
        memcpy(p, e.data(), b.siz);
        if (fore) { b.m.insert(b.m.begin(), e); }
        else { b.m.push_back(e); }
        if (!b.is_buf && !spare_before) { r.cx.label(L_REALLOC); }
        verify(r, b, "push");
        break;
    }
    if (sort_after)
    {
        // the rest of the sequence must be sorted for sort_fore / sort_back to be meaningful
        std::vector<Elem> rest = b.m;
        if (fore) { rest.erase(rest.begin()); }
        else { rest.pop_back(); }
        bool ok = true;
        for (size_t i = 1; i < rest.size(); ++i) { if (rest[i - 1][kpos(b)] > rest[i][kpos(b)]) { ok = false; } }
        if (!ok)
        {
            ++r.cx.rep->excluded;
            return;
        }
        bool spare = b.num() < b.mem();
        std::vector<Elem> want = b.m;
        r.cx.log("  sort_%s (%s, %zu elements)\n", fore ? "fore" : "back", spare ? "spare slot" : "exactly full", b.m.size());
        g_key_at = kpos(b);
        if (b.is_buf) { fore ? a_buf_sort_fore(b.b, cmp_first) : a_buf_sort_back(b.b, cmp_first); }
        else { fore ? a_vec_sort_fore(b.v, cmp_first) : a_vec_sort_back(b.v, cmp_first); }
        if (b.m.size() >= 3)
        {
            if (fore) { (spare ? r.sf_spare : r.sf_full) = true; r.cx.label(spare ? L_SORTF_SPARE : L_SORTF_FULL); }
            else { (spare ? r.sb_spare : r.sb_full) = true; r.cx.label(spare ? L_SORTB_SPARE : L_SORTB_FULL); }
        }
        multiset_same(r, b, want, fore ? "sort_fore" : "sort_back");
        verify(r, b, "sort_fore/back");
    }
}

static void op_insert(Run &r, Box &b, Tape &t)
{
    size_t idx = gen_idx(t, b.m.size(), r);
    Elem e = mk(b, t.u8());
    for (int attempt = 0; attempt < 2; ++attempt)
    {
        uint64_t fb = g_shim.faults;
        size_t oldnum = b.num();
        void *p = (r.opno & 4) ? (b.is_buf ? (void *)A_BUF_INSERT(uint8_t, b.b, idx) : (void *)A_VEC_INSERT(uint8_t, b.v, idx))
                               : (b.is_buf ? a_buf_insert(b.b, idx) : a_vec_insert(b.v, idx));
        r.cx.log("%s insert(%zu) key %u -> %s\n", b.is_buf ? "buf" : "vec", idx, e[0], p ? "ok" : "null");
        if (!p)
        {
            if (b.is_buf && oldnum == b.cap)
            {
                r.cx.label(L_BUF_REFUSED);
                verify(r, b, "refused insert");
                return;
            }
            expect_fault(r, fb, "insert");
            verify(r, b, "failed insert");
            if (r.fault_mode == 1 && attempt == 0) { continue; }
            return;
        }
        VP_CHECK(r.cx, !(b.is_buf && oldnum >= b.cap), "buf:wrote_past_capacity", "insert into a full buffer returned a slot");
        size_t pos = idx < oldnum ? idx : oldnum;
        check_inside(r, b, p, "insert");
        VP_CHECK(r.cx, p == b.base() + b.siz * pos, "seq:insert_slot", "insert(%zu) into %zu elements returned slot %zu", idx, oldnum, size_t((uint8_t *)p - b.base()) / b.siz);
        memcpy(p, e.data(), b.siz);
        b.m.insert(b.m.begin() + long(pos), e);
        verify(r, b, "insert");
        return;
    }
}

static void op_remove(Run &r, Box &b, Tape &t, int kind) // 0 remove(idx) 1 pull_fore 2 pull_back
{
    size_t idx = kind == 0 ? gen_idx(t, b.m.size(), r) : 0;
    size_t oldnum = b.m.size();
    bool spare = b.num() < b.mem();
    void *p;
    r.cx.log("%s %s(%zu) of %zu (%s) ...\n", b.is_buf ? "buf" : "vec", kind == 0 ? "remove" : kind == 1 ? "pull_fore" : "pull_back", idx, oldnum, spare ? "spare slot" : "exactly full");
    if (r.opno & 4)
    {
        // typed macro spellings
        typedef uint8_t E;
        if (kind == 0) { p = b.is_buf ? (void *)A_BUF_REMOVE(E, b.b, idx) : (void *)A_VEC_REMOVE(E, b.v, idx); }
        else if (kind == 1) { p = b.is_buf ? (void *)A_BUF_PULL_FORE(E, b.b) : (void *)A_VEC_PULL_FORE(E, b.v); }
        else if ((r.opno & 3) == 0) { p = b.is_buf ? (void *)A_BUF_PULL(E, b.b) : (void *)A_VEC_PULL(E, b.v); }
        else { p = b.is_buf ? (void *)A_BUF_PULL_BACK(E, b.b) : (void *)A_VEC_PULL_BACK(E, b.v); }
    }
    else if (kind == 0) { p = b.is_buf ? a_buf_remove(b.b, idx) : a_vec_remove(b.v, idx); }
    else if (kind == 1) { p = b.is_buf ? a_buf_pull_fore(b.b) : a_vec_pull_fore(b.v); }
    else if ((r.opno & 3) == 0) { p = b.is_buf ? a_buf_pull(b.b) : a_vec_pull(b.v); } // generic spelling (= pull_back)
    else { p = b.is_buf ? a_buf_pull_back(b.b) : a_vec_pull_back(b.v); }
    r.cx.log("  -> %s\n", p ? "ok" : "null");
    if (oldnum == 0)
    {
        VP_CHECK(r.cx, p == nullptr, "seq:remove_from_empty", "remove from an empty container returned a pointer");
        verify(r, b, "remove on empty");
        return;
    }
    VP_CHECK(r.cx, p != nullptr, "seq:remove_failed", "remove from %zu elements returned null", oldnum);
    size_t pos = kind == 2 ? oldnum - 1 : (idx < oldnum - 1 ? idx : oldnum - 1);
    check_inside(r, b, p, "remove");
    VP_CHECK(r.cx, memcmp(p, b.m[pos].data(), b.siz) == 0, "seq:removed_element_not_intact", "remove(%zu) of %zu: returned slot does not hold the removed element (key %u, expected %u)", idx, oldnum, *(uint8_t *)p, b.m[pos][0]);
    if (kind != 2 && pos + 1 < oldnum && oldnum >= 3)
    {
        (spare ? r.rm_spare : r.rm_full) = true;
        r.cx.label(spare ? L_RM_SPARE : L_RM_FULL);
    }
    b.m.erase(b.m.begin() + long(pos));
    verify(r, b, "remove");
}

static void op_store(Run &r, Box &b, Tape &t)
{
    size_t idx = gen_idx(t, b.m.size(), r);
    size_t n = t.u8() % 7;
    bool use_copy = t.coin();
    std::vector<Elem> es;
    // exact-size source block (over-reads are ASan errors)
    uint8_t *src = (uint8_t *)malloc(n * b.siz ? n * b.siz : 1);
    for (size_t i = 0; i < n; ++i)
    {
        es.push_back(mk(b, t.u8()));
        memcpy(src + i * b.siz, es.back().data(), b.siz);
    }
    for (int attempt = 0; attempt < 2; ++attempt)
    {
        uint64_t fb = g_shim.faults;
        size_t oldnum = b.num();
        copy_elem_siz = int(b.siz);
        copy_calls = 0;
        int rc = b.is_buf ? a_buf_store(b.b, idx, src, n, use_copy ? copy_fn : nullptr) : a_vec_store(b.v, idx, src, n, use_copy ? copy_fn : nullptr);
        r.cx.log("%s store(%zu, n=%zu, %s) -> %d\n", b.is_buf ? "buf" : "vec", idx, n, use_copy ? "copy" : "memcpy", rc);
        if (rc != A_SUCCESS)
        {
            if (b.is_buf && oldnum + n > b.cap)
            {
                VP_CHECK(r.cx, rc == A_OBOUNDS, "buf:store_return", "store that does not fit returned %d", rc);
                r.cx.label(L_BUF_REFUSED);
                verify(r, b, "refused store");
                break;
            }
            VP_CHECK(r.cx, rc == A_OMEMORY, "seq:store_return", "store returned %d", rc);
            expect_fault(r, fb, "store");
            verify(r, b, "failed store");
            if (r.fault_mode == 1 && attempt == 0) { continue; }
            break;
        }
        VP_CHECK(r.cx, !(b.is_buf && oldnum + n > b.cap), "buf:wrote_past_capacity", "store of %zu into buffer with %zu/%zu succeeded", n, oldnum, b.cap);
        if (use_copy) { VP_CHECK(r.cx, size_t(copy_calls) == n, "seq:store_copy_calls", "store of %zu elements called copy %d times", n, copy_calls); }
        size_t pos = idx < oldnum ? idx : oldnum;
        if (n && pos < oldnum) { r.cx.label(L_STORE_MID); }
        b.m.insert(b.m.begin() + long(pos), es.begin(), es.end());
        verify(r, b, "store");
        break;
    }
    free(src);
}

static void op_erase(Run &r, Box &b, Tape &t)
{
    size_t num = b.m.size();
    size_t idx = gen_idx(t, num, r);
    size_t cnt;
    switch (t.u8() % 10)
    {
    case 0: cnt = 0; break;
    case 1: cnt = 1; break;
    case 2: cnt = 2; break;
    case 3: cnt = num / 2; break;
    case 4: cnt = num; break;
    case 5: cnt = num + 1; break;
    case 6: cnt = idx < num ? num - idx : 1; break;
    case 7: cnt = SIZE_MAX; break;
    case 8: cnt = SIZE_MAX - idx + 1; break; // idx + cnt wraps to exactly 0
    default: cnt = size_t(1) << 32; break;
    }
    bool use_dtor = t.coin();
    dtor_seen.clear();
    r.cx.log("%s erase(%zu, %zu%s) of %zu ...\n", b.is_buf ? "buf" : "vec", idx, cnt, use_dtor ? ", dtor" : "", num);
    int rc = b.is_buf ? a_buf_erase(b.b, idx, cnt, use_dtor ? dtor_fn : nullptr) : a_vec_erase(b.v, idx, cnt, use_dtor ? dtor_fn : nullptr);
    r.cx.log("  -> %d\n", rc);
    size_t erased = 0;
    if (idx >= num)
    {
        VP_CHECK(r.cx, rc == A_OBOUNDS, "seq:erase_return", "erase at %zu beyond %zu elements returned %d", idx, num, rc);
    }
    else
    {
        VP_CHECK(r.cx, rc == A_SUCCESS, "seq:erase_return", "erase(%zu, %zu) of %zu elements returned %d", idx, cnt, num, rc);
        if (cnt >= num - idx)
        {
            erased = num - idx;
            b.m.resize(idx);
            if (erased) { r.cx.label(L_ERASE_TRUNC); }
        }
        else
        {
            erased = cnt;
            b.m.erase(b.m.begin() + long(idx), b.m.begin() + long(idx + cnt));
            if (cnt) { r.cx.label(L_ERASE_MID); }
        }
    }
    if (use_dtor)
    {
        VP_CHECK(r.cx, dtor_seen.size() == erased, "seq:erase_dtor_calls", "erase(%zu, %zu) of %zu elements called the destructor %zu times, %zu elements erased", idx, cnt, num, dtor_seen.size(), erased);
        for (void *p : dtor_seen) { check_inside(r, b, p, "erase destructor argument"); }
    }
    verify(r, b, "erase");
}

static void op_setn(Run &r, Box &b, Tape &t)
{
    size_t n = t.u8() % 65;
    bool use_dtor = t.coin();
    for (int attempt = 0; attempt < 2; ++attempt)
    {
        uint64_t fb = g_shim.faults;
        size_t oldnum = b.m.size();
        dtor_seen.clear();
        int rc = 0;
        if (b.is_buf) { a_buf_setn(b.b, n, use_dtor ? dtor_fn : nullptr); }
        else { rc = a_vec_setn(b.v, n, use_dtor ? dtor_fn : nullptr); }
        r.cx.log("%s setn(%zu) from %zu -> %d\n", b.is_buf ? "buf" : "vec", n, oldnum, rc);
        if (rc != 0)
        {
            VP_CHECK(r.cx, rc == A_OMEMORY, "seq:setn_return", "setn returned %d", rc);
            expect_fault(r, fb, "setn");
            verify(r, b, "failed setn");
            if (r.fault_mode == 1 && attempt == 0) { continue; }
            return;
        }
        size_t target = b.is_buf && n > b.cap ? b.cap : n;
        if (use_dtor && target < oldnum) { VP_CHECK(r.cx, dtor_seen.size() == oldnum - target, "seq:setn_dtor_calls", "setn(%zu) from %zu called the destructor %zu times", n, oldnum, dtor_seen.size()); }
        VP_CHECK(r.cx, b.num() == target && b.num() <= b.mem(), "seq:setn_count", "setn(%zu): count %zu capacity %zu", n, b.num(), b.mem());
        if (target <= oldnum) { b.m.resize(target); }
        else
        {
            // new elements are unspecified: give them content
            for (size_t i = oldnum; i < target; ++i)
            {
                Elem e = mk(b, t.u8());
                memcpy(b.base() + i * b.siz, e.data(), b.siz);
                b.m.push_back(e);
            }
        }
        verify(r, b, "setn");
        return;
    }
}

static void op_setm(Run &r, Box &b, Tape &t)
{
    size_t n = t.u8() % 65;
    for (int attempt = 0; attempt < 2; ++attempt)
    {
        uint64_t fb = g_shim.faults;
        if (b.is_buf)
        {
            if (!b.heap_obj) { return; } // caller-owned storage cannot be resized through a_alloc
            a_buf *nb = a_buf_setm(b.b, n);
            r.cx.log("buf setm(%zu) -> %s\n", n, nb ? "ok" : "null");
            if (!nb)
            {
                if (n == 0 && sizeof(a_buf) == 0) { return; }
                expect_fault(r, fb, "buf setm");
                verify(r, b, "failed buf setm");
                if (r.fault_mode == 1 && attempt == 0) { continue; }
                return;
            }
            b.b = nb;
            b.cap = n;
            if (n < b.m.size())
            {
                r.cx.label(L_BUF_SETM_SHRINK);
                b.m.resize(n);
            }
            verify(r, b, "buf setm");
            return;
        }
        size_t oldmem = b.mem();
        int rc = a_vec_setm(b.v, n);
        r.cx.log("vec setm(%zu) -> %d (capacity %zu)\n", n, rc, b.mem());
        if (rc != 0)
        {
            VP_CHECK(r.cx, rc == A_OMEMORY, "seq:setm_return", "setm returned %d", rc);
            expect_fault(r, fb, "vec setm");
            verify(r, b, "failed vec setm");
            if (r.fault_mode == 1 && attempt == 0) { continue; }
            return;
        }
        VP_CHECK(r.cx, b.mem() >= n && b.mem() >= oldmem, "seq:setm_capacity", "setm(%zu): capacity %zu (was %zu)", n, b.mem(), oldmem);
        if (b.mem() != oldmem) { r.cx.label(L_REALLOC); }
        verify(r, b, "vec setm");
        return;
    }
}

static size_t const kSizes[] = {1, 1, 2, 3, 4, 7, 8, 12, 16, 24};

static void op_setz(Run &r, Box &b, Tape &t)
{
    uint8_t c = t.u8() % 11;
    size_t ns = c == 10 ? 0 : kSizes[c];
    bool use_dtor = t.coin();
    size_t oldnum = b.m.size(), oldmem = b.mem(), oldsiz = b.siz;
    dtor_seen.clear();
    if (b.is_buf) { a_buf_setz(b.b, ns, use_dtor ? dtor_fn : nullptr); }
    else { a_vec_setz(b.v, ns, use_dtor ? dtor_fn : nullptr); }
    r.cx.log("%s setz(%zu)\n", b.is_buf ? "buf" : "vec", ns);
    r.cx.label(L_SETZ);
    if (!ns) { ns = 1; }
    if (use_dtor) { VP_CHECK(r.cx, dtor_seen.size() == oldnum, "seq:setz_dtor_calls", "setz dropped %zu elements, destructor called %zu times", oldnum, dtor_seen.size()); }
    b.siz = ns;
    b.m.clear();
    size_t newmem = oldmem * oldsiz / ns;
    VP_CHECK(r.cx, b.mem() == newmem, "seq:setz_capacity", "setz: capacity %zu, expected %zu", b.mem(), newmem);
    if (b.is_buf) { b.cap = newmem; }
    if (ns > 8) { r.cx.label(L_SIZ_GT8); }
    verify(r, b, "setz");
}

static void op_sort(Run &r, Box &b)
{
    std::vector<Elem> want = b.m;
    g_key_at = kpos(b);
    if (b.is_buf) { a_buf_sort(b.b, cmp_first); }
    else { a_vec_sort(b.v, cmp_first); }
    r.cx.log("%s sort\n", b.is_buf ? "buf" : "vec");
    multiset_same(r, b, want, "sort");
    verify(r, b, "sort");
}

static void op_push_sort(Run &r, Box &b, Tape &t)
{
    uint8_t key = t.u8();
    if (!model_sorted(b))
    {
        op_sort(r, b);
    }
    Elem e = mk(b, key);
    for (int attempt = 0; attempt < 2; ++attempt)
    {
        uint64_t fb = g_shim.faults;
        size_t oldnum = b.num();
        std::vector<Elem> want = b.m;
        // the key is "on the right" of every comparison (header text): half of the time it is a probe object of another layout
        // (one byte holding the complement of the key) with a comparator that decodes its right argument accordingly
        uint8_t probe = uint8_t(~key);
        bool hetero = (r.opno & 1) != 0;
        g_key_at = kpos(b);
        void *p = (r.opno & 4) ? (hetero ? (b.is_buf ? (void *)A_BUF_PUSH_SORT(uint8_t, b.b, &probe, cmp_elem_probe) : (void *)A_VEC_PUSH_SORT(uint8_t, b.v, &probe, cmp_elem_probe))
                                         : (b.is_buf ? (void *)A_BUF_PUSH_SORT(uint8_t, b.b, e.data(), cmp_first) : (void *)A_VEC_PUSH_SORT(uint8_t, b.v, e.data(), cmp_first)))
                  : hetero ? (b.is_buf ? a_buf_push_sort(b.b, &probe, cmp_elem_probe) : a_vec_push_sort(b.v, &probe, cmp_elem_probe))
                           : (b.is_buf ? a_buf_push_sort(b.b, e.data(), cmp_first) : a_vec_push_sort(b.v, e.data(), cmp_first));
        r.cx.log("%s push_sort key %u -> %s\n", b.is_buf ? "buf" : "vec", key, p ? "ok" : "null");
        if (!p)
        {
            if (b.is_buf && oldnum == b.cap)
            {
                r.cx.label(L_BUF_REFUSED);
                verify(r, b, "refused push_sort");
                return;
            }
            expect_fault(r, fb, "push_sort");
            verify(r, b, "failed push_sort");
            if (r.fault_mode == 1 && attempt == 0) { continue; }
            return;
        }
        VP_CHECK(r.cx, !(b.is_buf && oldnum >= b.cap), "buf:wrote_past_capacity", "push_sort into a full buffer returned a slot");
        check_inside(r, b, p, "push_sort");
        memcpy(p, e.data(), b.siz);
        want.push_back(e);
        r.cx.label(L_PUSH_SORT);
        multiset_same(r, b, want, "push_sort");
        verify(r, b, "push_sort");
        return;
    }
}

static void op_search(Run &r, Box &b, Tape &t)
{
    uint8_t key = t.u8();
    if (!model_sorted(b) || b.m.empty()) { return; }
    if (t.coin()) { key = b.m[t.u8() % b.m.size()][kpos(b)]; }
    g_key_at = kpos(b);
    Elem probe(b.siz, 0); // the object searched for has the layout of an element (the comparator reads the key byte of both)
    probe[kpos(b)] = key;
    void *p = b.is_buf ? a_buf_search(b.b, probe.data(), cmp_first) : a_vec_search(b.v, probe.data(), cmp_first);
    {
        void *pt = b.is_buf ? (void *)A_BUF_SEARCH(uint8_t, b.b, probe.data(), cmp_first) : (void *)A_VEC_SEARCH(uint8_t, b.v, probe.data(), cmp_first);
        VP_CHECK(r.cx, (pt == nullptr) == (p == nullptr), "seq:typed_macro", "typed SEARCH macro %s, the function %s", pt ? "finds an element" : "finds nothing", p ? "finds one" : "finds nothing");
    }
    bool present = false;
    for (auto &e : b.m) { if (e[kpos(b)] == key) { present = true; } }
    r.cx.label(L_SEARCH);
    r.cx.log("search key %u -> %s\n", key, p ? "found" : "absent");
    if (!present) { VP_CHECK(r.cx, p == nullptr, "seq:search_found_absent", "search for absent key %u returned an element", key); }
    else
    {
        VP_CHECK(r.cx, p != nullptr, "seq:search_missed", "search for present key %u returned null", key);
        check_inside(r, b, p, "search");
        VP_CHECK(r.cx, ((uint8_t *)p)[kpos(b)] == key && size_t((uint8_t *)p - b.base()) / b.siz < b.m.size(), "seq:search_wrong", "search for key %u returned key %u", key, ((uint8_t *)p)[kpos(b)]);
    }
}

template <class T> static void check_foreach(Run &r, Box &b);
static void op_query(Run &r, Box &b, Tape &t)
{
    size_t num = b.m.size(), mem = b.mem();
    uint8_t *base = b.base();
    size_t idx = gen_idx(t, num, r);
    void *p = b.is_buf ? a_buf_at(b.b, idx) : a_vec_at(b.v, idx);
    if (idx < mem)
    {
        VP_CHECK(r.cx, p == base + b.siz * idx, "seq:at", "at(%zu) with capacity %zu returned a wrong pointer", idx, mem);
        if (idx < num) { VP_CHECK(r.cx, memcmp(p, b.m[idx].data(), b.siz) == 0, "seq:at_content", "at(%zu) does not address element %zu", idx, idx); }
    }
    else { VP_CHECK(r.cx, p == nullptr, "seq:at_out_of_bounds", "at(%zu) with capacity %zu returned non-null", idx, mem); }
    // signed access from either end
    int64_t sidx;
    switch (t.u8() % 8)
    {
    case 0: sidx = -1; break;
    case 1: sidx = -int64_t(num); break;
    case 2: sidx = -int64_t(num) - 1; break;
    case 3: sidx = int64_t(num); break;
    case 4: sidx = INT64_MIN; break;
    case 5: sidx = INT64_MAX; break;
    case 6: sidx = -int64_t(t.u8() % (num + 2)); break;
    default: sidx = int64_t(t.u8() % (num + 2)); break;
    }
    void *q = b.is_buf ? a_buf_of(b.b, a_diff(sidx)) : a_vec_of(b.v, a_diff(sidx));
    VP_CHECK(r.cx, (b.is_buf ? (void *)A_BUF_OF(uint8_t, b.b, a_diff(sidx)) : (void *)A_VEC_OF(uint8_t, b.v, a_diff(sidx))) == q, "seq:typed_macro", "typed OF macro differs from of(%lld)", (long long)sidx);
    // mathematical position: idx >= 0 -> idx ; idx < 0 -> num + idx
    bool neg = sidx < 0;
    bool valid;
    size_t pos = 0;
    if (!neg)
    {
        valid = uint64_t(sidx) < mem;
        pos = size_t(sidx);
    }
    else
    {
        // num + idx must be >= 0
        uint64_t mag = uint64_t(0) - uint64_t(sidx);
        valid = mag <= num && (num - mag) < mem;
        pos = valid ? num - size_t(mag) : 0;
    }
    r.cx.log("at(%zu), of(%lld)\n", idx, (long long)sidx);
    if (valid)
    {
        VP_CHECK(r.cx, q == base + b.siz * pos, "seq:of", "of(%lld) with %zu elements returned a wrong pointer", (long long)sidx, num);
    }
    else { VP_CHECK(r.cx, q == nullptr, "seq:of_out_of_bounds", "of(%lld) with %zu elements / capacity %zu returned non-null", (long long)sidx, num, mem); }
    void *top = b.is_buf ? a_buf_top(b.b) : a_vec_top(b.v);
    if (num) { VP_CHECK(r.cx, top == base + b.siz * (num - 1), "seq:top", "top is not the last element"); }
    else { VP_CHECK(r.cx, top == nullptr, "seq:top_empty", "top of empty container is not null"); }
    void *end = b.is_buf ? a_buf_end(b.b) : a_vec_end(b.v);
    if (end) { VP_CHECK(r.cx, end == base + b.siz * num, "seq:end", "end pointer is not one past the last element"); }
    // the unchecked spellings (valid arguments only) and the typed macro forms agree with the checked ones
    if (idx < mem)
    {
        void *pu = b.is_buf ? a_buf_at_(b.b, idx) : a_vec_at_(b.v, idx);
        VP_CHECK(r.cx, pu == p, "seq:at", "at_(%zu) differs from at(%zu)", idx, idx);
        if (b.siz == 4) { VP_CHECK(r.cx, (b.is_buf ? (void *)A_BUF_AT(uint32_t, b.b, idx) : (void *)A_VEC_AT(uint32_t, b.v, idx)) == p, "seq:at", "typed AT macro differs from at(%zu)", idx); }
    }
    if (num)
    {
        void *tu = b.is_buf ? a_buf_top_(b.b) : a_vec_top_(b.v);
        VP_CHECK(r.cx, tu == top, "seq:top", "top_ differs from top");
        if (b.siz == 8) { VP_CHECK(r.cx, (b.is_buf ? (void *)A_BUF_TOP(uint64_t, b.b) : (void *)A_VEC_TOP(uint64_t, b.v)) == top, "seq:top", "typed TOP macro differs from top"); }
    }
    if (base && !b.is_buf) { VP_CHECK(r.cx, a_vec_end_(b.v) == end, "seq:end", "end_ differs from end"); }
    {
        // the remaining typed spellings agree with the functions they wrap
        typedef uint16_t E;
        VP_CHECK(r.cx, (b.is_buf ? (void *)A_BUF_PTR(E, b.b) : (void *)A_VEC_PTR(E, b.v)) == (void *)base, "seq:typed_macro", "typed PTR macro differs from ptr");
        VP_CHECK(r.cx, (b.is_buf ? (void *)A_BUF_END(E, b.b) : (void *)A_VEC_END(E, b.v)) == end, "seq:typed_macro", "typed END macro differs from end");
        if (base && !b.is_buf) { VP_CHECK(r.cx, (void *)A_VEC_END_(E, b.v) == end, "seq:typed_macro", "typed END_ macro differs from end"); }
        if (idx < mem) { VP_CHECK(r.cx, (b.is_buf ? (void *)A_BUF_AT_(E, b.b, idx) : (void *)A_VEC_AT_(E, b.v, idx)) == p, "seq:typed_macro", "typed AT_ macro differs from at(%zu)", idx); }
        if (num) { VP_CHECK(r.cx, (b.is_buf ? (void *)A_BUF_TOP_(E, b.b) : (void *)A_VEC_TOP_(E, b.v)) == top, "seq:typed_macro", "typed TOP_ macro differs from top"); }
    }
    switch (b.siz)
    {
    case 1: check_foreach<uint8_t>(r, b); break;
    case 2: check_foreach<uint16_t>(r, b); break;
    case 4: check_foreach<uint32_t>(r, b); break;
    case 8: check_foreach<uint64_t>(r, b); break;
    default: break;
    }
}

// the iteration macros visit exactly the elements, in order / in reverse (element types of matching size only)
template <class T>
static void check_foreach(Run &r, Box &b)
{
    size_t num = b.m.size(), i = 0;
    uint8_t *base = b.base();
    if (b.is_buf)
    {
        a_buf_foreach(T, *, it, b.b)
        {
            VP_CHECK(r.cx, i < num && (uint8_t *)it == base + i * sizeof(T), "seq:foreach", "a_buf_foreach visits a wrong address at step %zu of %zu", i, num);
            ++i;
        }
        VP_CHECK(r.cx, i == num, "seq:foreach", "a_buf_foreach visits %zu of %zu elements", i, num);
        a_buf_foreach_reverse(T, *, it, b.b)
        {
            VP_CHECK(r.cx, i > 0 && (uint8_t *)it == base + (i - 1) * sizeof(T), "seq:foreach_reverse", "a_buf_foreach_reverse visits a wrong address");
            --i;
        }
        VP_CHECK(r.cx, i == 0, "seq:foreach_reverse", "a_buf_foreach_reverse stops %zu elements early", i);
        a_buf_forenum(k, b.b) { VP_CHECK(r.cx, k == i, "seq:forenum", "a_buf_forenum index %zu at step %zu", (size_t)k, i); ++i; }
        VP_CHECK(r.cx, i == num, "seq:forenum", "a_buf_forenum counts %zu of %zu", i, num);
        a_buf_forenum_reverse(k, b.b) { --i; VP_CHECK(r.cx, k == i, "seq:forenum_reverse", "a_buf_forenum_reverse index %zu at step %zu", (size_t)k, i); }
        // the forms with caller-declared loop variables
        {
            T *it, *at;
            size_t k;
            A_BUF_FOREACH(T *, it, at, b.b) { VP_CHECK(r.cx, i < num && (uint8_t *)it == base + i * sizeof(T), "seq:FOREACH", "A_BUF_FOREACH visits a wrong address at step %zu of %zu", i, num); ++i; }
            VP_CHECK(r.cx, i == num, "seq:FOREACH", "A_BUF_FOREACH visits %zu of %zu elements", i, num);
            A_BUF_FOREACH_REVERSE(T *, it, at, b.b) { VP_CHECK(r.cx, i > 0 && (uint8_t *)it == base + (i - 1) * sizeof(T), "seq:FOREACH_REVERSE", "A_BUF_FOREACH_REVERSE visits a wrong address"); --i; }
            VP_CHECK(r.cx, i == 0, "seq:FOREACH_REVERSE", "A_BUF_FOREACH_REVERSE stops %zu elements early", i);
            A_BUF_FORENUM(size_t, k, b.b) { VP_CHECK(r.cx, k == i, "seq:FORENUM", "A_BUF_FORENUM index %zu at step %zu", k, i); ++i; }
            VP_CHECK(r.cx, i == num, "seq:FORENUM", "A_BUF_FORENUM counts %zu of %zu", i, num);
            A_BUF_FORENUM_REVERSE(size_t, k, b.b) { --i; VP_CHECK(r.cx, k == i, "seq:FORENUM_REVERSE", "A_BUF_FORENUM_REVERSE index %zu at step %zu", k, i); }
        }
    }
    else
    {
        a_vec_foreach(T, *, it, b.v)
        {
            VP_CHECK(r.cx, i < num && (uint8_t *)it == base + i * sizeof(T), "seq:foreach", "a_vec_foreach visits a wrong address at step %zu of %zu", i, num);
            ++i;
        }
        VP_CHECK(r.cx, i == num, "seq:foreach", "a_vec_foreach visits %zu of %zu elements", i, num);
        a_vec_foreach_reverse(T, *, it, b.v)
        {
            VP_CHECK(r.cx, i > 0 && (uint8_t *)it == base + (i - 1) * sizeof(T), "seq:foreach_reverse", "a_vec_foreach_reverse visits a wrong address");
            --i;
        }
        VP_CHECK(r.cx, i == 0, "seq:foreach_reverse", "a_vec_foreach_reverse stops %zu elements early", i);
        a_vec_forenum(k, b.v) { VP_CHECK(r.cx, k == i, "seq:forenum", "a_vec_forenum index %zu at step %zu", (size_t)k, i); ++i; }
        VP_CHECK(r.cx, i == num, "seq:forenum", "a_vec_forenum counts %zu of %zu", i, num);
        a_vec_forenum_reverse(k, b.v) { --i; VP_CHECK(r.cx, k == i, "seq:forenum_reverse", "a_vec_forenum_reverse index %zu at step %zu", (size_t)k, i); }
        {
            T *it, *at;
            size_t k;
            A_VEC_FOREACH(T *, it, at, b.v) { VP_CHECK(r.cx, i < num && (uint8_t *)it == base + i * sizeof(T), "seq:FOREACH", "A_VEC_FOREACH visits a wrong address at step %zu of %zu", i, num); ++i; }
            VP_CHECK(r.cx, i == num, "seq:FOREACH", "A_VEC_FOREACH visits %zu of %zu elements", i, num);
            A_VEC_FOREACH_REVERSE(T *, it, at, b.v) { VP_CHECK(r.cx, i > 0 && (uint8_t *)it == base + (i - 1) * sizeof(T), "seq:FOREACH_REVERSE", "A_VEC_FOREACH_REVERSE visits a wrong address"); --i; }
            VP_CHECK(r.cx, i == 0, "seq:FOREACH_REVERSE", "A_VEC_FOREACH_REVERSE stops %zu elements early", i);
            A_VEC_FORENUM(size_t, k, b.v) { VP_CHECK(r.cx, k == i, "seq:FORENUM", "A_VEC_FORENUM index %zu at step %zu", k, i); ++i; }
            VP_CHECK(r.cx, i == num, "seq:FORENUM", "A_VEC_FORENUM counts %zu of %zu", i, num);
            A_VEC_FORENUM_REVERSE(size_t, k, b.v) { --i; VP_CHECK(r.cx, k == i, "seq:FORENUM_REVERSE", "A_VEC_FORENUM_REVERSE index %zu at step %zu", k, i); }
        }
    }
    VP_CHECK(r.cx, i == 0, "seq:forenum_reverse", "reverse enumeration stops %zu early", i);
}

// large containers make every later step (full verification) slow: generated by the rapidcheck processes, not by the
// coverage-guided ones (VP_NO_HEAVY), which would spend their budget on them
static bool no_heavy();
static void make_box(Run &r, Box &b, Tape &t, bool is_buf)
{
    uint8_t c = t.u8() % 11;
    size_t siz = c == 10 ? 0 : kSizes[c];
    b.is_buf = is_buf;
    b.heap_obj = t.coin();
    b.siz = siz ? siz : 1;
    if (b.siz > 8) { r.cx.label(L_SIZ_GT8); }
    r.cx.hash.add(siz * 4 + is_buf * 2 + b.heap_obj);
    if (!is_buf)
    {
        r.cx.label(L_VEC);
        if (b.heap_obj)
        {
            b.v = a_vec_new(siz);
            if (!b.v)
            {
                // only possible under fault injection: fall back to the embedded object
                b.heap_obj = false;
            }
        }
        if (!b.heap_obj)
        {
            b.v = &b.vstore;
            a_vec_ctor(b.v, siz);
        }
        r.cx.log("vec %s element size %zu\n", b.heap_obj ? "new" : "ctor", siz);
    }
    else
    {
        r.cx.label(L_BUF);
        uint8_t cb = t.u8();
        size_t cap = cb % 13;
        if (cb >= 250 && !no_heavy())
        {
            // occasionally a capacity of several kilobytes (block-wise copies / rotations only start there)
            static size_t const big[] = {260, 520, 600, 1030, 1500, 2100};
            cap = big[cb - 250];
            r.cx.label(L_LARGE);
        }
        b.cap = cap;
        if (b.heap_obj)
        {
            b.b = a_buf_new(siz, cap);
            if (!b.b) { b.heap_obj = false; }
        }
        if (!b.heap_obj)
        {
            b.own = malloc(sizeof(a_buf) + b.siz * cap);
            b.b = (a_buf *)b.own;
            a_buf_ctor(b.b, siz, cap);
        }
        r.cx.log("buf %s element size %zu capacity %zu\n", b.heap_obj ? "new" : "ctor", siz, cap);
    }
    verify(r, b, "construction");
}

static void drop_box(Run &r, Box &b)
{
    bool use_dtor = true;
    dtor_seen.clear();
    size_t n = b.m.size();
    if (!b.is_buf)
    {
        if (b.heap_obj) { a_vec_die(b.v, use_dtor ? dtor_fn : nullptr); }
        else { a_vec_dtor(b.v, dtor_fn); }
    }
    else
    {
        if (b.heap_obj) { a_buf_die(b.b, dtor_fn); }
        else
        {
            a_buf_dtor(b.b, dtor_fn);
            free(b.own);
        }
    }
    b.v = nullptr;
    b.b = nullptr;
    VP_CHECK(r.cx, dtor_seen.size() == n, "seq:dtor_calls", "destroying %zu elements called the destructor %zu times", n, dtor_seen.size());
}

static bool no_heavy()
{
    static bool const v = getenv("VP_NO_HEAVY") != nullptr;
    return v;
}

static void run_history(Tape &t, Ctx &cx, uint64_t fail_at, int mode, uint64_t *requests_out)
{
    shim_install();
    // allocator policy of this history: blocks always move on reallocation, or grow in place within their size class.
    // A function of the tape (its length), so that no byte changes meaning.
    g_shim.inplace = ((t.pos() + t.left()) & 1) != 0;
    g_shim.fail_at = fail_at;
    g_shim.mode = mode;
    Run r(cx);
    r.fault_mode = mode;
    uint8_t h = t.u8();
    bool is_buf = h & 1;
    r.nbox = (h & 2) ? 2 : 1;
    g_cmp_style = (h >> 2) & 7; // upper bits of the same byte (saved tapes keep their meaning)
    g_key_hi = ((h >> 5) & 1) != 0;
    if (g_key_hi) { cx.label(L_KEY_BEHIND_NUL); }
    cx.hash.add(uint64_t(g_cmp_style) << 8);
    for (int i = 0; i < r.nbox; ++i) { make_box(r, r.bx[i], t, is_buf); }
    unsigned maxops =
#ifdef VP_FAULT
        60;
#else
        300;
#endif
    struct Guard
    {
        Run &r;
        ~Guard()
        {
            // on a violation the containers are abandoned; release what the ledger still holds
            for (int i = 0; i < 2; ++i) { if (r.bx[i].own) { /* freed in drop_box or leaked on failure */ } }
        }
    } guard{r};
    (void)guard;
    while (!t.done() && r.opno < maxops)
    {
        ++r.opno;
        ++cx.rep->subcases;
        uint8_t opb = t.u8();
        Box &b = r.bx[(opb >> 7) & (r.nbox - 1)];
        g_idx_siz = b.siz ? b.siz : 1;
        uint8_t op = (opb & 0x7F) % 20;
        cx.hash.add(opb);
        switch (op)
        {
        case 0: op_query(r, b, t); break;
        case 1: case 19: op_push(r, b, t, false, 0); break;
        case 2: op_push(r, b, t, true, 0); break;
        case 3: op_remove(r, b, t, 2); break;
        case 4: op_remove(r, b, t, 1); break;
        case 5: op_insert(r, b, t); break;
        case 6: case 18: op_remove(r, b, t, 0); break;
        case 7: op_store(r, b, t); break;
        case 8: op_erase(r, b, t); break;
        case 9: op_setn(r, b, t); break;
        case 10: op_setm(r, b, t); break;
        case 11: op_sort(r, b); break;
        case 12: case 13:
            if (b.m.size() <= 1 && (r.opno & 1))
            {
                // the insertion-sort steps on a container of no or one element, without a push before: nothing to move
                g_key_at = kpos(b);
                if (b.is_buf) { op == 12 ? a_buf_sort_fore(b.b, cmp_first) : a_buf_sort_back(b.b, cmp_first); }
                else { op == 12 ? a_vec_sort_fore(b.v, cmp_first) : a_vec_sort_back(b.v, cmp_first); }
                r.cx.log("%s sort_%s on %zu element(s)\n", b.is_buf ? "buf" : "vec", op == 12 ? "fore" : "back", b.m.size());
                verify(r, b, "sort_fore / sort_back on at most one element");
                break;
            }
            op_push(r, b, t, op == 12, 1);
            break;
        case 14: op_push_sort(r, b, t); break;
        case 15: op_search(r, b, t); break;
        case 16: {
            // fill to capacity: constructs the "exactly full" state
            unsigned guardn = 0;
            while (b.num() < b.mem() && guardn++ < 5000)
            {
                Elem e = mk(b, t.u8());
                void *p = b.is_buf ? a_buf_push_back(b.b) : a_vec_push_back(b.v);
                VP_CHECK(cx, p != nullptr, "seq:spurious_failure", "push_back with spare capacity failed");
                memcpy(p, e.data(), b.siz);
                b.m.push_back(e);
            }
            cx.log("fill to capacity (%zu)\n", b.mem());
            verify(r, b, "fill to capacity");
            break; }
        case 17:
            if (!b.is_buf && !(opb & 0x40) && !no_heavy() && r.nbox == 1) // (with two vectors this operation byte is the swap below)
            {
                // grow a vector to several hundred elements and then up to num == mem: the exactly-full state at a size where
                // the trailing part of a removal is kilobytes long
                static unsigned const big[] = {64, 300, 520, 700, 1100, 2100};
                unsigned target = big[t.u8() % 6], guardn = 0;
                while ((b.num() < target || b.num() < b.mem()) && guardn++ < 6000)
                {
                    Elem e = mk(b, uint8_t(guardn * 7u + 1u));
                    void *p = a_vec_push_back(b.v);
                    if (!p) { break; } // only under fault injection
                    memcpy(p, e.data(), b.siz);
                    b.m.push_back(e);
                }
                cx.label(L_LARGE);
                cx.log("bulk push to %zu elements (capacity %zu)\n", b.num(), b.mem());
                verify(r, b, "bulk push");
                break;
            }
            /* fall through */
        default:
            if (opb & 0x40) { op_setz(r, b, t); }
            else if (!b.is_buf && r.nbox == 2)
            {
                a_vec_swap(r.bx[0].v, r.bx[1].v);
                std::swap(r.bx[0].m, r.bx[1].m);
                std::swap(r.bx[0].siz, r.bx[1].siz);
                std::swap(r.bx[0].serial, r.bx[1].serial);
                cx.label(L_SWAP);
                cx.log("vec swap\n");
                verify(r, r.bx[0], "swap");
                verify(r, r.bx[1], "swap");
            }
            break;
        }
    }
    for (int i = 0; i < r.nbox; ++i) { drop_box(r, r.bx[i]); }
    shim_check_empty(cx, "after destroying the containers");
    if (requests_out) { *requests_out = g_shim.requests; }
#ifndef VP_FAULT
    if ((r.rm_spare && r.rm_full) || (r.sf_spare && r.sf_full) || (r.sb_spare && r.sb_full) || r.bigidx) { cx.rep->nontrivial = true; }
#endif
}

static void run_case(Tape &t0, Ctx &cx)
{
#ifndef VP_FAULT
    run_history(t0, cx, 0, 0, nullptr);
    g_shim.reset();
#else
    // fault enumeration: fault-free run first (N requests), then every k in 1..N x {single, persistent}
    uint64_t N = 0;
    {
        Tape t = t0;
        bool wr = cx.rep->want_render;
        run_history(t, cx, 0, 0, &N);
        cx.rep->want_render = false;
        uint64_t labels_ff = cx.rep->labels;
        (void)labels_ff;
        if (N > 96) { N = 96; }
        uint64_t h = cx.hash.h;
        for (uint64_t k = 1; k <= N; ++k)
        {
            for (int mode = 1; mode <= 2; ++mode)
            {
                Tape t2 = t0;
                cx.hash = Hash();
                try
                {
                    run_history(t2, cx, k, mode, nullptr);
                }
                catch (vp_fail const &)
                {
                    char buf[96];
                    snprintf(buf, sizeof(buf), " [allocation request %llu of %llu fails, %s]", (unsigned long long)k, (unsigned long long)N, mode == 1 ? "single fault" : "all later requests fail too");
                    cx.rep->msg += buf;
                    cx.hash.h = h;
                    g_shim.reset();
                    throw;
                }
                cx.metric(1, double(2 * (k - 1) + mode));
            }
        }
        cx.rep->subcases += 2 * N;
        cx.hash.h = h;
        cx.hash.add(N);
        cx.rep->want_render = wr;
        cx.log("fault enumeration: %llu allocation requests x 2 modes\n", (unsigned long long)N);
        if (N >= 1 && cx.has(L_FAULT_LATE)) { cx.rep->nontrivial = true; }
    }
    g_shim.reset();
#endif
}
VP_DEFINE_RUN(run_case)
