#define VP_AMBIENT_ROUNDING 1 // results of this executor may not depend on the dynamic floating-point rounding mode (drv/vp.h)
// C05 (lists) — intrusive doubly linked ring (VP_SUB=1) and singly linked list (VP_SUB=2)
// against std::vector models; forward/backward walks after every operation.
#include "../drv/vp.h"
#include <algorithm>
#include <vector>
extern "C" {
#include "a/list.h"
#include "a/slist.h"
}

#if VP_SUB == 1
enum { L_ADD, L_DEL, L_ROT_SHORT, L_ROT_LONG, L_MOV, L_SET, L_SWAP_SAME, L_SWAP_CROSS, L_SEC_DEL, L_SEC_ADD, L_SEC_SET, L_SEC_SWAP, L_SEC_SWAP_CROSS, L_LEN12, L_FORSAFE, L_SEC_LOOP };
static char const *const labels[] = {"add", "del", "rot_on_len_le_1", "rot_on_len_ge_3", "mov", "set_node", "swap_node_same_ring", "swap_node_cross_ring",
                                     "section_del", "section_add", "section_set", "section_swap_same_ring", "section_swap_cross_ring", "ring_len_ge_12", "removal_safe_iteration", "detached_chain_closed_with_a_list_loop", nullptr};
#define UNIT "list"
#else
enum { L_ADD, L_DEL, L_ROT_SHORT, L_ROT_LONG, L_MOV_SHORT, L_MOV_LONG, L_MOV_AT_TAIL, L_DEL_TAIL, L_ADD_TAIL, L_LEN12, L_FORSAFE };
static char const *const labels[] = {"add", "del", "rot_on_len_le_1", "rot_on_len_ge_3", "mov_src_len_le_1", "mov_src_len_ge_3", "mov_at_tail", "del_last_node", "add_after_tail", "len_ge_12", "removal_safe_iteration", nullptr};
#define UNIT "slist"
#endif
static char const *const metrics[] = {"max_len", nullptr};
static uint8_t const dict[] = {5, 6, 7, 9, 10};
static vp_info const info = {"C05", UNIT, "", labels, metrics, 300, dict, sizeof(dict)};
extern "C" vp_info const *vp_get_info(void) { return &info; }

#define POOL 24

#if VP_SUB == 1
// ---------------------------------------------------------------------------------------
struct LState
{
    a_list head[2];
    a_list *node[POOL];
    std::vector<int> ring[2];
    std::vector<int> freeids;             // detached single nodes
    std::vector<std::vector<int>> chains; // detached chains (internal links intact)
};

static int id_of(LState &s, a_list *p)
{
    for (int i = 0; i < POOL; ++i) { if (s.node[i] == p) { return i; } }
    if (p == &s.head[0]) { return -1; }
    if (p == &s.head[1]) { return -2; }
    return -99;
}

static void walk(Ctx &cx, LState &s, char const *after)
{
    for (int r = 0; r < 2; ++r)
    {
        std::vector<int> fw, bw;
        a_list *h = &s.head[r];
        size_t lim = POOL + 2;
        a_list *it;
        A_LIST_FOREACH_NEXT(it, h)
        {
            int id = id_of(s, it);
            VP_CHECK(cx, id >= 0, "list:foreign_node", "after %s: ring %d forward walk reaches %s", after, r, id == -99 ? "an unknown pointer" : "the other ring's head");
            VP_CHECK(cx, it->next->prev == it, "list:link_mismatch", "after %s: ring %d node %d: next->prev != self", after, r, id);
            VP_CHECK(cx, it->prev->next == it, "list:link_mismatch", "after %s: ring %d node %d: prev->next != self", after, r, id);
            fw.push_back(id);
            VP_CHECK(cx, fw.size() <= lim, "list:cycle", "after %s: ring %d forward walk does not return to its head", after, r);
        }
        VP_CHECK(cx, h->next->prev == h && h->prev->next == h, "list:link_mismatch", "after %s: ring %d head links inconsistent", after, r);
        A_LIST_FOREACH_PREV(it, h)
        {
            int id = id_of(s, it);
            VP_CHECK(cx, id >= 0, "list:foreign_node", "after %s: ring %d backward walk reaches a foreign node", after, r);
            bw.push_back(id);
            VP_CHECK(cx, bw.size() <= lim, "list:cycle", "after %s: ring %d backward walk does not return to its head", after, r);
        }
        std::reverse(bw.begin(), bw.end());
        {
            // the spellings that declare their own loop variable
            std::vector<int> fw2, bw2;
            a_list_foreach_next(it2, h) { fw2.push_back(id_of(s, it2)); if (fw2.size() > lim) { break; } }
            a_list_foreach_prev(it2, h) { bw2.push_back(id_of(s, it2)); if (bw2.size() > lim) { break; } }
            std::reverse(bw2.begin(), bw2.end());
            VP_CHECK(cx, fw2 == fw && bw2 == bw, "list:foreach_spelling", "after %s: ring %d: a_list_foreach_next / _prev enumerate another sequence than A_LIST_FOREACH_NEXT / _PREV", after, r);
        }
        VP_CHECK(cx, fw == s.ring[r], "list:sequence", "after %s: ring %d forward sequence (%zu nodes) differs from the abstract sequence (%zu)", after, r, fw.size(), s.ring[r].size());
        VP_CHECK(cx, bw == s.ring[r], "list:sequence_backward", "after %s: ring %d backward sequence differs from the abstract sequence", after, r);
        cx.metric(0, double(fw.size()));
        if (fw.size() >= 12) { cx.label(L_LEN12); }
    }
}

// position in ring r: 0 = head, k = k-th node
static a_list *at_pos(LState &s, int r, size_t pos) { return pos == 0 ? &s.head[r] : s.node[s.ring[r][pos - 1]]; }

static void run_case(Tape &t, Ctx &cx)
{
    LState s;
    a_list storage[POOL];
    for (int i = 0; i < POOL; ++i)
    {
        s.node[i] = &storage[i];
        a_list_ctor(s.node[i]);
        s.freeids.push_back(POOL - 1 - i);
    }
    a_list_ctor(&s.head[0]);
    a_list_init(&s.head[1]);
    bool cross = false, sec = false;
    unsigned nops = 0;
    while (!t.done() && nops < 300)
    {
        ++nops;
        ++cx.rep->subcases;
        uint8_t opb = t.u8();
        int r = (opb >> 7) & 1;
        uint8_t op = (opb & 0x7F) % 15;
        cx.hash.add(opb);
        std::vector<int> &R = s.ring[r];
        switch (op)
        {
        case 0:
            break;
        case 1: case 2: case 11: {
            if (s.freeids.empty()) { break; }
            size_t pos = t.u8() % (R.size() + 1);
            cx.hash.add(pos);
            int id = s.freeids.back();
            s.freeids.pop_back();
            a_list *ctx = at_pos(s, r, pos);
            if (op == 1)
            {
                a_list_add_next(ctx, s.node[id]);
                R.insert(R.begin() + long(pos), id);
                cx.log("ring%d add_next(pos %zu, node %d)\n", r, pos, id);
            }
            else if (op == 2)
            {
                a_list_add_prev(ctx, s.node[id]);
                if (pos == 0) { R.push_back(id); }
                else { R.insert(R.begin() + long(pos - 1), id); }
                cx.log("ring%d add_prev(pos %zu, node %d)\n", r, pos, id);
            }
            else
            {
                a_list_add_node(ctx->next, ctx, s.node[id]);
                R.insert(R.begin() + long(pos), id);
                cx.log("ring%d add_node(after pos %zu, node %d)\n", r, pos, id);
            }
            cx.label(L_ADD);
            break; }
        case 3: {
            if (R.empty()) { break; }
            size_t k = t.u8() % R.size();
            cx.hash.add(k);
            int id = R[k];
            a_list_del_node(s.node[id]);
            R.erase(R.begin() + long(k));
            s.freeids.push_back(id);
            cx.label(L_DEL);
            cx.log("ring%d del_node(node %d)\n", r, id);
            break; }
        case 4: {
            // del_next / del_prev of a position whose neighbour is a real node
            if (R.empty()) { break; }
            size_t k = t.u8() % R.size(); // victim index
            bool nx = t.coin();
            cx.hash.add(k * 2 + nx);
            int id = R[k];
            a_list *ctx = nx ? at_pos(s, r, k) /* predecessor position k (0 = head) */ : (k + 1 < R.size() ? s.node[R[k + 1]] : &s.head[r]);
            if (nx) { a_list_del_next(ctx); }
            else { a_list_del_prev(ctx); }
            R.erase(R.begin() + long(k));
            s.freeids.push_back(id);
            cx.label(L_DEL);
            cx.log("ring%d %s removing node %d\n", r, nx ? "del_next" : "del_prev", id);
            break; }
        case 5: case 6: {
            if (R.size() <= 1) { cx.label(L_ROT_SHORT); }
            if (R.size() >= 3) { cx.label(L_ROT_LONG); }
            if (op == 5)
            {
                a_list_rot_next(&s.head[r]);
                if (!R.empty()) { std::rotate(R.begin(), R.end() - 1, R.end()); }
            }
            else
            {
                a_list_rot_prev(&s.head[r]);
                if (!R.empty()) { std::rotate(R.begin(), R.begin() + 1, R.end()); }
            }
            cx.log("ring%d rot_%s (len %zu)\n", r, op == 5 ? "next" : "prev", R.size());
            break; }
        case 7: {
            // move the whole other ring (must be non-empty) next to a position of this ring, then re-initialise it
            std::vector<int> &O = s.ring[1 - r];
            if (O.empty())
            {
                ++cx.rep->excluded;
                break;
            }
            size_t pos = t.u8() % (R.size() + 1);
            bool nx = t.coin();
            cx.hash.add(pos * 2 + nx);
            a_list *ctx = at_pos(s, r, pos);
            if (nx)
            {
                a_list_mov_next(ctx, &s.head[1 - r]);
                R.insert(R.begin() + long(pos), O.begin(), O.end());
            }
            else
            {
                a_list_mov_prev(ctx, &s.head[1 - r]);
                size_t at = pos == 0 ? R.size() : pos - 1;
                R.insert(R.begin() + long(at), O.begin(), O.end());
            }
            a_list_init(&s.head[1 - r]);
            O.clear();
            cx.label(L_MOV);
            cx.log("ring%d mov_%s(pos %zu, other ring)\n", r, nx ? "next" : "prev", pos);
            break; }
        case 8: {
            if (R.empty() || s.freeids.empty()) { break; }
            size_t k = t.u8() % R.size();
            cx.hash.add(k);
            int id = s.freeids.back();
            s.freeids.pop_back();
            int old = R[k];
            a_list_set_node(s.node[old], s.node[id]);
            R[k] = id;
            s.freeids.push_back(old);
            cx.label(L_SET);
            cx.log("ring%d set_node(node %d := node %d)\n", r, old, id);
            break; }
        case 9: {
            // swap two distinct, non-adjacent nodes (same ring or across rings)
            bool x = t.coin();
            std::vector<int> &B = x ? s.ring[1 - r] : R;
            if (R.empty() || B.empty()) { break; }
            size_t i = t.u8() % R.size(), j = t.u8() % B.size();
            cx.hash.add(i * 64 + j + x * 4096);
            if (!x)
            {
                if (i == j) { break; }
                size_t lo = std::min(i, j), hi = std::max(i, j);
                bool adjacent = hi - lo == 1;
                if (adjacent)
                {
                    ++cx.rep->excluded; // the statement restricts swaps to non-adjacent nodes
                    break;
                }
                cx.label(L_SWAP_SAME);
            }
            else
            {
                cx.label(L_SWAP_CROSS);
                cross = true;
            }
            a_list_swap_node(s.node[R[i]], s.node[B[j]]);
            cx.log("swap_node(ring%d[%zu]=node %d, ring%d[%zu]=node %d)\n", r, i, R[i], x ? 1 - r : r, j, B[j]);
            std::swap(R[i], B[j]);
            break; }
        case 10: {
            // section del_: contiguous run [i..j] becomes a detached chain
            if (R.empty() || s.chains.size() >= 4) { break; }
            size_t i = t.u8() % R.size();
            size_t len = 1 + t.u8() % (R.size() - i);
            cx.hash.add(i * 64 + len);
            a_list_del_(s.node[R[i]], s.node[R[i + len - 1]]);
            s.chains.emplace_back(R.begin() + long(i), R.begin() + long(i + len));
            R.erase(R.begin() + long(i), R.begin() + long(i + len));
            cx.label(L_SEC_DEL);
            sec = true;
            cx.log("ring%d section del_[%zu..%zu]\n", r, i, i + len - 1);
            if (t.coin())
            {
                // a_list_loop closes the detached chain into a ring of its own: walking next from its first node visits the
                // chain in order and returns, walking prev visits it backwards (the chain stays detached from both heads)
                std::vector<int> const &ch = s.chains.back();
                a_list *first = s.node[ch.front()], *last = s.node[ch.back()];
                a_list_loop(first, last);
                a_list *w = first;
                for (size_t k = 0; k < ch.size(); ++k)
                {
                    VP_CHECK(cx, w == s.node[ch[k]], "list:loop", "a_list_loop on a detached chain of %zu: forward walk leaves the chain at step %zu", ch.size(), k);
                    w = w->next;
                }
                VP_CHECK(cx, w == first && first->prev == last, "list:loop", "a_list_loop on a detached chain of %zu nodes does not close it", ch.size());
                w = last;
                for (size_t k = ch.size(); k-- > 0;)
                {
                    VP_CHECK(cx, w == s.node[ch[k]], "list:loop", "a_list_loop on a detached chain of %zu: backward walk leaves the chain at step %zu", ch.size(), k);
                    w = w->prev;
                }
                cx.label(L_SEC_LOOP);
            }
            break; }
        case 12: {
            // section add_ / set_ with a detached chain
            if (s.chains.empty()) { break; }
            std::vector<int> ch = s.chains.back();
            s.chains.pop_back();
            bool setop = t.coin() && !R.empty();
            if (!setop)
            {
                size_t pos = t.u8() % (R.size() + 1);
                cx.hash.add(pos);
                a_list *ctx = at_pos(s, r, pos);
                a_list_add_(ctx->next, ctx, s.node[ch.front()], s.node[ch.back()]);
                R.insert(R.begin() + long(pos), ch.begin(), ch.end());
                cx.label(L_SEC_ADD);
                cx.log("ring%d section add_ after pos %zu (%zu nodes)\n", r, pos, ch.size());
            }
            else
            {
                size_t i = t.u8() % R.size();
                size_t len = 1 + t.u8() % (R.size() - i);
                cx.hash.add(i * 64 + len + 7);
                a_list_set_(s.node[R[i]], s.node[R[i + len - 1]], s.node[ch.front()], s.node[ch.back()]);
                std::vector<int> old(R.begin() + long(i), R.begin() + long(i + len));
                R.erase(R.begin() + long(i), R.begin() + long(i + len));
                R.insert(R.begin() + long(i), ch.begin(), ch.end());
                s.chains.push_back(old);
                cx.label(L_SEC_SET);
                cx.log("ring%d section set_[%zu..%zu] := chain of %zu\n", r, i, i + len - 1, ch.size());
            }
            sec = true;
            break; }
        case 14: {
            // removal-safe iteration (four spellings): every node of the ring is visited exactly once, in ring order, while the
            // nodes selected by a mask from the tape are deleted from inside the loop body
            uint32_t mask = t.u32();
            int form = t.u8() % 4;
            cx.hash.add(mask ^ uint32_t(form));
            std::vector<int> visited, keep, want(R.begin(), R.end());
            if (form & 1) { std::reverse(want.begin(), want.end()); }
            size_t lim = POOL + 2, vi = 0;
            auto body = [&](a_list *it) {
                int id = id_of(s, it);
                VP_CHECK(cx, id >= 0, "list:foreign_node", "removal-safe iteration over ring %d reaches a foreign node", r);
                visited.push_back(id);
                VP_CHECK(cx, visited.size() <= lim, "list:cycle", "removal-safe iteration over ring %d does not terminate", r);
                if ((mask >> (vi % 32)) & 1)
                {
                    a_list_del_node(it);
                    a_list_init(it);
                    s.freeids.push_back(id);
                }
                else { keep.push_back(id); }
                ++vi;
            };
            a_list *h = &s.head[r];
            switch (form)
            {
            case 0: { a_list_forsafe_next(it, at, h) { body(it); } break; }
            case 1: { a_list_forsafe_prev(it, at, h) { body(it); } break; }
            case 2: { a_list *it, *at; A_LIST_FORSAFE_NEXT(it, at, h) { body(it); } break; }
            default: { a_list *it, *at; A_LIST_FORSAFE_PREV(it, at, h) { body(it); } break; }
            }
            VP_CHECK(cx, visited == want, "list:forsafe_sequence", "removal-safe iteration (form %d) over ring %d visited %zu nodes, the ring had %zu (or the order differs)", form, r, visited.size(), want.size());
            if (form & 1) { std::reverse(keep.begin(), keep.end()); }
            if (keep.size() != R.size()) { cx.label(L_DEL); }
            R = keep;
            cx.label(L_FORSAFE);
            cx.log("ring%d removal-safe iteration form %d mask %#x\n", r, form, mask);
            break; }
        default: {
            // section swap_: two disjoint, non-adjacent sections (same ring or across rings)
            bool x = t.coin();
            std::vector<int> &B = x ? s.ring[1 - r] : R;
            if (R.empty() || B.empty()) { break; }
            size_t i1 = t.u8() % R.size();
            size_t l1 = 1 + t.u8() % (R.size() - i1);
            size_t i2 = t.u8() % B.size();
            size_t l2 = 1 + t.u8() % (B.size() - i2);
            cx.hash.add(i1 + 64 * l1 + 4096 * i2 + 262144 * l2 + x);
            if (!x)
            {
                if (i1 > i2)
                {
                    std::swap(i1, i2);
                    std::swap(l1, l2);
                }
                // need at least one node strictly between the sections
                if (i1 + l1 >= i2)
                {
                    ++cx.rep->excluded;
                    break;
                }
                a_list_swap_(s.node[R[i1]], s.node[R[i1 + l1 - 1]], s.node[R[i2]], s.node[R[i2 + l2 - 1]]);
                std::vector<int> A(R.begin() + long(i1), R.begin() + long(i1 + l1)), Bv(R.begin() + long(i2), R.begin() + long(i2 + l2));
                std::vector<int> out(R.begin(), R.begin() + long(i1));
                out.insert(out.end(), Bv.begin(), Bv.end());
                out.insert(out.end(), R.begin() + long(i1 + l1), R.begin() + long(i2));
                out.insert(out.end(), A.begin(), A.end());
                out.insert(out.end(), R.begin() + long(i2 + l2), R.end());
                R = out;
                cx.label(L_SEC_SWAP);
            }
            else
            {
                a_list_swap_(s.node[R[i1]], s.node[R[i1 + l1 - 1]], s.node[B[i2]], s.node[B[i2 + l2 - 1]]);
                std::vector<int> A(R.begin() + long(i1), R.begin() + long(i1 + l1)), Bv(B.begin() + long(i2), B.begin() + long(i2 + l2));
                R.erase(R.begin() + long(i1), R.begin() + long(i1 + l1));
                R.insert(R.begin() + long(i1), Bv.begin(), Bv.end());
                B.erase(B.begin() + long(i2), B.begin() + long(i2 + l2));
                B.insert(B.begin() + long(i2), A.begin(), A.end());
                cx.label(L_SEC_SWAP_CROSS);
                cross = true;
            }
            sec = true;
            cx.log("section swap_ ring%d[%zu+%zu] <-> ring%d[%zu+%zu]\n", r, i1, l1, x ? 1 - r : r, i2, l2);
            break; }
        }
        walk(cx, s, "operation");
    }
    if (cross || sec) { cx.rep->nontrivial = true; }
}
#else
// ---------------------------------------------------------------------------------------
struct SState
{
    a_slist list[2];
    a_slist_node *node[POOL];
    std::vector<int> seq[2];
    std::vector<int> freeids;
};

static void walk(Ctx &cx, SState &s, char const *after)
{
    for (int r = 0; r < 2; ++r)
    {
        std::vector<int> fw;
        a_slist_node *it, *last = &s.list[r].head;
        A_SLIST_FOREACH(it, &s.list[r])
        {
            int id = -1;
            for (int i = 0; i < POOL; ++i) { if (s.node[i] == it) { id = i; } }
            VP_CHECK(cx, id >= 0, "slist:foreign_node", "after %s: list %d walk reaches an unknown pointer", after, r);
            fw.push_back(id);
            last = it;
            VP_CHECK(cx, fw.size() <= POOL + 1, "slist:cycle", "after %s: list %d walk does not terminate", after, r);
        }
        {
            std::vector<int> fw2;
            a_slist_foreach(it2, &s.list[r])
            {
                int id = -1;
                for (int i = 0; i < POOL; ++i) { if (s.node[i] == it2) { id = i; } }
                fw2.push_back(id);
                if (fw2.size() > POOL + 1) { break; }
            }
            VP_CHECK(cx, fw2 == fw, "slist:foreach_spelling", "after %s: list %d: a_slist_foreach enumerates another sequence than A_SLIST_FOREACH", after, r);
        }
        VP_CHECK(cx, fw == s.seq[r], "slist:sequence", "after %s: list %d holds %zu nodes, abstract sequence %zu (or order differs)", after, r, fw.size(), s.seq[r].size());
        VP_CHECK(cx, s.list[r].tail == last, "slist:tail", "after %s: list %d tail does not designate the last node (%zu nodes)", after, r, fw.size());
        VP_CHECK(cx, s.list[r].tail->next == nullptr, "slist:tail_next", "after %s: list %d tail->next is not null", after, r);
        cx.metric(0, double(fw.size()));
        if (fw.size() >= 12) { cx.label(L_LEN12); }
    }
}

static void run_case(Tape &t, Ctx &cx)
{
    SState s;
    a_slist_node storage[POOL];
    for (int i = 0; i < POOL; ++i)
    {
        s.node[i] = &storage[i];
        storage[i].next = nullptr;
        s.freeids.push_back(POOL - 1 - i);
    }
    a_slist_ctor(&s.list[0]);
    a_slist_init(&s.list[1]);
    bool short_seen = false, long_seen = false;
    unsigned nops = 0;
    while (!t.done() && nops < 300)
    {
        ++nops;
        ++cx.rep->subcases;
        uint8_t opb = t.u8();
        int r = (opb >> 7) & 1;
        uint8_t op = (opb & 0x7F) % 9;
        cx.hash.add(opb);
        std::vector<int> &S = s.seq[r];
        a_slist *L = &s.list[r];
        switch (op)
        {
        case 0:
            break;
        case 1: case 2: case 3: {
            if (s.freeids.empty()) { break; }
            int id = s.freeids.back();
            s.freeids.pop_back();
            if (op == 1)
            {
                a_slist_add_head(L, s.node[id]);
                S.insert(S.begin(), id);
                cx.log("list%d add_head(node %d)\n", r, id);
            }
            else if (op == 2)
            {
                a_slist_add_tail(L, s.node[id]);
                S.push_back(id);
                cx.log("list%d add_tail(node %d)\n", r, id);
            }
            else
            {
                size_t pos = t.u8() % (S.size() + 1); // 0: after head
                cx.hash.add(pos);
                a_slist_node *prev = pos == 0 ? &L->head : s.node[S[pos - 1]];
                if (pos == S.size()) { cx.label(L_ADD_TAIL); }
                a_slist_add(L, prev, s.node[id]);
                S.insert(S.begin() + long(pos), id);
                cx.log("list%d add(after pos %zu, node %d)\n", r, pos, id);
            }
            cx.label(L_ADD);
            break; }
        case 4: {
            // del(prev): prev may be the head sentinel, any node, or the last node (then nothing happens)
            size_t pos = t.u8() % (S.size() + 1);
            cx.hash.add(pos);
            a_slist_node *prev = pos == 0 ? &L->head : s.node[S[pos - 1]];
            a_slist_del(L, prev);
            if (pos < S.size())
            {
                if (pos + 1 == S.size()) { cx.label(L_DEL_TAIL); }
                s.freeids.push_back(S[pos]);
                S.erase(S.begin() + long(pos));
                cx.label(L_DEL);
            }
            cx.log("list%d del(after pos %zu)\n", r, pos);
            break; }
        case 5:
            a_slist_del_head(L);
            if (!S.empty())
            {
                if (S.size() == 1) { cx.label(L_DEL_TAIL); }
                s.freeids.push_back(S.front());
                S.erase(S.begin());
                cx.label(L_DEL);
            }
            cx.log("list%d del_head\n", r);
            break;
        case 6:
            if (S.size() <= 1) { cx.label(L_ROT_SHORT); short_seen = true; }
            if (S.size() >= 3) { cx.label(L_ROT_LONG); long_seen = true; }
            cx.log("list%d rot (len %zu)\n", r, S.size());
            a_slist_rot(L);
            if (!S.empty()) { std::rotate(S.begin(), S.begin() + 1, S.end()); }
            break;
        case 8: {
            // removal-safe iteration (both spellings) with deletions from inside the body, the way the repository's test does it:
            // a_slist_del(list, at) and it = null
            uint32_t mask = t.u32();
            bool upper = t.coin();
            cx.hash.add(mask ^ uint32_t(upper));
            std::vector<int> visited, keep;
            size_t vi = 0;
            auto body = [&](a_slist_node *&it, a_slist_node *at) {
                int id = -1;
                for (int i = 0; i < POOL; ++i) { if (s.node[i] == it) { id = i; } }
                VP_CHECK(cx, id >= 0, "slist:foreign_node", "removal-safe iteration over list %d reaches an unknown pointer", r);
                visited.push_back(id);
                VP_CHECK(cx, visited.size() <= size_t(POOL) + 1, "slist:cycle", "removal-safe iteration over list %d does not terminate", r);
                if ((mask >> (vi % 32)) & 1)
                {
                    a_slist_del(L, at);
                    s.freeids.push_back(id);
                    it = nullptr;
                }
                else { keep.push_back(id); }
                ++vi;
            };
            if (upper) { a_slist_node *it, *at; A_SLIST_FORSAFE(it, at, L) { body(it, at); } }
            else { a_slist_forsafe(it, at, L) { body(it, at); } }
            VP_CHECK(cx, visited == S, "slist:forsafe_sequence", "removal-safe iteration over list %d visited %zu nodes, the list had %zu (or the order differs)", r, visited.size(), S.size());
            if (keep.size() != S.size()) { cx.label(L_DEL); }
            S = keep;
            cx.label(L_FORSAFE);
            cx.log("list%d removal-safe iteration mask %#x\n", r, mask);
            break; }
        default: {
            // move the other list into this one after position pos, then re-initialise the source (as the tests do)
            std::vector<int> &O = s.seq[1 - r];
            size_t pos = t.u8() % (S.size() + 1);
            cx.hash.add(pos);
            a_slist_node *at = pos == 0 ? &L->head : s.node[S[pos - 1]];
            if (O.size() <= 1) { cx.label(L_MOV_SHORT); short_seen = true; }
            if (O.size() >= 3) { cx.label(L_MOV_LONG); long_seen = true; }
            if (pos == S.size()) { cx.label(L_MOV_AT_TAIL); }
            cx.log("list%d mov(other list of %zu, after pos %zu of %zu)\n", r, O.size(), pos, S.size());
            a_slist_mov(&s.list[1 - r], L, at);
            a_slist_dtor(&s.list[1 - r]);
            S.insert(S.begin() + long(pos), O.begin(), O.end());
            O.clear();
            break; }
        }
        walk(cx, s, "operation");
    }
    if (short_seen && long_seen) { cx.rep->nontrivial = true; }
}
#endif
VP_DEFINE_RUN(run_case)
