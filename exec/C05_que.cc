#define VP_AMBIENT_ROUNDING 1 // results of this executor may not depend on the dynamic floating-point rounding mode (drv/vp.h)
// C05 (queue) — a_que against a std::deque model of (bytes, address); with -DVP_FAULT the
// queue part of C07 (allocation faults at every request position).
#include "fault.h"
#include <algorithm>
#include <climits>
#include <deque>
#include <set>
#include <vector>
extern "C" {
#include "a/que.h"
}

enum { L_RECYCLE, L_QSWAP_NONEMPTY, L_ESWAP, L_INSERT_MID, L_REMOVE_MID, L_SORT_FORE, L_SORT_BACK, L_PUSH_SORT, L_DROP, L_SETZ_GROW, L_AT_NEG, L_BIGIDX, L_FAULT_HIT, L_FAULT_LATE, L_LEN16, L_FOREACH, L_ESWAP_ADJ, L_BULK, L_POOL33 };
static char const *const labels[] = {"pull_then_two_pushes_recycling", "queue_swap_nonempty", "element_swap", "insert_in_middle", "remove_in_middle",
                                     "sort_fore", "sort_back", "push_sort", "drop_nonempty", "setz_larger_element", "at_negative_index", "index_ge_2^32",
                                     "fault_hit_library_request", "fault_not_in_first_op", "len_ge_16", "foreach_macro", "element_swap_adjacent", "bulk_push_or_pull_run", "recycling_pool_gt_32_nodes", nullptr};
static char const *const metrics[] = {"max_len", "faulty_executions", nullptr};
static uint8_t const dict[] = {3, 4, 5, 6, 11, 12, 13};
#ifdef VP_FAULT
static vp_info const info = {"C07", "que", "", labels, metrics, 120, dict, sizeof(dict)};
#else
static vp_info const info = {"C05", "que", "", labels, metrics, 300, dict, sizeof(dict)};
#endif
extern "C" vp_info const *vp_get_info(void) { return &info; }

struct Elem
{
    std::vector<uint8_t> bytes;
    void *addr;
};

struct Q
{
    a_que store;
    a_que *q = nullptr;
    bool heap = false;
    size_t siz = 1;
    std::deque<Elem> m;
    unsigned serial = 0;
};

struct Run
{
    Ctx &cx;
    Q qs[2];
    int fault_mode = 0;
    unsigned opno = 0;
    unsigned pushes_since_pull = 99;
    bool pulled = false;
    bool recycled = false, qswap = false;
    explicit Run(Ctx &c) : cx(c) {}
};

// The comparison contract is the sign of the result only; the style is fixed per history (0: -1/0/+1, 1: difference,
// 2: difference * 1000, 3: INT_MIN/0/INT_MAX, 4..7: asymmetric mixes).
static int g_cmp_style = 0;
static int cmp_shape2(int x, int y);
// left argument: an element; right argument: a probe whose single byte holds the complement of the key
// where the one-byte key sits inside an element: byte 0, or - per history, for elements of two bytes or more - byte 1 behind a
// byte that is mostly NUL
static bool g_key_hi = false;
static size_t g_key_at = 0; // set from the queue right before every call that takes the comparator
static int cmp_elem_probe(void const *a, void const *b)
{
    return cmp_shape2(((uint8_t const *)a)[g_key_at], uint8_t(~*(uint8_t const *)b));
}
static int cmp_first(void const *a, void const *b)
{
    return cmp_shape2(((uint8_t const *)a)[g_key_at], ((uint8_t const *)b)[g_key_at]);
}
static int cmp_shape2(int x, int y)
{
    int s = (x > y) - (x < y);
    switch (g_cmp_style & 7)
    {
    default: case 0: return s;
    case 1: return x - y;
    case 2: return (x - y) * 1000;
    case 3: return s > 0 ? INT_MAX : s < 0 ? INT_MIN : 0;
    case 4: return s > 0 ? 2 : s;
    case 5: return s < 0 ? -2 : s;
    case 6: return s > 0 ? x - y + 1 : s;
    case 7: return s < 0 ? INT_MIN : x - y;
    }
}
static unsigned dtor_calls = 0;
static std::vector<void *> dtor_seen; // what the element destructor was called with, in order
static void dtor_fn(void *p) { ++dtor_calls; dtor_seen.push_back(p); }

static inline size_t kpos(Q const &q) { return (g_key_hi && q.siz >= 2) ? 1 : 0; }
static std::vector<uint8_t> mk(Q &q, uint8_t key)
{
    std::vector<uint8_t> e(q.siz);
    unsigned s = q.serial++;
    for (size_t j = 0; j < q.siz; ++j) { e[j] = uint8_t(s * 7 + j * 13 + 1); }
    if (kpos(q)) { e[0] = (s % 4 == 3) ? uint8_t(s * 7 + 1) : uint8_t(0); }
    e[kpos(q)] = key;
    return e;
}

static void verify(Run &r, Q &q, char const *after)
{
    Ctx &cx = r.cx;
    shim_check(cx, after);
    a_list const *h = &q.q->head_;
    size_t n = q.m.size();
    VP_CHECK(cx, a_que_num(q.q) == n, "que:count", "after %s: a_que_num %zu, abstract sequence has %zu", after, (size_t)a_que_num(q.q), n);
    VP_CHECK(cx, a_que_siz(q.q) == q.siz, "que:element_size", "after %s: element size %zu, expected %zu", after, (size_t)a_que_siz(q.q), q.siz);
    size_t i = 0;
    a_list const *it;
    for (it = h->next; it != h; it = it->next)
    {
        VP_CHECK(cx, i < n, "que:ring_forward", "after %s: forward walk yields more than %zu nodes or does not return to the queue's own sentinel", after, n);
        VP_CHECK(cx, it->next->prev == it, "que:link_mismatch", "after %s: element %zu: next->prev != self", after, i);
        VP_CHECK(cx, (void *)(it + 1) == q.m[i].addr, "que:address_or_order", "after %s: position %zu holds a different element than the abstract sequence", after, i);
        VP_CHECK(cx, memcmp(it + 1, q.m[i].bytes.data(), q.siz) == 0, "que:content", "after %s: element %zu bytes differ (first byte %u, expected %u)", after, i, *(uint8_t const *)(it + 1), q.m[i].bytes[0]);
        ++i;
    }
    VP_CHECK(cx, i == n, "que:ring_forward", "after %s: forward walk yields %zu nodes, expected %zu", after, i, n);
    VP_CHECK(cx, h->next->prev == h && h->prev->next == h, "que:sentinel_links", "after %s: the ring does not close on the queue's own sentinel", after);
    i = n;
    for (it = h->prev; it != h; it = it->prev)
    {
        VP_CHECK(cx, i > 0, "que:ring_backward", "after %s: backward walk yields more than %zu nodes", after, n);
        --i;
        VP_CHECK(cx, (void *)(it + 1) == q.m[i].addr, "que:address_or_order_backward", "after %s: backward position %zu holds a different element", after, i);
    }
    VP_CHECK(cx, i == 0, "que:ring_backward", "after %s: backward walk is short by %zu nodes", after, i);
    void *f = a_que_fore(q.q), *b = a_que_back(q.q);
    if (n)
    {
        VP_CHECK(cx, f == q.m.front().addr && b == q.m.back().addr, "que:fore_back", "after %s: fore/back do not address the first/last element", after);
    }
    else { VP_CHECK(cx, f == nullptr && b == nullptr, "que:fore_back_empty", "after %s: fore/back of an empty queue are not null", after); }
    cx.metric(0, double(n));
    if (n >= 16) { cx.label(L_LEN16); }
    if (q.q->cur_ > 32) { cx.label(L_POOL33); }
}

static void expect_fault(Run &r, uint64_t fb, char const *op)
{
    VP_CHECK(r.cx, g_shim.faults > fb, "que:spurious_failure", "%s reported failure although no allocation failed", op);
    r.cx.label(L_FAULT_HIT);
    if (r.opno > 1) { r.cx.label(L_FAULT_LATE); }
}

static void check_new_slot(Run &r, void *p)
{
    for (int k = 0; k < 2; ++k)
    {
        if (!r.qs[k].q) { continue; }
        for (auto &e : r.qs[k].m)
        {
            VP_CHECK(r.cx, e.addr != p, "que:recycled_node_still_enqueued", "a push returned the address of an element that is still enqueued");
        }
    }
}

static size_t gen_idx(Tape &t, size_t n, Run &r)
{
    uint8_t cb = t.u8();
    uint8_t c = cb % 14;
    size_t near = (cb / 14) % (n + 3); // spare bits of the same byte: a small offset below / around the huge values
    size_t v;
    switch (c)
    {
    case 0: case 1: case 2: case 3: v = n ? t.u8() % n : 0; break;
    case 4: v = 0; break;
    case 5: v = 1; break;
    case 6: v = n / 2; break;
    case 7: v = n ? n - 1 : 0; break;
    case 8: v = n; break;
    case 9: v = n + 1; break;
    case 10: v = 2 * n + 1; break;
    case 11: v = 0xFFFFFFFFull + near; break;
    case 12: v = (size_t(1) << 63) + near - 1; break;
    default: v = SIZE_MAX - near; break; // as a signed number: -1, -2, ... -(n+3)
    }
    if (v >= (size_t(1) << 32)) { r.cx.label(L_BIGIDX); }
    return v;
}

static void note_push(Run &r)
{
    if (r.pulled && ++r.pushes_since_pull >= 2)
    {
        r.recycled = true;
        r.cx.label(L_RECYCLE);
    }
}

// kind: 0 push_back 1 push_fore 2 insert(idx) 3 push_sort
static void op_push(Run &r, Q &q, Tape &t, int kind, int sort_after)
{
    uint8_t key = t.u8();
    size_t idx = kind == 2 ? gen_idx(t, q.m.size(), r) : 0;
    std::vector<uint8_t> e = mk(q, key);
    if (kind == 3 || sort_after)
    {
        // sorted variants are only meaningful on a sorted sequence
        for (size_t i = 1; i < q.m.size(); ++i)
        {
            if (q.m[i - 1].bytes[kpos(q)] > q.m[i].bytes[kpos(q)])
            {
                ++r.cx.rep->excluded;
                kind = kind == 3 ? 0 : kind;
                sort_after = 0;
                break;
            }
        }
    }
    for (int attempt = 0; attempt < 2; ++attempt)
    {
        uint64_t fb = g_shim.faults;
        size_t oldn = q.m.size();
        void *p;
        r.cx.log("que%d %s key %u idx %zu ...\n", int(&q - r.qs), kind == 0 ? "push_back" : kind == 1 ? "push_fore" : kind == 2 ? "insert" : "push_sort", key, idx);
        switch (kind)
        {
        case 0: p = a_que_push_back(q.q); break;
        case 1: p = a_que_push_fore(q.q); break;
        case 2: p = a_que_insert(q.q, idx); break;
        default: {
            // key "on the right": half of the time a probe object of another layout (complemented byte)
            uint8_t probe = uint8_t(~key);
            g_key_at = kpos(q);
            p = (r.opno & 1) ? a_que_push_sort(q.q, &probe, cmp_elem_probe) : a_que_push_sort(q.q, e.data(), cmp_first);
            break; }
        }
        if (!p)
        {
            expect_fault(r, fb, "push");
            verify(r, q, "failed push");
            if (r.fault_mode == 1 && attempt == 0) { continue; }
            return;
        }
        check_new_slot(r, p);
        memcpy(p, e.data(), q.siz);
        Elem el{e, p};
        if (kind == 0) { q.m.push_back(el); }
        else if (kind == 1) { q.m.push_front(el); }
        else if (kind == 2)
        {
            size_t pos = idx < oldn ? idx : oldn;
            if (pos > 0 && pos < oldn) { r.cx.label(L_INSERT_MID); }
            q.m.insert(q.m.begin() + long(pos), el);
        }
        else
        {
            // validity: somewhere such that the sequence stays sorted; find it by address
            size_t pos = 0;
            a_list const *h = &q.q->head_;
            for (a_list const *it = h->next; it != h && (void *)(it + 1) != p && pos <= oldn; it = it->next) { ++pos; }
            VP_CHECK(r.cx, pos <= oldn, "que:push_sort_not_linked", "push_sort returned a slot that is not linked into the queue");
            q.m.insert(q.m.begin() + long(pos), el);
            for (size_t i = 1; i < q.m.size(); ++i) { VP_CHECK(r.cx, q.m[i - 1].bytes[kpos(q)] <= q.m[i].bytes[kpos(q)], "que:push_sort_not_sorted", "push_sort(key %u) placed the element at %zu: sequence no longer sorted", key, pos); }
            r.cx.label(L_PUSH_SORT);
        }
        note_push(r);
        verify(r, q, "push");
        break;
    }
    if (sort_after && q.m.size() == size_t(a_que_num(q.q)))
    {
        Elem moved = kind == 1 ? q.m.front() : q.m.back();
        if (kind == 1)
        {
            g_key_at = kpos(q);
            a_que_sort_fore(q.q, cmp_first);
            q.m.pop_front();
            r.cx.label(L_SORT_FORE);
        }
        else
        {
            g_key_at = kpos(q);
            a_que_sort_back(q.q, cmp_first);
            q.m.pop_back();
            r.cx.label(L_SORT_BACK);
        }
        r.cx.log("  sort_%s\n", kind == 1 ? "fore" : "back");
        // locate the moved element, require sortedness, adopt its position
        size_t pos = 0;
        a_list const *h = &q.q->head_;
        size_t n = q.m.size() + 1;
        for (a_list const *it = h->next; it != h && (void *)(it + 1) != moved.addr && pos <= n; it = it->next) { ++pos; }
        VP_CHECK(r.cx, pos < n, "que:sort_lost_element", "sort_fore/back: the pushed element is no longer in the ring");
        q.m.insert(q.m.begin() + long(pos), moved);
        for (size_t i = 1; i < q.m.size(); ++i) { VP_CHECK(r.cx, q.m[i - 1].bytes[kpos(q)] <= q.m[i].bytes[kpos(q)], "que:sort_not_sorted", "sort_fore/back left the sequence unsorted at %zu", i); }
        verify(r, q, "sort_fore/back");
    }
}

// kind: 0 pull_back 1 pull_fore 2 remove(idx)
static void op_pull(Run &r, Q &q, Tape &t, int kind)
{
    size_t idx = kind == 2 ? gen_idx(t, q.m.size(), r) : 0;
    for (int attempt = 0; attempt < 2; ++attempt)
    {
        uint64_t fb = g_shim.faults;
        size_t oldn = q.m.size();
        r.cx.log("que%d %s idx %zu of %zu ...\n", int(&q - r.qs), kind == 0 ? "pull_back" : kind == 1 ? "pull_fore" : "remove", idx, oldn);
        void *p = kind == 0 ? a_que_pull_back(q.q) : kind == 1 ? a_que_pull_fore(q.q) : a_que_remove(q.q, idx);
        if (oldn == 0)
        {
            VP_CHECK(r.cx, p == nullptr, "que:pull_from_empty", "pull from an empty queue returned a pointer");
            verify(r, q, "pull on empty");
            return;
        }
        if (!p)
        {
            expect_fault(r, fb, "pull");
            verify(r, q, "failed pull");
            if (r.fault_mode == 1 && attempt == 0) { continue; }
            return;
        }
        size_t pos = kind == 0 ? oldn - 1 : kind == 1 ? 0 : (idx < oldn ? idx : oldn - 1);
        if (kind == 2 && pos > 0 && pos + 1 < oldn) { r.cx.label(L_REMOVE_MID); }
        VP_CHECK(r.cx, p == q.m[pos].addr, "que:pulled_wrong_element", "pull/remove(%zu) of %zu returned a different element than position %zu", idx, oldn, pos);
        VP_CHECK(r.cx, memcmp(p, q.m[pos].bytes.data(), q.siz) == 0, "que:pulled_element_not_intact", "pulled element bytes differ from what was stored");
        q.m.erase(q.m.begin() + long(pos));
        r.pulled = true;
        r.pushes_since_pull = 0;
        verify(r, q, "pull");
        return;
    }
}

static void op_query(Run &r, Q &q, Tape &t)
{
    size_t n = q.m.size();
    int64_t idx;
    switch (t.u8() % 8)
    {
    case 0: idx = INT64_MIN; break;
    case 1: idx = INT64_MAX; break;
    case 2: idx = -int64_t(n) - 1; break;
    case 3: idx = int64_t(n); break;
    case 4: idx = -int64_t(n); break;
    case 5: idx = -1; break;
    default: idx = int64_t(t.u8() % (2 * n + 5)) - int64_t(n) - 2; break;
    }
    void *p = a_que_at(q.q, a_diff(idx));
    r.cx.log("at(%lld) of %zu\n", (long long)idx, n);
    if (idx < 0) { r.cx.label(L_AT_NEG); }
    if (idx >= 0 && uint64_t(idx) < n) { VP_CHECK(r.cx, p == q.m[size_t(idx)].addr, "que:at", "at(%lld) of %zu addresses the wrong element", (long long)idx, n); }
    else if (idx < 0 && uint64_t(-(idx + 1)) < n) { VP_CHECK(r.cx, p == q.m[n - size_t(-(idx + 1)) - 1].addr, "que:at_negative", "at(%lld) of %zu addresses the wrong element", (long long)idx, n); }
    else { VP_CHECK(r.cx, p == nullptr, "que:at_out_of_range", "at(%lld) of %zu elements returned non-null", (long long)idx, n); }
    // foreach macros (both spellings) enumerate exactly the sequence
    if (q.siz >= 1)
    {
        size_t i = 0;
        a_que_foreach(uint8_t, *, it, q.q)
        {
            VP_CHECK(r.cx, i < n && (void *)it == q.m[i].addr, "que:foreach", "a_que_foreach position %zu of %zu is wrong", i, n);
            ++i;
        }
        VP_CHECK(r.cx, i == n, "que:foreach", "a_que_foreach yields %zu of %zu", i, n);
        a_que_foreach_reverse(uint8_t, *, it, q.q)
        {
            VP_CHECK(r.cx, i > 0 && (void *)it == q.m[i - 1].addr, "que:foreach_reverse", "a_que_foreach_reverse position %zu of %zu is wrong", i, n);
            --i;
        }
        VP_CHECK(r.cx, i == 0, "que:foreach_reverse", "a_que_foreach_reverse stops %zu elements early", i);
        {
            uint8_t *it, *at;
            A_QUE_FOREACH(uint8_t *, it, at, q.q)
            {
                VP_CHECK(r.cx, i < n && (void *)it == q.m[i].addr, "que:FOREACH", "A_QUE_FOREACH position %zu of %zu is wrong", i, n);
                ++i;
            }
            VP_CHECK(r.cx, i == n, "que:FOREACH", "A_QUE_FOREACH yields %zu of %zu", i, n);
            A_QUE_FOREACH_REVERSE(uint8_t *, it, at, q.q)
            {
                VP_CHECK(r.cx, i > 0 && (void *)it == q.m[i - 1].addr, "que:FOREACH_REVERSE", "A_QUE_FOREACH_REVERSE position is wrong");
                --i;
            }
            VP_CHECK(r.cx, i == 0, "que:FOREACH_REVERSE", "A_QUE_FOREACH_REVERSE stops early");
        }
        r.cx.label(L_FOREACH);
    }
}

static void make_q(Run &r, Q &q, Tape &t)
{
    static size_t const sizes[] = {1, 4, 8, 12, 0, 3, 16, 2};
    uint8_t sb = t.u8();
    size_t siz = sizes[sb % 8];
    g_cmp_style = (sb >> 3) & 7; // upper bits of the same byte; the second queue's byte decides for the history
    g_key_hi = ((sb >> 6) & 1) != 0;
    r.cx.hash.add(uint64_t(g_cmp_style) << 8);
    q.heap = t.coin();
    q.siz = siz ? siz : 1;
    r.cx.hash.add(siz * 2 + q.heap);
    if (q.heap)
    {
        q.q = a_que_new(siz);
        if (!q.q) { q.heap = false; }
    }
    if (!q.heap)
    {
        q.q = &q.store;
        a_que_ctor(q.q, siz);
    }
    r.cx.log("que element size %zu (%s)\n", siz, q.heap ? "new" : "ctor");
    verify(r, q, "construction");
}

static void run_history(Tape &t, Ctx &cx, uint64_t fail_at, int mode, uint64_t *requests_out)
{
    shim_install();
    // allocator policy of this history: blocks always move on reallocation, or grow in place within their size class.
    // A function of the tape (its length), so that no byte changes meaning.
    g_shim.inplace = ((t.pos() + t.left()) & 1) != 0;
    g_shim.fail_at = fail_at;
    g_shim.mode = mode;
    Run r(cx);
    r.fault_mode = mode;
    make_q(r, r.qs[0], t);
    make_q(r, r.qs[1], t);
    unsigned maxops =
#ifdef VP_FAULT
        60;
#else
        300;
#endif
    while (!t.done() && r.opno < maxops)
    {
        ++r.opno;
        ++cx.rep->subcases;
        uint8_t opb = t.u8();
        Q &q = r.qs[(opb >> 7) & 1];
        uint8_t op = (opb & 0x7F) % 19;
        cx.hash.add(opb);
        switch (op)
        {
        case 18: {
            // scenario: fill to a count at / around the pool-growth thresholds, pull a few single elements, then drop or setz
            static unsigned const K[] = {7, 8, 9, 16, 17, 24, 25, 32, 33, 40, 48, 49, 56, 57, 64, 65};
            unsigned k = K[t.u8() % 16], j = 1 + t.u8() % 4;
            uint8_t fin = t.u8() % 4;
            for (unsigned i = 0; i < k && q.m.size() < 200; ++i) { op_push(r, q, t, 0, 0); }
            for (unsigned i = 0; i < j && !q.m.empty(); ++i) { op_pull(r, q, t, int(i % 2)); }
            cx.label(L_BULK);
            if (fin <= 1)
            {
                for (int attempt = 0; attempt < 2; ++attempt)
                {
                    uint64_t fb = g_shim.faults;
                    cx.log("drop (%zu elements)\n", q.m.size());
                    int rc = a_que_drop(q.q, nullptr);
                    if (rc != A_SUCCESS)
                    {
                        VP_CHECK(cx, rc == A_OMEMORY, "que:drop_return", "drop returned %d", rc);
                        expect_fault(r, fb, "drop");
                        verify(r, q, "failed drop");
                        if (r.fault_mode == 1 && attempt == 0) { continue; }
                        break;
                    }
                    if (!q.m.empty()) { cx.label(L_DROP); }
                    q.m.clear();
                    verify(r, q, "drop");
                    break;
                }
            }
            break; }
        case 16: {
            // run of pushes: builds long queues in three tape bytes
            unsigned k = 1 + t.u8() % 80;
            for (unsigned i = 0; i < k && q.m.size() < 200; ++i) { op_push(r, q, t, (t.pos() + i) % 7 == 0 ? 1 : 0, 0); }
            cx.label(L_BULK);
            break; }
        case 17: {
            // run of single pulls: drains the queue node by node into the recycling pool
            unsigned k = 1 + t.u8() % 80;
            int kind = t.u8() % 3;
            for (unsigned i = 0; i < k && !q.m.empty(); ++i) { op_pull(r, q, t, kind == 2 ? int(i % 2) : kind); }
            cx.label(L_BULK);
            break; }
        case 0: op_query(r, q, t); break;
        case 1: case 14: op_push(r, q, t, 0, 0); break;
        case 2: case 15: op_push(r, q, t, 1, 0); break;
        case 3: op_pull(r, q, t, 0); break;
        case 4: op_pull(r, q, t, 1); break;
        case 5: op_push(r, q, t, 2, 0); break;
        case 6: op_pull(r, q, t, 2); break;
        case 7: op_push(r, q, t, 3, 0); break;
        case 8: case 9:
            if (q.m.size() <= 1 && (r.opno & 1))
            {
                // the insertion-sort steps on a queue of no or one element, without a push before: nothing to move
                g_key_at = kpos(q);
                if (op == 8) { a_que_sort_fore(q.q, cmp_first); }
                else { a_que_sort_back(q.q, cmp_first); }
                r.cx.log("que%d sort_%s on %zu element(s)\n", int(&q - r.qs), op == 8 ? "fore" : "back", q.m.size());
                verify(r, q, "sort_fore / sort_back on at most one element");
                break;
            }
            op_push(r, q, t, op == 8 ? 1 : 0, 1);
            break;
        case 10: {
            // element swap: distinct non-adjacent elements (same or other queue), or the identity swap
            Q &o = t.coin() ? r.qs[1 - ((opb >> 7) & 1)] : q;
            if (q.m.empty() || o.m.empty()) { break; }
            size_t i = t.u8() % q.m.size(), j = t.u8() % o.m.size();
            cx.hash.add(i * 64 + j);
            // adjacent elements are a legitimate sequence operation for the queue (the statement restricts
            // adjacency only for the raw list primitives), so they are generated too
            if (&o == &q && i != j && (i > j ? i - j : j - i) == 1) { cx.label(L_ESWAP_ADJ); }
            if (o.siz != q.siz && &o != &q)
            {
                ++cx.rep->excluded; // nodes of different payload size must not change queues
                break;
            }
            cx.log("swap_(que[%zu], other[%zu])\n", i, j);
            a_que_swap_(q.m[i].addr, o.m[j].addr);
            if (!(&o == &q && i == j))
            {
                std::swap(q.m[i], o.m[j]);
                cx.label(L_ESWAP);
            }
            verify(r, q, "element swap");
            verify(r, o, "element swap");
            break; }
        case 11: {
            bool nonempty = !r.qs[0].m.empty() || !r.qs[1].m.empty();
            cx.log("a_que_swap (sizes %zu / %zu)\n", r.qs[0].m.size(), r.qs[1].m.size());
            a_que_swap(r.qs[0].q, r.qs[1].q);
            std::swap(r.qs[0].m, r.qs[1].m);
            std::swap(r.qs[0].siz, r.qs[1].siz);
            std::swap(r.qs[0].serial, r.qs[1].serial);
            if (nonempty)
            {
                r.qswap = true;
                cx.label(L_QSWAP_NONEMPTY);
            }
            verify(r, r.qs[0], "queue swap");
            verify(r, r.qs[1], "queue swap");
            break; }
        case 12: {
            for (int attempt = 0; attempt < 2; ++attempt)
            {
                uint64_t fb = g_shim.faults;
                bool use_dtor = t.coin();
                cx.log("drop (%zu elements)\n", q.m.size());
                dtor_seen.clear();
                int rc = a_que_drop(q.q, use_dtor ? dtor_fn : nullptr);
                if (rc == A_SUCCESS && use_dtor)
                {
                    // the element destructor is handed every enqueued element - the element, not its node (it is also run on
                    // the elements of recycled nodes; nothing the statement says decides whether it should be)
                    std::vector<void *> got = dtor_seen;
                    std::sort(got.begin(), got.end());
                    for (auto const &e : q.m) { VP_CHECK(cx, std::binary_search(got.begin(), got.end(), (void *)e.addr), "que:drop_dtor_arguments", "drop of %zu elements with a destructor: the element at %p was not handed to it (%zu calls)", q.m.size(), (void *)e.addr, dtor_seen.size()); }
                }
                if (rc != A_SUCCESS)
                {
                    VP_CHECK(cx, rc == A_OMEMORY, "que:drop_return", "drop returned %d", rc);
                    expect_fault(r, fb, "drop");
                    verify(r, q, "failed drop");
                    if (r.fault_mode == 1 && attempt == 0) { continue; }
                    break;
                }
                if (!q.m.empty()) { cx.label(L_DROP); }
                q.m.clear();
                verify(r, q, "drop");
                break;
            }
            break; }
        default: {
            static size_t const sizes[] = {1, 4, 8, 12, 0, 24, 16, 2};
            size_t ns = sizes[t.u8() % 8];
            for (int attempt = 0; attempt < 2; ++attempt)
            {
                uint64_t fb = g_shim.faults;
                size_t oldn = q.m.size();
                cx.log("setz(%zu) from %zu (%zu elements)\n", ns, q.siz, oldn);
                bool sz_dtor = (r.opno & 1) != 0;
                dtor_seen.clear();
                std::vector<void *> sz_want;
                for (auto const &e : q.m) { sz_want.push_back(e.addr); }
                int rc = a_que_setz(q.q, ns, sz_dtor ? dtor_fn : nullptr);
                if (rc == A_SUCCESS && sz_dtor)
                {
                    std::vector<void *> got = dtor_seen;
                    std::sort(got.begin(), got.end());
                    for (void *w : sz_want) { VP_CHECK(cx, std::binary_search(got.begin(), got.end(), w), "que:setz_dtor_arguments", "setz on %zu elements with a destructor: the element at %p was not handed to it (%zu calls)", sz_want.size(), w, dtor_seen.size()); }
                }
                if (rc != A_SUCCESS)
                {
                    VP_CHECK(cx, rc == A_OMEMORY, "que:setz_return", "setz returned %d", rc);
                    expect_fault(r, fb, "setz");
                    // declared reading (DESIGN §4 C07): setz starts with an unconditional drop; if the failure struck while
                    // growing the recycled nodes the queue is validly empty with its old element size, otherwise unchanged
                    if (a_que_num(q.q) == 0 && oldn != 0) { q.m.clear(); }
                    verify(r, q, "failed setz");
                    if (r.fault_mode == 1 && attempt == 0) { continue; }
                    break;
                }
                if ((ns ? ns : 1) > q.siz) { cx.label(L_SETZ_GROW); }
                q.m.clear();
                q.siz = ns ? ns : 1;
                verify(r, q, "setz");
                break;
            }
            break; }
        }
    }
    for (int k = 0; k < 2; ++k)
    {
        Q &q = r.qs[k];
        dtor_seen.clear();
        if (q.heap) { a_que_die(q.q, k ? dtor_fn : nullptr); }
        else { a_que_dtor(q.q, k ? dtor_fn : nullptr); }
        if (k && g_shim.faults == 0)
        {
            // destruction with an element destructor hands it every element that was still enqueued
            std::vector<void *> got = dtor_seen;
            std::sort(got.begin(), got.end());
            for (auto const &e : q.m) { VP_CHECK(cx, std::binary_search(got.begin(), got.end(), (void *)e.addr), "que:dtor_arguments", "destroying a queue of %zu elements with a destructor: the element at %p was not handed to it (%zu calls)", q.m.size(), (void *)e.addr, dtor_seen.size()); }
        }
        q.q = nullptr;
    }
    shim_check_empty(cx, "after destroying the queues");
    if (requests_out) { *requests_out = g_shim.requests; }
#ifndef VP_FAULT
    if (r.recycled || r.qswap) { cx.rep->nontrivial = true; }
#endif
}

static void run_case(Tape &t0, Ctx &cx)
{
#ifndef VP_FAULT
    run_history(t0, cx, 0, 0, nullptr);
    g_shim.reset();
#else
    uint64_t N = 0;
    Tape t = t0;
    bool wr = cx.rep->want_render;
    run_history(t, cx, 0, 0, &N);
    cx.rep->want_render = false;
    if (N > 96) { N = 96; }
    uint64_t h = cx.hash.h;
    for (uint64_t k = 1; k <= N; ++k)
    {
        for (int mode = 1; mode <= 2; ++mode)
        {
            Tape t2 = t0;
            try
            {
                run_history(t2, cx, k, mode, nullptr);
            }
            catch (vp_fail const &)
            {
                char buf[96];
                snprintf(buf, sizeof(buf), " [allocation request %llu of %llu fails, %s]", (unsigned long long)k, (unsigned long long)N, mode == 1 ? "single fault" : "all later requests fail too");
                cx.rep->msg += buf;
                cx.hash.h = h;
                g_shim.reset();
                throw;
            }
            cx.metric(1, double(2 * (k - 1) + mode));
        }
    }
    cx.rep->subcases += 2 * N;
    cx.hash.h = h;
    cx.hash.add(N);
    cx.rep->want_render = wr;
    cx.log("fault enumeration: %llu allocation requests x 2 modes\n", (unsigned long long)N);
    if (N >= 1 && cx.has(L_FAULT_LATE)) { cx.rep->nontrivial = true; }
    g_shim.reset();
#endif
}
VP_DEFINE_RUN(run_case)
