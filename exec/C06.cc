#define VP_AMBIENT_ROUNDING 1 // results of this executor may not depend on the dynamic floating-point rounding mode (drv/vp.h)
// C06 — dynamic string against std::string (+ "terminated" flag); with -DVP_FAULT the string
// part of C07. Formatted append is compared with vsnprintf on the same format and arguments.
#include "fault.h"
#include <algorithm>
#include <cstdarg>
#include <string>
#include <vector>
extern "C" {
#include "a/str.h"
#include "a/utf.h"
}

enum { L_REALLOC, L_FMT_EXACT_FIT, L_FMT_GROW, L_TRIM_EMPTIES, L_EXIT_FULL, L_EXIT, L_NUL_BYTE, L_HIGH_BYTE, L_UTF, L_SETN_GROW, L_SWAP, L_CMP, L_LEN_EQ_MEM, L_FAULT_HIT, L_FAULT_LATE, L_CAT_OTHER, L_GETN, L_LEN64, L_BIG_RESERVE, L_ACCESSORS, L_FMT_FAILS, L_SETM_EXACT, L_SIGNED_CHAR_ARG };
static char const *const labels[] = {"reallocation", "catf_exactly_fills_spare_capacity", "catf_reallocates", "trim_empties_string", "exit_with_len_eq_mem", "exit",
                                     "nul_byte_in_content", "byte_ge_0x80", "utf_catc", "setn_grows_length", "swap", "compare", "len_eq_mem_state",
                                     "fault_hit_library_request", "fault_not_in_first_op", "cat_other_string", "getn", "len_ge_64", "reserve_ge_200_up_to_64KiB", "index_accessors_utf_len_raw_compare", "catf_conversion_refused_by_the_formatter", "setm__capacity_set_exactly_incl_shrink_to_fit", "catc_argument_from_a_signed_char", nullptr};
static char const *const metrics[] = {"max_len", "faulty_executions", nullptr};
static uint8_t const dict[] = {0x20, 0x09, 0x0A, 0x25, 0x73, 0xC3, 0xE2, 0xF0};
#ifdef VP_FAULT
static vp_info const info = {"C07", "str", "", labels, metrics, 120, dict, sizeof(dict)};
#else
static vp_info const info = {"C06", "str", "", labels, metrics, 300, dict, sizeof(dict)};
#endif
extern "C" vp_info const *vp_get_info(void) { return &info; }

struct S
{
    a_str store;
    a_str *s = nullptr;
    bool heap = false;
    std::string m;
    bool term = false; // a terminating variant ran last: ptr[len] must be NUL inside the capacity
};

struct Run
{
    Ctx &cx;
    S ss[2];
    int fault_mode = 0;
    unsigned opno = 0;
    bool nt = false;
    uint32_t last_cp = 0;
    explicit Run(Ctx &c) : cx(c) {}
};

static void verify(Run &r, S &s, char const *after)
{
    Ctx &cx = r.cx;
    shim_check(cx, after);
    size_t len = a_str_len(s.s), mem = a_str_mem(s.s);
    char const *p = a_str_ptr(s.s);
    VP_CHECK(cx, len <= mem, "str:len_exceeds_capacity", "after %s: length %zu > capacity %zu", after, len, mem);
    VP_CHECK(cx, len == s.m.size(), "str:length", "after %s: length %zu, abstract string has %zu", after, len, s.m.size());
    if (len)
    {
        VP_CHECK(cx, p != nullptr, "str:null_storage", "after %s: length %zu with null storage", after, len);
        VP_CHECK(cx, memcmp(p, s.m.data(), len) == 0, "str:content", "after %s: content differs from the abstract byte string (length %zu)", after, len);
    }
    if (s.term)
    {
        VP_CHECK(cx, p != nullptr && len < mem, "str:no_room_for_terminator", "after %s (terminating variant): length %zu, capacity %zu - no room for the NUL", after, len, mem);
        VP_CHECK(cx, p[len] == 0, "str:not_terminated", "after %s (terminating variant): byte after the content is 0x%02x, not NUL", after, (unsigned char)p[len]);
    }
    if (mem && p)
    {
        // the claimed capacity must be owned storage
        volatile char sink = 0;
        for (size_t i = len; i < mem; ++i) { sink ^= p[i]; }
        (void)sink;
    }
    if (len == mem && len) { cx.label(L_LEN_EQ_MEM); }
    cx.metric(0, double(len));
    if (len >= 64) { cx.label(L_LEN64); }
}

static void expect_fault(Run &r, uint64_t fb, char const *op)
{
    VP_CHECK(r.cx, g_shim.faults > fb, "str:spurious_failure", "%s reported failure although no allocation failed", op);
    r.cx.label(L_FAULT_HIT);
    if (r.opno > 1) { r.cx.label(L_FAULT_LATE); }
}

static std::string gen_bytes(Tape &t, Run &r, S &s, bool no_nul, size_t maxlen = 40)
{
    size_t len = a_str_len(s.s), mem = a_str_mem(s.s);
    size_t spare = mem - len;
    size_t n;
    switch (t.u8() % 8)
    {
    case 0: n = 0; break;
    case 1: n = spare >= 2 ? spare - 2 : 0; break;
    case 2: n = spare >= 1 ? spare - 1 : 0; break;
    case 3: n = spare; break;
    case 4: n = spare + 1; break;
    case 5: n = 1; break;
    default: n = t.u8() % (maxlen + 1); break;
    }
    if (n > 200) { n = 200; }
    std::string b(n, 0);
    uint8_t mode = t.u8() % 4;
    for (size_t i = 0; i < n; ++i)
    {
        uint8_t c;
        switch (mode)
        {
        case 0: c = uint8_t('a' + (i % 26)); break;
        case 1: c = t.u8(); break;
        case 2: c = uint8_t(" \t\nxy\r\v\f"[t.u8() % 8]); break;
        default: c = uint8_t(0x80 + (t.u8() & 0x7F)); break;
        }
        if (no_nul && c == 0) { c = 1; }
        if (c == 0) { r.cx.label(L_NUL_BYTE); }
        if (c >= 0x80) { r.cx.label(L_HIGH_BYTE); }
        b[i] = char(c);
    }
    return b;
}

static int sign(int v) { return (v > 0) - (v < 0); }
static int ref_cmp(std::string const &a, std::string const &b)
{
    size_t n = std::min(a.size(), b.size());
    for (size_t i = 0; i < n; ++i)
    {
        unsigned char x = (unsigned char)a[i], y = (unsigned char)b[i];
        if (x != y) { return x < y ? -1 : 1; }
    }
    return (a.size() > b.size()) - (a.size() < b.size());
}

static size_t ref_utf8(uint32_t c, char *out)
{
    if (c < 0x80) { out[0] = char(c); return 1; }
    int n = c < 0x800 ? 2 : c < 0x10000 ? 3 : c < 0x200000 ? 4 : c < 0x4000000 ? 5 : 6;
    static uint8_t const lead[] = {0, 0, 0xC0, 0xE0, 0xF0, 0xF8, 0xFC};
    for (int i = n - 1; i > 0; --i)
    {
        out[i] = char(0x80 | (c & 0x3F));
        c >>= 6;
    }
    out[0] = char(lead[n] | c);
    return size_t(n);
}

// formatted append: returns via lambda-like switch; both liba and the reference get identical arguments
struct Fmt
{
    int id;
    std::string str;
    int i1 = 0;
    unsigned u1 = 0;
    double d1 = 0;
    int prec = 0;
    char ch = 'x';
    unsigned wc = 'w';
    wchar_t ws[4] = {L'a', L'b', 0, 0};
};
static int call_ref(char *buf, size_t n, Fmt const &f)
{
    switch (f.id)
    {
    case 0: return snprintf(buf, n, "%s", f.str.c_str());
    case 1: return snprintf(buf, n, "%.*s", f.prec, f.str.c_str());
    case 2: return snprintf(buf, n, "%d", f.i1);
    case 3: return snprintf(buf, n, "%5u", f.u1);
    case 4: return snprintf(buf, n, "%x", f.u1);
    case 5: return snprintf(buf, n, "%c", f.ch);
    case 6: return snprintf(buf, n, "%%");
    case 7: return snprintf(buf, n, "%g", f.d1);
    case 8: return snprintf(buf, n, "id=%d-%s;", f.i1, f.str.c_str());
    case 9: return snprintf(buf, n, "%s", "");
    // conversions the C formatter refuses in the "C" locale (a wide character it cannot encode): it returns a negative value,
    // at once (11), after having produced part of the output (12), or inside a wide string (13)
    case 11: return snprintf(buf, n, "%lc", (wint_t)f.wc);
    case 12: return snprintf(buf, n, "%s%lc<", f.str.c_str(), (wint_t)f.wc);
    case 13: return snprintf(buf, n, "%d:%ls", f.i1, f.ws);
    default: return snprintf(buf, n, "[%08.3f|%-6d|%+ld]", f.d1, f.i1, long(f.u1));
    }
}
static int call_liba(a_str *s, Fmt const &f)
{
    switch (f.id)
    {
    case 0: return a_str_catf(s, "%s", f.str.c_str());
    case 1: return a_str_catf(s, "%.*s", f.prec, f.str.c_str());
    case 2: return a_str_catf(s, "%d", f.i1);
    case 3: return a_str_catf(s, "%5u", f.u1);
    case 4: return a_str_catf(s, "%x", f.u1);
    case 5: return a_str_catf(s, "%c", f.ch);
    case 6: return a_str_catf(s, "%%");
    case 7: return a_str_catf(s, "%g", f.d1);
    case 8: return a_str_catf(s, "id=%d-%s;", f.i1, f.str.c_str());
    case 9: return a_str_catf(s, "%s", "");
    case 11: return a_str_catf(s, "%lc", (wint_t)f.wc);
    case 12: return a_str_catf(s, "%s%lc<", f.str.c_str(), (wint_t)f.wc);
    case 13: return a_str_catf(s, "%d:%ls", f.i1, f.ws);
    default: return a_str_catf(s, "[%08.3f|%-6d|%+ld]", f.d1, f.i1, long(f.u1));
    }
}

static void make_s(Run &r, S &s, Tape &t)
{
    s.heap = t.coin();
    if (s.heap)
    {
        s.s = a_str_new();
        if (!s.s) { s.heap = false; }
    }
    if (!s.heap)
    {
        s.s = &s.store;
        a_str_ctor(s.s);
    }
    s.m.clear();
    s.term = false;
    verify(r, s, "construction");
}

static void run_history(Tape &t, Ctx &cx, uint64_t fail_at, int mode, uint64_t *requests_out)
{
    shim_install();
    // allocator policy of this history: blocks always move on reallocation, or grow in place within their size class.
    // A function of the tape (its length), so that no byte changes meaning.
    g_shim.inplace = ((t.pos() + t.left()) & 1) != 0;
    g_shim.fail_at = fail_at;
    g_shim.mode = mode;
    Run r(cx);
    r.fault_mode = mode;
    make_s(r, r.ss[0], t);
    make_s(r, r.ss[1], t);
    unsigned maxops =
#ifdef VP_FAULT
        60;
#else
        300;
#endif
    while (!t.done() && r.opno < maxops)
    {
        ++r.opno;
        ++cx.rep->subcases;
        uint8_t opb = t.u8();
        int si = (opb >> 7) & 1;
        S &s = r.ss[si];
        S &o = r.ss[1 - si];
        bool under = (opb >> 6) & 1; // non-terminating ("_") variant
        uint8_t op = (opb & 0x3F) % 16;
        cx.hash.add(opb);
        size_t oldmem = a_str_mem(s.s);
        switch (op)
        {
        case 0: {
            int c1 = a_str_cmp(s.s, o.s);
            cx.label(L_CMP);
            VP_CHECK(cx, sign(c1) == ref_cmp(s.m, o.m), "str:cmp", "a_str_cmp sign %d, reference %d (lengths %zu / %zu)", sign(c1), ref_cmp(s.m, o.m), s.m.size(), o.m.size());
            std::string b = t.coin() ? gen_bytes(t, r, s, false) : s.m.substr(0, t.u8() % (s.m.size() + 1)) + gen_bytes(t, r, s, false, 3);
            // exact-size heap copy: over-reads are ASan errors
            char *blk = (char *)malloc(b.size() ? b.size() : 1);
            memcpy(blk, b.data(), b.size());
            int c2 = a_str_cmpn(s.s, blk, b.size());
            free(blk);
            VP_CHECK(cx, sign(c2) == ref_cmp(s.m, b), "str:cmpn", "a_str_cmpn sign %d, reference %d", sign(c2), ref_cmp(s.m, b));
            std::string z = b.substr(0, b.find('\0'));
            int c3 = a_str_cmps(s.s, z.c_str());
            VP_CHECK(cx, sign(c3) == ref_cmp(s.m, z), "str:cmps", "a_str_cmps sign %d, reference %d", sign(c3), ref_cmp(s.m, z));
            cx.log("s%d cmp/cmpn/cmps\n", si);
            break; }
        case 1: {
            int c = t.u8();
            if (c == 0) { cx.label(L_NUL_BYTE); }
            if (c >= 0x80) { cx.label(L_HIGH_BYTE); }
            // the argument is an int holding a character: a byte >= 0x80 taken from a plain (signed) char arrives as a negative
            // number, 0xFF as -1 - which is also the failure value, so that success is then read from the fault counter
            if (c >= 0x80 && (r.opno & 1)) { c -= 256; cx.label(L_SIGNED_CHAR_ARG); }
            for (int attempt = 0; attempt < 2; ++attempt)
            {
                uint64_t fb = g_shim.faults;
                cx.log("s%d catc%s(%d) ...\n", si, under ? "_" : "", c);
                int rc = under ? a_str_catc_(s.s, c) : a_str_catc(s.s, c);
                if (rc != c || (c == ~0 && g_shim.faults > fb))
                {
                    VP_CHECK(cx, rc == ~0, "str:catc_return", "catc returned %d", rc);
                    expect_fault(r, fb, "catc");
                    verify(r, s, "failed catc");
                    if (r.fault_mode == 1 && attempt == 0) { continue; }
                    break;
                }
                s.m.push_back(char(c));
                s.term = !under;
                verify(r, s, under ? "catc_" : "catc");
                break;
            }
            break; }
        case 2: case 3: case 4: {
            // catn / cats / cat (other string)
            std::string b;
            if (op == 4)
            {
                b = o.m;
                cx.label(L_CAT_OTHER);
            }
            else { b = gen_bytes(t, r, s, op == 3); }
            if (s.m.size() + b.size() > 8192)
            {
                ++cx.rep->excluded; // keep histories from doubling the strings without bound
                break;
            }
            char *blk = (char *)malloc(b.size() + 1);
            memcpy(blk, b.data(), b.size());
            blk[b.size()] = 0;
            for (int attempt = 0; attempt < 2; ++attempt)
            {
                uint64_t fb = g_shim.faults;
                cx.log("s%d %s%s(%zu bytes) len %zu mem %zu ...\n", si, op == 2 ? "catn" : op == 3 ? "cats" : "cat", under ? "_" : "", b.size(), a_str_len(s.s), a_str_mem(s.s));
                int rc;
                if (op == 2) { rc = under ? a_str_catn_(s.s, blk, b.size()) : a_str_catn(s.s, blk, b.size()); }
                else if (op == 3) { rc = under ? a_str_cats_(s.s, blk) : a_str_cats(s.s, blk); }
                else { rc = under ? a_str_cat_(s.s, o.s) : a_str_cat(s.s, o.s); }
                if (rc != A_SUCCESS)
                {
                    VP_CHECK(cx, rc == A_OMEMORY, "str:cat_return", "append returned %d", rc);
                    expect_fault(r, fb, "append");
                    verify(r, s, "failed append");
                    if (r.fault_mode == 1 && attempt == 0) { continue; }
                    break;
                }
                s.m += b;
                if (!under) { s.term = true; }
                else if (!b.empty()) { s.term = false; }
                verify(r, s, "append");
                break;
            }
            free(blk);
            break; }
        case 5: case 15: {
            Fmt f;
            {
                uint8_t ib = t.u8();
                f.id = ib % 11;
                if (ib >= 242)
                {
                    f.id = 11 + (ib - 242) % 3;
                    // mostly a character the "C" locale cannot encode, sometimes one it can (then the template is an ordinary one)
                    f.wc = (ib & 1) ? 0x20ACu : (ib % 5 == 0 ? unsigned('!') : 0xE9u);
                    f.ws[2] = wchar_t(f.wc);
                }
            }
            size_t len = a_str_len(s.s), mem = a_str_mem(s.s);
            size_t spare = mem - len;
            if (f.id == 0 || f.id == 1 || f.id == 8 || f.id == 12)
            {
                size_t n;
                switch (t.u8() % 6)
                {
                case 0: n = spare >= 2 ? spare - 2 : 0; break;
                case 1: n = spare >= 1 ? spare - 1 : 0; break; // exactly fills the spare room (content + NUL)
                case 2: n = spare; break;
                case 3: n = spare + 1; break;
                default: n = t.u8() % 60; break;
                }
                if (f.id == 8 && n >= 7) { n -= 7; }
                if (n > 300) { n = 300; }
                f.str.assign(n, 'q');
                for (size_t i = 0; i < n; ++i) { f.str[i] = char('A' + (i * 7 + len) % 26); }
                f.prec = int(t.u8() % (n + 3));
            }
            f.i1 = int(int32_t(t.u32()));
            f.u1 = t.u32();
            f.ch = char(1 + t.u8() % 255);
            { static double const dv[] = {0, 1, -1.5, 3.14159, 1e10, 1e-7, 123456789.0, 0.1}; f.d1 = dv[t.u8() % 8]; }
            char ref[4096];
            int want = call_ref(ref, sizeof(ref), f);
            for (int attempt = 0; attempt < 2; ++attempt)
            {
                uint64_t fb = g_shim.faults;
                cx.log("s%d catf(template %d, %d bytes) len %zu mem %zu ...\n", si, f.id, want, len, mem);
                int res = call_liba(s.s, f);
                if (want < 0)
                {
                    // the formatter itself fails: nothing is appended, the value it returns is handed on, and a terminated string
                    // stays terminated (the object is as it was, whatever the formatter wrote before giving up)
                    cx.label(L_FMT_FAILS);
                    r.nt = true;
                    if (res == 0 && g_shim.faults > fb) { expect_fault(r, fb, "catf"); }
                    else { VP_CHECK(cx, res < 0, "str:catf_return", "catf returned %d for a conversion the C formatter refuses (it returns %d; template %d)", res, want, f.id); }
                    verify(r, s, "catf whose conversion fails");
                    break;
                }
                if (res != want || (want == 0 && g_shim.faults > fb))
                {
                    // 0 is the documented failure value
                    if (res == 0 && g_shim.faults > fb)
                    {
                        expect_fault(r, fb, "catf");
                        verify(r, s, "failed catf");
                        if (r.fault_mode == 1 && attempt == 0) { continue; }
                        break;
                    }
                    cx.fail("str:catf_return", "catf returned %d, the C formatter produces %d bytes (template %d)", res, want, f.id);
                }
                if (want > 0 && size_t(want) + 1 == spare) { cx.label(L_FMT_EXACT_FIT); r.nt = true; }
                if (size_t(want) + 1 > spare) { cx.label(L_FMT_GROW); }
                s.m.append(ref, size_t(want));
                s.term = true;
                verify(r, s, "catf");
                break;
            }
            break; }
        case 6: {
            uint32_t cp;
            uint32_t &last_cp = r.last_cp; // the code point appended before in this history
            uint8_t cb = t.u8();
            if (cb >= 240)
            {
                // the halves of a UTF-16 surrogate pair one after the other, the same code point again: the encoder may not look back
                uint16_t w = t.u16();
                if (last_cp >= 0xD800u && last_cp < 0xDC00u && (cb & 1)) { cp = 0xDC00u + w % 0x400u; }
                else if (cb & 2) { cp = 0xD800u + w % 0x400u; }
                else { cp = last_cp ? last_cp : 0xDC00u; }
            }
            else switch (cb % 8)
            {
            case 0: cp = 1 + t.u8() % 0x7F; break;
            case 1: cp = 0x80 + t.u16() % 0x780; break;
            case 2: cp = 0x800 + t.u16() % 0xF800; break;
            case 3: cp = 0x10000 + t.u32() % 0x1F0000; break;
            case 4: cp = 0x200000 + t.u32() % 0x3E00000; break;
            case 5: cp = 0x4000000 + t.u32() % 0x7C000000; break;
            case 6: { static uint32_t const b[] = {0x7F, 0x80, 0x7FF, 0x800, 0xFFFF, 0x10000, 0x1FFFFF, 0x200000, 0x3FFFFFF, 0x4000000, 0x7FFFFFFF}; cp = b[t.u8() % 11]; break; }
            default: cp = 1 + t.u32() % 0x7FFFFFFF; break;
            }
            last_cp = cp;
            char enc[8];
            size_t n = ref_utf8(cp, enc);
            for (int attempt = 0; attempt < 2; ++attempt)
            {
                uint64_t fb = g_shim.faults;
                cx.log("s%d utf_catc(U+%X) ...\n", si, cp);
                int rc = a_utf_catc(s.s, cp);
                if (rc != A_SUCCESS)
                {
                    expect_fault(r, fb, "utf_catc");
                    verify(r, s, "failed utf_catc");
                    if (r.fault_mode == 1 && attempt == 0) { continue; }
                    break;
                }
                s.m.append(enc, n);
                s.term = true;
                cx.label(L_UTF);
                cx.label(L_HIGH_BYTE);
                verify(r, s, "utf_catc");
                break;
            }
            break; }
        case 7: {
            cx.log("s%d getc%s ...\n", si, under ? "_" : "");
            int c = under ? a_str_getc_(s.s) : a_str_getc(s.s);
            if (s.m.empty()) { VP_CHECK(cx, c == ~0, "str:getc_empty", "getc on an empty string returned %d", c); }
            else
            {
                VP_CHECK(cx, (char)c == s.m.back(), "str:getc_value", "getc returned 0x%02x, last byte is 0x%02x", c & 0xFF, (unsigned char)s.m.back());
                s.m.pop_back();
                s.term = !under;
            }
            verify(r, s, "getc");
            break; }
        case 8: {
            size_t n;
            switch (t.u8() % 5)
            {
            case 0: n = 0; break;
            case 1: n = s.m.size(); break;
            case 2: n = s.m.size() + 1; break;
            case 3: n = SIZE_MAX; break;
            default: n = t.u8() % (s.m.size() + 2); break;
            }
            bool with_dst = t.coin();
            size_t take = std::min(n, s.m.size());
            char *dst = with_dst ? (char *)malloc(take ? take : 1) : nullptr; // exact size
            cx.log("s%d getn%s(%zu, %s) ...\n", si, under ? "_" : "", n, with_dst ? "dst" : "null");
            size_t got = under ? a_str_getn_(s.s, dst, n) : a_str_getn(s.s, dst, n);
            VP_CHECK(cx, got == take, "str:getn_return", "getn(%zu) of %zu returned %zu", n, s.m.size(), got);
            if (with_dst && take) { VP_CHECK(cx, memcmp(dst, s.m.data() + s.m.size() - take, take) == 0, "str:getn_data", "getn copied the wrong bytes"); }
            free(dst);
            s.m.resize(s.m.size() - take);
            if (take) { s.term = !under; }
            cx.label(L_GETN);
            verify(r, s, "getn");
            break; }
        case 9: {
            int which = t.u8() % 3; // 0 trim 1 ltrim 2 rtrim
            std::string set;
            uint8_t sc = t.u8() % 6;
            if (sc == 0) { set = ""; } // default white space
            else if (sc == 1) { set = std::string(" \t", 2); }
            else if (sc == 2 && !s.m.empty()) { set = std::string(1, s.m[0]) + std::string(1, s.m.back()); }
            else if (sc == 3) { set = std::string("\0x", 2); }
            else if (sc == 4 && !s.m.empty())
            {
                // every byte of the content: the trim empties the string
                set = s.m;
                if (set.size() > 64) { set.resize(64); }
            }
            else
            {
                size_t n = 1 + t.u8() % 5;
                for (size_t i = 0; i < n; ++i) { set.push_back(char(t.u8())); }
            }
            auto in_set = [&](char c) {
                if (set.empty()) { return c == ' ' || (c >= '\t' && c <= '\r'); }
                return set.find(c) != std::string::npos;
            };
            std::string want = s.m;
            if (which != 1) { while (!want.empty() && in_set(want.back())) { want.pop_back(); } }
            if (which != 2)
            {
                size_t i = 0;
                while (i < want.size() && in_set(want[i])) { ++i; }
                want.erase(0, i);
            }
            char *blk = (char *)malloc(set.size() ? set.size() : 1);
            memcpy(blk, set.data(), set.size());
            cx.log("s%d %strim%s(set of %zu) len %zu -> %zu ...\n", si, which == 0 ? "" : which == 1 ? "l" : "r", under ? "_" : "", set.size(), s.m.size(), want.size());
            if (which == 0) { under ? a_str_trim_(s.s, blk, set.size()) : a_str_trim(s.s, blk, set.size()); }
            else if (which == 1) { under ? a_str_ltrim_(s.s, blk, set.size()) : a_str_ltrim(s.s, blk, set.size()); }
            else { under ? a_str_rtrim_(s.s, blk, set.size()) : a_str_rtrim(s.s, blk, set.size()); }
            free(blk);
            if (want.size() < s.m.size())
            {
                if (!under) { s.term = true; }
                else { s.term = false; }
                if (want.empty() && s.m.size() >= 2) { cx.label(L_TRIM_EMPTIES); r.nt = true; }
            }
            s.m = want;
            verify(r, s, "trim");
            break; }
        case 10: {
            size_t mem = a_str_mem(s.s);
            size_t n = mem ? t.u8() % (mem + 1) : 0;
            size_t old = s.m.size();
            bool over = t.u8() % 8 == 0;
            if (over)
            {
                int rc = a_str_setn(s.s, mem + 1 + t.u8());
                VP_CHECK(cx, rc == A_OBOUNDS, "str:setn_return", "setn beyond the capacity returned %d", rc);
                verify(r, s, "refused setn");
                break;
            }
            cx.log("s%d setn%s(%zu) from %zu (mem %zu)\n", si, under ? "_" : "", n, old, mem);
            if (under) { a_str_setn_(s.s, n); }
            else
            {
                int rc = a_str_setn(s.s, n);
                VP_CHECK(cx, rc == A_SUCCESS, "str:setn_return", "setn(%zu) within capacity %zu returned %d", n, mem, rc);
            }
            if (n > old)
            {
                // the new bytes are unspecified: give them content
                for (size_t i = old; i < n; ++i)
                {
                    char c = char('0' + i % 10);
                    a_str_ptr(s.s)[i] = c;
                    s.m.push_back(c);
                }
                cx.label(L_SETN_GROW);
            }
            else { s.m.resize(n); }
            if (n != old) { s.term = false; }
            verify(r, s, "setn");
            break; }
        case 11: {
            size_t want = t.u8() % 97;
            {
                // occasionally a large reserve (page-sized and beyond): capacity far above the content
                uint8_t big = t.u8();
                static size_t const res[] = {200, 1000, 4095, 4096, 4097, 4104, 5000, 8192, 12288, 65536};
                if (big % 8 == 0) { want = res[(big >> 3) % 10] + (big >> 7); cx.label(L_BIG_RESERVE); }
            }
            // the unconditional form a_str_setm_ sets the capacity to what is asked (rounded up to a pointer): also downwards, to
            // the content length or a little above it (shrink to fit); asked for less than the length it would cut the content off,
            // which is the caller's error and not generated
            bool exactly = (r.opno % 5) == 2;
            if (exactly)
            {
                static size_t const slack[] = {0, 1, 2, 8, 9, 64};
                want = a_str_len(s.s) + slack[want % 6];
            }
            for (int attempt = 0; attempt < 2; ++attempt)
            {
                uint64_t fb = g_shim.faults;
                cx.log("s%d setm%s(%zu) mem %zu ...\n", si, exactly ? "_" : "", want, a_str_mem(s.s));
                int rc = exactly ? a_str_setm_(s.s, want) : a_str_setm(s.s, want);
                if (exactly && rc == A_SUCCESS)
                {
                    size_t up = (want + sizeof(void *) - 1) / sizeof(void *) * sizeof(void *);
                    VP_CHECK(cx, a_str_mem(s.s) == up, "str:setm_capacity", "setm_(%zu): capacity %zu, the request rounded up to a pointer is %zu", want, (size_t)a_str_mem(s.s), up);
                    if (up == s.m.size()) { s.term = false; } // the terminator, if there was one, lay outside the new capacity
                    cx.label(L_SETM_EXACT);
                    verify(r, s, "setm_");
                    break;
                }
                if (rc != A_SUCCESS)
                {
                    VP_CHECK(cx, rc == A_OMEMORY, "str:setm_return", "setm returned %d", rc);
                    expect_fault(r, fb, "setm");
                    verify(r, s, "failed setm");
                    if (r.fault_mode == 1 && attempt == 0) { continue; }
                    break;
                }
                VP_CHECK(cx, a_str_mem(s.s) >= want && a_str_mem(s.s) >= oldmem, "str:setm_capacity", "setm(%zu): capacity %zu (was %zu)", want, (size_t)a_str_mem(s.s), oldmem);
                verify(r, s, "setm");
                break;
            }
            break; }
        case 12: {
            size_t len = a_str_len(s.s), mem = a_str_mem(s.s);
            bool full = len == mem && len > 0;
            for (int attempt = 0; attempt < 2; ++attempt)
            {
                uint64_t fb = g_shim.faults;
                cx.log("s%d exit (len %zu mem %zu) ...\n", si, len, mem);
                bool had = a_str_ptr(s.s) != nullptr;
                char *p = a_str_exit(s.s);
                if (had && !p)
                {
                    // handing over may need room for the terminator; only an allocation failure may prevent it
                    expect_fault(r, fb, "exit");
                    verify(r, s, "failed exit");
                    if (r.fault_mode == 1 && attempt == 0) { continue; }
                    break;
                }
                if (p)
                {
                    bool ok = memcmp(p, s.m.data(), s.m.size()) == 0 && p[s.m.size()] == 0;
                    a_alloc(p, 0); // ownership was handed over: the caller releases it
                    VP_CHECK(cx, ok, "str:exit_content", "exit returned a block whose first len+1 bytes are not content + NUL");
                    cx.label(L_EXIT);
                    if (full) { cx.label(L_EXIT_FULL); }
                }
                else { VP_CHECK(cx, s.m.empty(), "str:exit_null", "exit of a non-empty string returned null"); }
                s.m.clear();
                s.term = false;
                VP_CHECK(cx, a_str_ptr(s.s) == nullptr && a_str_mem(s.s) == 0, "str:exit_leaves_object", "exit left storage in the object");
                verify(r, s, "exit");
                break;
            }
            break; }
        case 13:
            a_str_swap(r.ss[0].s, r.ss[1].s);
            std::swap(r.ss[0].m, r.ss[1].m);
            std::swap(r.ss[0].term, r.ss[1].term);
            cx.label(L_SWAP);
            cx.log("swap\n");
            verify(r, r.ss[0], "swap");
            verify(r, r.ss[1], "swap");
            break;
        case 14: {
            // index accessors and the UTF-8 counter of the string object, the raw comparison
            size_t len = a_str_len(s.s), mem = a_str_mem(s.s);
            char *base = a_str_ptr(s.s);
            static size_t const pool[] = {0, 1, 2, 7, 8, 63, 64, size_t(-1), size_t(-2), size_t(1) << 63};
            size_t idx = t.coin() ? pool[t.u8() % 10] : (len ? t.u16() % (len + 2) : t.u8() % 3);
            if (t.u8() % 4 == 0) { idx = mem ? mem - (t.u8() % 2) : 0; }
            cx.log("s%d accessors idx %zu\n", si, idx);
            char *at = a_str_at(s.s, idx);
            VP_CHECK(cx, at == (idx < mem ? base + idx : nullptr), "str:at", "a_str_at(%zu) with capacity %zu returned %p, storage at %p", idx, mem, (void *)at, (void *)base);
            if (idx < mem) { VP_CHECK(cx, a_str_at_(s.s, idx) == base + idx, "str:at", "a_str_at_(%zu) is not storage + index", idx); }
            if (len)
            {
                // documented domain of a_str_of: -length < idx < length; negative counts from the end
                ptrdiff_t d = ptrdiff_t(t.u16() % (2 * len - 1)) - ptrdiff_t(len - 1);
                char *of = a_str_of(s.s, d);
                size_t want = d >= 0 ? size_t(d) : len - size_t(-d);
                VP_CHECK(cx, of == base + want && (unsigned char)*of == (unsigned char)s.m[want], "str:of", "a_str_of(%td) on length %zu is not the character at %zu", d, len, want);
            }
            {
                a_size st1 = 7, st2 = 9;
                a_size c1 = a_utf_len(s.s, &st1), c2 = a_utf_length(base, len, &st2);
                VP_CHECK(cx, c1 == c2 && st1 == st2 && a_utf_len(s.s, nullptr) == c1, "str:utf_len", "a_utf_len = %zu (stop %zu), a_utf_length on the same bytes = %zu (stop %zu)", (size_t)c1, (size_t)st1, (size_t)c2, (size_t)st2);
            }
            {
                S &o = r.ss[si ^ 1];
                size_t n0 = t.coin() ? len : (len ? t.u16() % (len + 1) : 0), ol = a_str_len(o.s), n1 = t.coin() ? ol : (ol ? t.u16() % (ol + 1) : 0);
                // also: the second block inside the first string's own storage (a prefix of itself, or the same block)
                bool self = t.u8() % 3 == 0;
                if (self) { n1 = t.coin() ? n0 : (len ? t.u16() % (len + 1) : 0); }
                char const *p1 = self ? base : a_str_ptr(o.s);
                std::string const &m1 = self ? s.m : o.m;
                int got = a_str_cmp_(base, n0, p1, n1);
                int want = 0;
                if (base && p1) { want = memcmp(s.m.data(), m1.data(), std::min(n0, n1)); }
                if (self)
                {
                    int g2 = a_str_cmpn(s.s, base, n1);
                    int w2 = (len > n1) - (len < n1);
                    VP_CHECK(cx, (g2 > 0) == (w2 > 0) && (g2 < 0) == (w2 < 0), "str:cmp", "a_str_cmpn of a string of %zu bytes with the first %zu bytes of its own storage returned %d", len, n1, g2);
                }
                if (!want) { want = (n0 > n1) - (n0 < n1); }
                VP_CHECK(cx, (got > 0) == (want > 0) && (got < 0) == (want < 0), "str:cmp", "a_str_cmp_ on prefixes of %zu / %zu bytes returned %d, byte-wise order says %d", n0, n1, got, want);
            }
            cx.label(L_ACCESSORS);
            verify(r, s, "accessors");
            break; }
        default:
            a_str_dtor(s.s);
            a_str_ctor(s.s);
            s.m.clear();
            s.term = false;
            cx.log("s%d dtor+ctor\n", si);
            verify(r, s, "dtor+ctor");
            break;
        }
        if (a_str_mem(s.s) > oldmem && oldmem)
        {
            cx.label(L_REALLOC);
            r.nt = true;
        }
    }
    for (int k = 0; k < 2; ++k)
    {
        S &s = r.ss[k];
        if (s.heap) { a_str_die(s.s); }
        else { a_str_dtor(s.s); }
        s.s = nullptr;
    }
    shim_check_empty(cx, "after destroying the strings");
    if (requests_out) { *requests_out = g_shim.requests; }
#ifndef VP_FAULT
    if (r.nt) { cx.rep->nontrivial = true; }
#endif
}

static void run_case(Tape &t0, Ctx &cx)
{
#ifndef VP_FAULT
    run_history(t0, cx, 0, 0, nullptr);
    g_shim.reset();
#else
    uint64_t N = 0;
    Tape t = t0;
    bool wr = cx.rep->want_render;
    run_history(t, cx, 0, 0, &N);
    cx.rep->want_render = false;
    if (N > 96) { N = 96; }
    uint64_t h = cx.hash.h;
    for (uint64_t k = 1; k <= N; ++k)
    {
        for (int mode = 1; mode <= 2; ++mode)
        {
            Tape t2 = t0;
            try
            {
                run_history(t2, cx, k, mode, nullptr);
            }
            catch (vp_fail const &)
            {
                char buf[96];
                snprintf(buf, sizeof(buf), " [allocation request %llu of %llu fails, %s]", (unsigned long long)k, (unsigned long long)N, mode == 1 ? "single fault" : "all later requests fail too");
                cx.rep->msg += buf;
                cx.hash.h = h;
                g_shim.reset();
                throw;
            }
            cx.metric(1, double(2 * (k - 1) + mode));
        }
    }
    cx.rep->subcases += 2 * N;
    cx.hash.h = h;
    cx.hash.add(N);
    cx.rep->want_render = wr;
    cx.log("fault enumeration: %llu allocation requests x 2 modes\n", (unsigned long long)N);
    if (N >= 1 && cx.has(L_FAULT_LATE)) { cx.rep->nontrivial = true; }
    g_shim.reset();
#endif
}
VP_DEFINE_RUN(run_case)
