// C08 — LU (partial pivoting), LDL^T and Cholesky: shape of the factors, componentwise
// reconstruction / solve / inverse residual bounds in long double, determinant family,
// and "exactly vanishing pivot => failure" on classes whose elimination is exact.
#include "../drv/vp.h"
#include <cmath>
#include <vector>
extern "C" {
#include "a/linalg.h"
}
#ifndef VP_MAXN
#define VP_MAXN 12
#endif
#include <limits>
typedef long double LD;
typedef a_real R; // the library's real type: float, double or long double (A_SIZE_REAL)
static LD const U_ = LD(std::numeric_limits<R>::epsilon()) / 2; // unit roundoff of a_real
// The residuals are evaluated in long double. For a_real = long double the check's own rounding is of the order of the
// bound's unit, so the safety constant is raised (observed ratios on the unchanged tree stay below 0.3 of the bound).
static LD const CSAFE = sizeof(R) > 8 ? 6.0L : 4.0L;
// type-dependent ranges: scalings are chosen so that no product of two entries leaves the normal range of a_real
static int const SC_GLOBAL_NUM = sizeof(R) == 4 ? 3 : (sizeof(R) == 8 ? 30 : 480); // global scale exponent = rd_int(100) * NUM / 10
static int const SC_LIM = sizeof(R) == 4 ? 5 : (sizeof(R) == 8 ? 40 : 600);       // per-row / per-column exponent limit
static int const SC_EXT = (std::numeric_limits<R>::max_exponent - 14) / 2;                // 505 / 57 / 8185: symmetric scaling by 2^(s_i+s_j)
static LD const FLOOR_ = sizeof(R) == 4 ? 1e-40L : (sizeof(R) == 8 ? 1e-300L : 1e-4900L);
static LD const DET_HUGE = sizeof(R) == 4 ? 1e36L : (sizeof(R) == 8 ? 1e300L : 1e4900L);
static LD const DET_TINY = sizeof(R) == 4 ? 1e-34L : (sizeof(R) == 8 ? 1e-290L : 1e-4890L);
static R const BIGV = std::numeric_limits<R>::max() / 1024;
static bool same_bits(R a, R b) { return memcmp(&a, &b, sizeof(R) > 8 ? 10 : sizeof(R)) == 0; } // x87 long double: 10 value bytes + padding
static void hashR(Ctx &cx, R v)
{
    int e = 0;
    LD m = frexpl(LD(v), &e);
    cx.hash.addd(double(m));
    cx.hash.add(unsigned(e));
}
// the determinant routines form a running product: every prefix must stay representable for the final value to be meaningful
static bool prefixes_ok(std::vector<LD> const &f, LD start, bool square_at_end)
{
    LD r = start;
    for (LD v : f)
    {
        r *= v;
        if (!(fabsl(r) < DET_HUGE && fabsl(r) > DET_TINY)) { return false; }
    }
    if (square_at_end) { r *= r; if (!(fabsl(r) < DET_HUGE && fabsl(r) > DET_TINY)) { return false; } }
    return true;
}
static LD gam(unsigned k) { return (k * U_) / (1 - k * U_); }

enum { L_PLU, L_LDL, L_LLT, L_ROW_EXCHANGE, L_SINGULAR_CLASS, L_MUST_SUCCEED, L_BAD_SCALE, L_NEAR_SINGULAR, L_GLOBAL_SCALE, L_LAST_STEP_SWAP, L_HILBERT, L_N_GE_8, L_FAILED_OK, L_PERM_NOT_INVOLUTION, L_DET_UNREPRESENTABLE, L_LARGE_ORDER, L_EXTREME_SCALE, L_ZERO_DIAGONAL, L_DUP_ADJACENT, L_NEAR_TIE_PIVOT };
static char const *const labels[] = {"plu", "ldl", "llt", "row_exchange_happened", "exactly_singular_class", "robustly_nonsingular_class", "rows_cols_scaled_2^k",
                                     "near_singular", "global_scale_2^s", "exchange_at_last_step", "hilbert_like", "n_ge_8", "factorization_reported_failure",
                                     "permutation_not_self_inverse", "determinant_not_representable", "order_13_to_65_pattern_filled", "symmetric_scaling_over_nearly_the_whole_exponent_range", "determinant_family_on_a_given_factor_with_zero_diagonal", "ldl_adjacent_rows_and_columns_bit_identical", "pivot_candidates_agree_to_2^-21_or_closer", nullptr};
static char const *const metrics[] = {"max_reconstruction_ratio", "max_solve_ratio", "max_inverse_ratio", "max_det_ratio", "max_lndet_ratio", nullptr};
static uint8_t const dict[] = {3, 4, 7, 8, 9, 10, 11};
static vp_info const info = {"C08", "factor", "", labels, metrics, 700, dict, sizeof(dict)};
extern "C" vp_info const *vp_get_info(void) { return &info; }

struct Blk
{
    R *p;
    explicit Blk(size_t n) { p = (R *)malloc(sizeof(R) * (n ? n : 1)); for (size_t i = 0; i < n; ++i) { p[i] = -BIGV * R(0.777); } }
    ~Blk() { free(p); }
    Blk(Blk const &) = delete;
};

// large orders: entries come from a generator seeded by the tape (a tape of n^2 entries would be too long to mutate usefully)
static bool g_pat = false;
static uint64_t g_state = 0;
static uint32_t pat_next()
{
    g_state = g_state * 6364136223846793005ull + 1442695040888963407ull;
    return uint32_t(g_state >> 33);
}
static R rd_real(Tape &t, int emin, int emax)
{
    uint32_t w = g_pat ? pat_next() * 2u + 1u : t.u32();
    int e = emin + int((g_pat ? pat_next() : t.u8()) % unsigned(emax - emin + 1));
    return R(std::ldexp(double(int32_t(w | 1)) / 2147483648.0, e));
}
static int rd_int(Tape &t, int lim) { return int((g_pat ? pat_next() : t.u8()) % unsigned(2 * lim + 1)) - lim; }

static bool finite_all(R const *p, size_t n)
{
    for (size_t i = 0; i < n; ++i) { if (!std::isfinite(p[i])) { return false; } }
    return true;
}

// general matrix classes; returns class id. Fills M (n x n).
static int gen_general(Tape &t, Ctx &cx, unsigned n, std::vector<R> &M, int &expect /* 0 none, 1 must fail, 2 must succeed */)
{
    int cls = t.u8() % 14;
    expect = 0;
    M.assign(size_t(n) * n, R(0));
    auto at = [&](unsigned i, unsigned j) -> R & { return M[size_t(i) * n + j]; };
    switch (cls)
    {
    case 0:
        for (auto &v : M) { v = R(rd_int(t, 9)); }
        break;
    case 1:
        for (auto &v : M) { v = rd_real(t, -3, 3); }
        break;
    case 2: {
        std::vector<int> rs(n), cs(n);
        int lim = int(8 * SC_LIM / (n + 1));
        if (lim > SC_LIM) { lim = SC_LIM; }
        for (unsigned i = 0; i < n; ++i) { rs[i] = rd_int(t, lim); cs[i] = rd_int(t, lim); }
        for (unsigned i = 0; i < n; ++i) { for (unsigned j = 0; j < n; ++j) { at(i, j) = std::ldexp(rd_real(t, -1, 1), rs[i] + cs[j]); } }
        cx.label(L_BAD_SCALE);
        break; }
    case 3: {
        std::vector<R> u(n), v(n);
        for (unsigned i = 0; i < n; ++i) { u[i] = R(rd_int(t, 5) + 0.5); v[i] = R(rd_int(t, 5) + 0.25); }
        for (unsigned i = 0; i < n; ++i) { for (unsigned j = 0; j < n; ++j) { at(i, j) = u[i] * v[j] + std::ldexp(rd_real(t, 0, 0), -30); } }
        cx.label(L_NEAR_SINGULAR);
        break; }
    case 4: {
        // unit-ish lower structure whose (n-2,n-2) pivot vanishes until the last row is exchanged in
        for (unsigned i = 0; i < n; ++i) { for (unsigned j = 0; j < n; ++j) { at(i, j) = R(i == j ? 4 + rd_int(t, 2) : (j > i ? rd_int(t, 3) : 0)); } }
        if (n >= 2)
        {
            at(n - 2, n - 2) = 0;
            at(n - 1, n - 2) = R(3 + (t.u8() % 3));
            at(n - 1, n - 1) = R(rd_int(t, 3));
            if (at(n - 2, n - 1) == 0) { at(n - 2, n - 1) = 1; }
        }
        cx.label(L_LAST_STEP_SWAP);
        break; }
    case 5: {
        double a = (t.u8() % 8) * 0.25;
        bool vander = t.coin();
        for (unsigned i = 0; i < n; ++i)
        {
            for (unsigned j = 0; j < n; ++j) { at(i, j) = R(vander ? std::pow(0.5 + 0.25 * i + a * 0.1, double(j)) : 1.0 / (double(i + j + 1) + a)); }
        }
        cx.label(L_HILBERT);
        break; }
    case 6: {
        int s = rd_int(t, 100) * SC_GLOBAL_NUM / 10;
        for (auto &v : M) { v = std::ldexp(rd_real(t, -2, 2), s); }
        cx.label(L_GLOBAL_SCALE);
        break; }
    case 7: {
        // strictly diagonally dominant integers: must succeed
        for (unsigned i = 0; i < n; ++i)
        {
            int s = 0;
            for (unsigned j = 0; j < n; ++j) { if (i != j) { int v = rd_int(t, 5); at(i, j) = R(v); s += v < 0 ? -v : v; } }
            at(i, i) = R((t.coin() ? 1 : -1) * (s + 1 + int(t.u8() % 4)));
        }
        expect = 2;
        cx.label(L_MUST_SUCCEED);
        break; }
    case 8: {
        bool reals = t.coin();
        for (auto &v : M) { v = reals ? rd_real(t, -3, 3) : R(rd_int(t, 9)); }
        unsigned c = t.u8() % n;
        for (unsigned i = 0; i < n; ++i) { at(i, c) = 0; }
        expect = 1;
        cx.label(L_SINGULAR_CLASS);
        break; }
    case 9: {
        bool reals = t.coin();
        for (auto &v : M) { v = reals ? rd_real(t, -3, 3) : R(rd_int(t, 9)); }
        if (n >= 2)
        {
            unsigned a = t.u8() % n, b = t.u8() % n;
            if (a == b) { b = (a + 1) % n; }
            for (unsigned j = 0; j < n; ++j) { at(b, j) = at(a, j); }
            expect = 1;
            cx.label(L_SINGULAR_CLASS);
        }
        break; }
    case 10: {
        for (auto &v : M) { v = R(rd_int(t, 9)); }
        unsigned r = t.u8() % n;
        for (unsigned j = 0; j < n; ++j) { at(r, j) = 0; }
        expect = 1;
        cx.label(L_SINGULAR_CLASS);
        break; }
    case 12: {
        // badly scaled block-diagonal matrix: up to four uncoupled diagonal blocks of small integers, block b multiplied by
        // 4^S_b with S_b anywhere in +-SC_EXT (pivots from ~min to ~max of the type within one matrix, no product mixes scales)
        std::vector<unsigned> blk(n);
        std::vector<int> sx(n);
        unsigned b = 0;
        int sb = int((g_pat ? pat_next() : t.u16()) % unsigned(2 * SC_EXT + 1)) - SC_EXT;
        for (unsigned i = 0; i < n; ++i)
        {
            if (i && b < 3 && (g_pat ? pat_next() : t.u8()) % 3 == 0)
            {
                ++b;
                sb = int((g_pat ? pat_next() : t.u16()) % unsigned(2 * SC_EXT + 1)) - SC_EXT;
            }
            blk[i] = b;
            sx[i] = sb;
        }
        for (unsigned i = 0; i < n; ++i) { for (unsigned j = 0; j < n; ++j) { at(i, j) = blk[i] == blk[j] ? std::ldexp(R(rd_int(t, 9)), sx[i] + sx[j]) : R(0); } }
        cx.label(L_BAD_SCALE);
        cx.label(L_EXTREME_SCALE);
        break; }
    case 13: {
        // near-ties in the pivot search: in the first column (and, through the elimination, in later ones) two candidates agree
        // to a relative 2^-21 .. 2^-50 without being equal, in either order and with either sign; the larger one has to win
        for (auto &v : M) { v = rd_real(t, -3, 3); }
        if (n >= 2)
        {
            unsigned i1 = t.u8() % n, i2 = t.u8() % n;
            if (i2 == i1) { i2 = (i1 + 1) % n; }
            R big = 0;
            for (unsigned i = 0; i < n; ++i) { big = std::fmax(big, std::fabs(at(i, 0))); }
            R top = big * R(1.5) + R(1);
            uint8_t kb = t.u8();
            R delta = std::ldexp(R(1), -21 - int(kb % 30));
            at(i1, 0) = (kb & 64) ? -top : top;
            at(i2, 0) = ((kb & 128) ? -top : top) * (R(1) - delta);
            cx.label(L_NEAR_TIE_PIVOT);
        }
        break; }
    default:
        for (auto &v : M) { v = rd_real(t, -20, 20); }
        break;
    }
    return cls;
}

// ---------------------------------------------------------------------------------------
static std::vector<R> g_extracted_x, g_extracted_b; // a solve done with the extracted factors, judged once the residual helper exists
static void check_plu(Tape &t, Ctx &cx, unsigned n)
{
    std::vector<R> A0;
    int expect;
    int cls = gen_general(t, cx, n, A0, expect);
    for (R v : A0) { hashR(cx, v); }
    Blk A(size_t(n) * n);
    memcpy(A.p, A0.data(), sizeof(R) * n * n);
    a_uint *p = (a_uint *)malloc(sizeof(a_uint) * n);
    struct FreeP { a_uint *p; ~FreeP() { free(p); } } fp{p};
    int sign = 0;
    cx.log("plu n=%u class %d expect %d\n", n, cls, expect);
    int rc = a_real_plu(n, A.p, p, &sign);
    cx.label(L_PLU);
    if (rc != A_SUCCESS)
    {
        cx.label(L_FAILED_OK);
        VP_CHECK(cx, expect != 2, "plu:failed_on_nonsingular", "a_real_plu reported failure on a strictly diagonally dominant integer matrix (n=%u)", n);
        if (expect == 1 && n >= 4) { cx.rep->nontrivial = true; }
        return;
    }
    VP_CHECK(cx, expect != 1, "plu:singular_not_reported", "a_real_plu reported success on an exactly singular matrix (class %d: zero column / identical rows / zero row, n=%u)", cls, n);
    if (!finite_all(A.p, size_t(n) * n))
    {
        ++cx.rep->excluded;
        return;
    }
    // permutation + parity
    std::vector<int> seen(n, 0);
    for (unsigned i = 0; i < n; ++i)
    {
        VP_CHECK(cx, p[i] < n && !seen[p[i]], "plu:not_a_permutation", "p is not a permutation of 0..n-1 (p[%u]=%u)", i, p[i]);
        seen[p[i]] = 1;
    }
    {
        int par = 1;
        std::vector<int> vis(n, 0);
        bool exchanged = false, involution = true;
        for (unsigned i = 0; i < n; ++i)
        {
            if (p[i] != i) { exchanged = true; }
            if (p[p[i]] != i) { involution = false; }
            if (vis[i]) { continue; }
            unsigned len = 0;
            for (unsigned j = i; !vis[j]; j = p[j]) { vis[j] = 1; ++len; }
            if ((len & 1) == 0) { par = -par; }
        }
        VP_CHECK(cx, sign == par, "plu:sign_parity", "reported sign %d, parity of the permutation %d", sign, par);
        if (exchanged) { cx.label(L_ROW_EXCHANGE); }
        if (!involution) { cx.label(L_PERM_NOT_INVOLUTION); }
        if (n >= 4 && exchanged) { cx.rep->nontrivial = true; }
    }
    // factors
    std::vector<LD> L(size_t(n) * n, 0), Um(size_t(n) * n, 0);
    for (unsigned i = 0; i < n; ++i)
    {
        for (unsigned j = 0; j < n; ++j)
        {
            R v = A.p[size_t(i) * n + j];
            if (j < i)
            {
                L[size_t(i) * n + j] = v;
                VP_CHECK(cx, fabsl(LD(v)) <= 1.0L, "plu:multiplier_gt_1", "multiplier L(%u,%u) = %.21Lg exceeds 1 under partial pivoting", i, j, LD(v));
            }
            else { Um[size_t(i) * n + j] = v; }
        }
        L[size_t(i) * n + i] = 1;
    }
    // |P A - L U| <= c gamma_n |L||U|
    for (unsigned i = 0; i < n; ++i)
    {
        for (unsigned j = 0; j < n; ++j)
        {
            LD s = 0, sa = 0;
            for (unsigned k = 0; k <= i && k <= j; ++k)
            {
                LD v = L[size_t(i) * n + k] * Um[size_t(k) * n + j];
                s += v;
                sa += fabsl(v);
            }
            LD pa = A0[size_t(p[i]) * n + j];
            LD bound = CSAFE * gam(n) * sa + FLOOR_;
            LD err = fabsl(pa - s);
            cx.metric(0, double(err / bound));
            if (!(err <= bound)) { cx.fail("plu:reconstruction", "|PA - LU|(%u,%u) = %.3Lg exceeds %.3Lg (n=%u, class %d)", i, j, err, bound, n, cls); }
        }
    }
    // extraction helpers equal their definitions
    {
        Blk P(size_t(n) * n), Pt(size_t(n) * n), Lm(size_t(n) * n), Ux(size_t(n) * n);
        a_real_plu_P(n, p, P.p);
        a_real_plu_P_(n, p, Pt.p);
        a_real_plu_L(n, A.p, Lm.p);
        a_real_plu_U(n, A.p, Ux.p);
        for (unsigned i = 0; i < n; ++i)
        {
            for (unsigned j = 0; j < n; ++j)
            {
                VP_CHECK(cx, P.p[size_t(i) * n + j] == R(p[i] == j ? 1 : 0), "plu:P", "plu_P(%u,%u) wrong", i, j);
                VP_CHECK(cx, Pt.p[size_t(j) * n + i] == R(p[i] == j ? 1 : 0), "plu:P_", "plu_P_ is not the transpose of P at (%u,%u)", j, i);
                VP_CHECK(cx, Lm.p[size_t(i) * n + j] == R(L[size_t(i) * n + j]), "plu:L", "plu_L(%u,%u) wrong", i, j);
                VP_CHECK(cx, Ux.p[size_t(i) * n + j] == R(Um[size_t(i) * n + j]), "plu:U", "plu_U(%u,%u) wrong", i, j);
            }
        }
        if (cls != 12)
        {
            // forward / back substitution with the extracted factors (the documented arguments of plu_lower / plu_upper)
            std::vector<R> b2(n);
            Blk pb2(n), bb2(n);
            for (unsigned i = 0; i < n; ++i) { b2[i] = R(int((i * 5u + n) % 13u) - 6); bb2.p[i] = b2[i]; }
            a_real_plu_apply(n, p, bb2.p, pb2.p);
            a_real_plu_lower(n, Lm.p, pb2.p);
            a_real_plu_upper(n, Ux.p, pb2.p);
            g_extracted_x.assign(pb2.p, pb2.p + n);
            g_extracted_b = b2;
        }
        else { g_extracted_x.clear(); }
    }
    // |L||U| row sums against |x|: W = P^T |L||U|
    std::vector<LD> W(size_t(n) * n, 0);
    for (unsigned i = 0; i < n; ++i)
    {
        for (unsigned j = 0; j < n; ++j)
        {
            LD sa = 0;
            for (unsigned k = 0; k <= i && k <= j; ++k) { sa += fabsl(L[size_t(i) * n + k] * Um[size_t(k) * n + j]); }
            W[size_t(p[i]) * n + j] = sa;
        }
    }
    auto resid = [&](R const *x, std::vector<R> const &b, char const *sig, char const *what, unsigned mi) {
        for (unsigned i = 0; i < n; ++i)
        {
            LD s = b[i], w = 0;
            for (unsigned j = 0; j < n; ++j)
            {
                s -= LD(A0[size_t(i) * n + j]) * x[j];
                w += W[size_t(i) * n + j] * fabsl(x[j]);
            }
            LD bound = CSAFE * gam(3 * n) * w + FLOOR_;
            cx.metric(mi, double(fabsl(s) / bound));
            if (!(fabsl(s) <= bound)) { cx.fail(sig, "%s: |b - A x|(%u) = %.3Lg exceeds %.3Lg (n=%u, class %d)", what, i, fabsl(s), bound, n, cls); }
        }
    };
    if (!g_extracted_x.empty() && finite_all(g_extracted_x.data(), n)) { resid(g_extracted_x.data(), g_extracted_b, "plu:solve_with_extracted_factors", "plu_lower / plu_upper on the factors returned by plu_L / plu_U", 1); }
    bool extreme = cls == 12; // (with pivots near both ends of the range the solution itself leaves the normal range)
    if (!extreme)
    {
        std::vector<R> b(n);
        bool ints = t.coin();
        for (unsigned i = 0; i < n; ++i) { b[i] = ints ? R(rd_int(t, 20)) : rd_real(t, -4, 4); }
        Blk bb(n), x(n), pb(n);
        memcpy(bb.p, b.data(), sizeof(R) * n);
        a_real_plu_apply(n, p, bb.p, pb.p);
        for (unsigned i = 0; i < n; ++i) { VP_CHECK(cx, pb.p[i] == b[p[i]], "plu:apply", "plu_apply(%u) is not b[p[%u]]", i, i); }
        a_real_plu_solve(n, A.p, p, bb.p, x.p);
        if (finite_all(x.p, n)) { resid(x.p, b, "plu:solve_residual", "plu_solve", 1); }
        else { ++cx.rep->excluded; }
        if (n <= 12)
        {
            // factors, permutation and right-hand side are const inputs of the solve and of both inverses: from read-only memory
            // they have to give the same bits
            RoBlock rA(A.p, sizeof(R) * n * n, sizeof(R)), rp(p, sizeof(a_uint) * n, sizeof(a_uint)), rb(bb.p, sizeof(R) * n, sizeof(R));
            if (rA.p && rp.p && rb.p)
            {
                Blk x2(n), I3(size_t(n) * n), I4(size_t(n) * n), tmp2(n), I5(size_t(n) * n), I6(size_t(n) * n), tmp3(n);
                a_real_plu_solve(n, (R const *)rA.p, (a_uint const *)rp.p, (R const *)rb.p, x2.p);
                for (unsigned i = 0; i < n; ++i) { VP_CHECK(cx, same_bits(x2.p[i], x.p[i]), "plu:readonly_input_differs", "plu_solve on read-only inputs differs at component %u", i); }
                a_real_plu_inv(n, (R const *)rA.p, (a_uint const *)rp.p, tmp2.p, I3.p);
                a_real_plu_inv(n, A.p, p, tmp3.p, I5.p);
                a_real_plu_inv_(n, (R const *)rA.p, (a_uint const *)rp.p, I4.p);
                a_real_plu_inv_(n, A.p, p, I6.p);
                for (size_t i = 0; i < size_t(n) * n; ++i) { VP_CHECK(cx, same_bits(I3.p[i], I5.p[i]) && same_bits(I4.p[i], I6.p[i]), "plu:readonly_input_differs", "plu_inv / plu_inv_ on read-only factors differ at cell %zu", i); }
            }
        }
        {
            unsigned j = t.u8() % n;
            Blk Mx(size_t(n) * n);
            std::vector<R> before(Mx.p, Mx.p + size_t(n) * n), col(n);
            for (unsigned i = 0; i < n; ++i) { Mx.p[size_t(i) * n + j] = pb.p[i]; }
            a_real_plu_lower_(n, A.p, Mx.p + j);
            a_real_plu_upper_(n, A.p, Mx.p + j);
            for (unsigned i = 0; i < n; ++i)
            {
                col[i] = Mx.p[size_t(i) * n + j];
                for (unsigned c = 0; c < n; ++c)
                {
                    if (c != j) { VP_CHECK(cx, same_bits(Mx.p[size_t(i) * n + c], before[size_t(i) * n + c]), "plu:strided_solve_touches_other_column", "plu_lower_/upper_ on column %u changed cell (%u,%u)", j, i, c); }
                }
            }
            if (finite_all(col.data(), n)) { resid(col.data(), b, "plu:strided_solve_residual", "apply + lower_ + upper_ on a column", 1); }
        }
    }
    if (!extreme)
    {
        Blk I1(size_t(n) * n), I2(size_t(n) * n), tmp(n);
        a_real_plu_inv(n, A.p, p, tmp.p, I1.p);
        a_real_plu_inv_(n, A.p, p, I2.p);
        if (finite_all(I1.p, size_t(n) * n) && finite_all(I2.p, size_t(n) * n))
        {
            std::vector<R> col(n), e(n);
            for (unsigned j = 0; j < n; ++j)
            {
                for (unsigned i = 0; i < n; ++i) { e[i] = R(i == j ? 1 : 0); }
                for (unsigned i = 0; i < n; ++i) { col[i] = I1.p[size_t(i) * n + j]; }
                resid(col.data(), e, "plu:inv_residual", "plu_inv column", 2);
                for (unsigned i = 0; i < n; ++i) { col[i] = I2.p[size_t(i) * n + j]; }
                resid(col.data(), e, "plu:inv__residual", "plu_inv_ (in place) column", 2);
            }
        }
        else { ++cx.rep->excluded; }
    }
    // determinant family
    {
        LD prod = sign, lsum = 0, labs = 0;
        int sg = sign;
        std::vector<LD> fac;
        for (unsigned i = 0; i < n; ++i)
        {
            LD d = Um[size_t(i) * n + i];
            fac.push_back(d);
            prod *= d;
            lsum += logl(fabsl(d));
            labs += fabsl(logl(fabsl(d)));
            if (d < 0) { sg = -sg; }
            if (d == 0) { sg = 0; }
        }
        LD det = a_real_plu_det(n, A.p, sign);
        LD lnd = a_real_plu_lndet(n, A.p);
        int sd = a_real_plu_sgndet(n, A.p, sign);
        VP_CHECK(cx, sd == sg, "plu:sgndet", "plu_sgndet %d, sign of det %d", sd, sg);
        LD lb = CSAFE * (n + 2) * U_ * (labs + 1);
        cx.metric(4, double(fabsl(lnd - lsum) / lb));
        VP_CHECK(cx, fabsl(lnd - lsum) <= lb, "plu:lndet", "plu_lndet %.21Lg, sum of log|u_ii| %.21Lg (n=%u)", lnd, lsum, n);
        if (prefixes_ok(fac, sign, false))
        {
            LD db = CSAFE * gam(n + 1) * fabsl(prod);
            cx.metric(3, double(fabsl(det - prod) / db));
            VP_CHECK(cx, fabsl(det - prod) <= db, "plu:det", "plu_det %.21Lg, sign*prod(u_ii) %.21Lg", det, prod);
            // the three agree with one another
            VP_CHECK(cx, fabsl(LD(sd) * expl(LD(lnd)) - det) <= (1e-9L + 2 * expm1l(lb) + 2 * db / fabsl(prod)) * fabsl(prod), "plu:det_family_disagree", "sgndet*exp(lndet) = %.12Lg but det = %.12Lg", LD(sd) * expl(LD(lnd)), det);
        }
        else { cx.label(L_DET_UNREPRESENTABLE); }
    }
}

// ---------------------------------------------------------------------------------------
// symmetric input for LDL^T / LL^T. kind 0: LDL, 1: LLT
static void check_sym(Tape &t, Ctx &cx, unsigned n, int kind)
{
    std::vector<R> A0(size_t(n) * n, R(0));
    auto at = [&](unsigned i, unsigned j) -> R & { return A0[size_t(i) * n + j]; };
    int expect = 0;
    int cls = t.u8() % 11;
    if (cls == 10 && (kind == 1 || n < 2)) { cls = 1; }
    bool extreme = false; // scaling over (nearly) the whole exponent range: factorisation, reconstruction and determinant family only
    auto sym_from = [&](std::vector<R> const &B) {
        for (unsigned i = 0; i < n; ++i) { for (unsigned j = 0; j < n; ++j) { at(i, j) = B[size_t(i) * n + j] + B[size_t(j) * n + i]; } }
    };
    auto bbt = [&](std::vector<R> const &B, R delta) {
        for (unsigned i = 0; i < n; ++i)
        {
            for (unsigned j = 0; j < n; ++j)
            {
                LD s = 0;
                for (unsigned k = 0; k < n; ++k) { s += LD(B[size_t(i) * n + k]) * B[size_t(j) * n + k]; }
                at(i, j) = R(s) + (i == j ? delta : R(0));
            }
        }
    };
    std::vector<R> B(size_t(n) * n);
    switch (cls)
    {
    case 0: // SPD integers B B^T + delta I
        for (auto &v : B) { v = R(rd_int(t, 4)); }
        bbt(B, R(1 + t.u8() % 4));
        if (kind == 1) { expect = 2; cx.label(L_MUST_SUCCEED); }
        break;
    case 10: {
        // LDL^T only: row / column k+1 a bit-identical copy of row / column k (a_kk = a_k,k+1 = a_k+1,k+1) of a symmetric matrix
        // of reals or small integers. The two rows go through identical operations, the multiplier l_k+1,k is x / x = 1 and the
        // next pivot d - 1*1*d = 0 exactly: duplicated rows, to be reported as failure
        bool ints = t.coin();
        for (auto &v : B) { v = ints ? R(rd_int(t, 50)) : rd_real(t, -2, 2); }
        sym_from(B);
        unsigned k = t.u8() % (n - 1);
        for (unsigned j = 0; j < n; ++j) { at(k + 1, j) = at(k, j); }
        at(k + 1, k) = at(k + 1, k + 1) = at(k, k);
        for (unsigned j = 0; j < n; ++j) { at(j, k + 1) = at(k + 1, j); at(j, k) = at(k, j) = at(k + 1, j); }
        expect = 1;
        cx.label(L_SINGULAR_CLASS);
        cx.label(L_DUP_ADJACENT);
        break; }
    case 1: // SPD reals
        for (auto &v : B) { v = rd_real(t, -2, 2); }
        bbt(B, R(std::ldexp(1.0, -int(t.u8() % 20))));
        break;
    case 2: { // scaled SPD: D (B B^T + I) D with D = 2^k
        for (auto &v : B) { v = R(rd_int(t, 3)); }
        bbt(B, R(1));
        std::vector<int> s(n);
        int lim = int(5 * SC_LIM / (n + 1));
        if (lim > SC_LIM) { lim = SC_LIM; }
        for (unsigned i = 0; i < n; ++i) { s[i] = rd_int(t, lim); }
        for (unsigned i = 0; i < n; ++i) { for (unsigned j = 0; j < n; ++j) { at(i, j) = std::ldexp(at(i, j), s[i] + s[j]); } }
        cx.label(L_BAD_SCALE);
        break; }
    case 3: { // global scale
        for (auto &v : B) { v = R(rd_int(t, 3)); }
        bbt(B, R(1 + t.u8() % 3));
        int s = rd_int(t, 100) * SC_GLOBAL_NUM / 10;
        for (auto &v : A0) { v = std::ldexp(v, s); }
        cx.label(L_GLOBAL_SCALE);
        break; }
    case 9: { // badly scaled block-diagonal SPD matrix: pivots from ~min to ~max of the type within one matrix
        // block diagonal: up to four diagonal blocks, no coupling between them (so no product mixes two scales and the
        // elimination itself stays in range), block b multiplied by 4^S_b with S_b anywhere in +-SC_EXT
        std::vector<unsigned> blk(n);
        std::vector<int> sx(n);
        {
            unsigned b = 0;
            int sb = int((g_pat ? pat_next() : t.u16()) % unsigned(2 * SC_EXT + 1)) - SC_EXT;
            for (unsigned i = 0; i < n; ++i)
            {
                if (i && b < 3 && (g_pat ? pat_next() : t.u8()) % 3 == 0)
                {
                    ++b;
                    sb = int((g_pat ? pat_next() : t.u16()) % unsigned(2 * SC_EXT + 1)) - SC_EXT;
                }
                blk[i] = b;
                sx[i] = sb;
            }
        }
        for (unsigned i = 0; i < n; ++i) { for (unsigned j = 0; j < n; ++j) { B[size_t(i) * n + j] = blk[i] == blk[j] ? R(rd_int(t, 3)) : R(0); } }
        bbt(B, R(1));
        for (unsigned i = 0; i < n; ++i) { for (unsigned j = 0; j < n; ++j) { at(i, j) = std::ldexp(at(i, j), sx[i] + sx[j]); } }
        extreme = true;
        cx.label(L_BAD_SCALE);
        cx.label(L_EXTREME_SCALE);
        break; }
    case 4: // symmetric indefinite (LDL) / maybe not SPD (LLT may legitimately fail)
        for (auto &v : B) { v = kind == 0 ? R(rd_int(t, 9)) : rd_real(t, -2, 2); }
        sym_from(B);
        break;
    case 5: { // Hilbert-like SPD
        double a = (t.u8() % 8) * 0.25;
        for (unsigned i = 0; i < n; ++i) { for (unsigned j = 0; j < n; ++j) { at(i, j) = R(1.0 / (double(i + j + 1) + a)); } }
        cx.label(L_HILBERT);
        break; }
    case 6: { // symmetric strictly diagonally dominant integers: must succeed
        for (unsigned i = 0; i < n; ++i) { for (unsigned j = 0; j < i; ++j) { at(i, j) = at(j, i) = R(rd_int(t, 4)); } }
        for (unsigned i = 0; i < n; ++i)
        {
            int s = 0;
            for (unsigned j = 0; j < n; ++j) { if (i != j) { s += int(fabsl(LD(at(i, j)))); } }
            R d = R(s + 1 + int(t.u8() % 3));
            at(i, i) = (kind == 0 && t.coin()) ? -d : d;
        }
        expect = 2;
        cx.label(L_MUST_SUCCEED);
        break; }
    default: {
        // exactly singular / non-positive pivot with exact elimination:
        // LDL: A = L D L^T, integer unit-lower L, integer D with one zero entry.
        // LLT: A = L L^T, integer L, positive diagonal except one entry that is zero or, alternatively, one pivot made negative.
        unsigned nn = n > 8 ? 8 : n;
        std::vector<LD> Lm(size_t(n) * n, 0), D(n, 0);
        for (unsigned i = 0; i < n; ++i)
        {
            for (unsigned j = 0; j < i; ++j) { Lm[size_t(i) * n + j] = (i < nn && j < nn) ? rd_int(t, 2) : 0; }
            Lm[size_t(i) * n + i] = 1;
            D[i] = 1 + int(t.u8() % 3);
            if (kind == 0 && t.coin()) { D[i] = -D[i]; }
        }
        unsigned z = t.u8() % n;
        bool negative = kind == 1 && t.coin();
        if (kind == 0) { D[z] = 0; }
        else
        {
            // Cholesky: L diag = positive integers, D unused
            for (unsigned i = 0; i < n; ++i) { Lm[size_t(i) * n + i] = 1 + int(t.u8() % 3); }
            if (!negative) { Lm[size_t(z) * n + z] = 0; }
        }
        for (unsigned i = 0; i < n; ++i)
        {
            for (unsigned j = 0; j < n; ++j)
            {
                LD s = 0;
                for (unsigned k = 0; k < n; ++k) { s += Lm[size_t(i) * n + k] * (kind == 0 ? D[k] : 1) * Lm[size_t(j) * n + k]; }
                at(i, j) = R(s);
            }
        }
        if (negative)
        {
            // pivot z becomes l_zz^2 - m <= 0 exactly
            LD lzz = Lm[size_t(z) * n + z];
            at(z, z) -= R(lzz * lzz + int(t.u8() % 3));
        }
        expect = 1;
        cx.label(L_SINGULAR_CLASS);
        break; }
    }
    for (R v : A0) { hashR(cx, v); }
    Blk A(size_t(n) * n);
    memcpy(A.p, A0.data(), sizeof(R) * n * n);
    // the routines read only the lower triangle: poison the strict upper triangle of the working copy
    bool poison = t.coin();
    if (poison) { for (unsigned i = 0; i < n; ++i) { for (unsigned j = i + 1; j < n; ++j) { A.p[size_t(i) * n + j] = BIGV * R((i % 7) + 1); } } }
    cx.log("%s n=%u class %d expect %d\n", kind ? "llt" : "ldl", n, cls, expect);
    int rc = kind ? a_real_llt(n, A.p) : a_real_ldl(n, A.p);
    cx.label(kind ? L_LLT : L_LDL);
    char const *nm = kind ? "llt" : "ldl";
    if (rc != A_SUCCESS)
    {
        cx.label(L_FAILED_OK);
        if (expect == 2) { cx.fail(kind ? "llt:failed_on_spd" : "ldl:failed_on_nonsingular", "a_real_%s reported failure on a matrix that must factor (class %d, n=%u)", nm, cls, n); }
        if (expect == 1 && n >= 4) { cx.rep->nontrivial = true; }
        return;
    }
    if (expect == 1) { cx.fail(kind ? "llt:nonpositive_pivot_not_reported" : "ldl:singular_not_reported", "a_real_%s reported success although a pivot vanishes exactly / is not positive (n=%u)", nm, n); }
    // lower triangle finite?
    for (unsigned i = 0; i < n; ++i) { for (unsigned j = 0; j <= i; ++j) { if (!std::isfinite(A.p[size_t(i) * n + j])) { ++cx.rep->excluded; return; } } }
    std::vector<LD> L(size_t(n) * n, 0), D(n, 1);
    for (unsigned i = 0; i < n; ++i)
    {
        for (unsigned j = 0; j < i; ++j) { L[size_t(i) * n + j] = A.p[size_t(i) * n + j]; }
        if (kind == 0)
        {
            L[size_t(i) * n + i] = 1;
            D[i] = A.p[size_t(i) * n + i];
        }
        else
        {
            L[size_t(i) * n + i] = A.p[size_t(i) * n + i];
            VP_CHECK(cx, A.p[size_t(i) * n + i] > 0, "llt:diagonal_not_positive", "Cholesky factor has diagonal entry %.21Lg at %u", LD(A.p[size_t(i) * n + i]), i);
        }
    }
    if (n >= 4 && cls != 0) { cx.rep->nontrivial = true; }
    // reconstruction on the lower triangle
    std::vector<LD> W(size_t(n) * n, 0);
    for (unsigned i = 0; i < n; ++i)
    {
        for (unsigned j = 0; j < n; ++j)
        {
            LD s = 0, sa = 0;
            for (unsigned k = 0; k <= i && k <= j; ++k)
            {
                LD v = L[size_t(i) * n + k] * D[k] * L[size_t(j) * n + k];
                s += v;
                sa += fabsl(v);
            }
            W[size_t(i) * n + j] = sa;
            if (j > i) { continue; }
            LD bound = CSAFE * gam(kind ? n + 1 : 2 * n) * sa + FLOOR_;
            LD err = fabsl(LD(A0[size_t(i) * n + j]) - s);
            cx.metric(0, double(err / bound));
            if (!(err <= bound)) { cx.fail(kind ? "llt:reconstruction" : "ldl:reconstruction", "|A - %s|(%u,%u) = %.3Lg exceeds %.3Lg (n=%u, class %d)", kind ? "LL^T" : "LDL^T", i, j, err, bound, n, cls); }
        }
    }
    // extraction helpers
    {
        Blk Lx(size_t(n) * n), dx(n);
        if (kind == 0)
        {
            a_real_ldl_L(n, A.p, Lx.p);
            a_real_ldl_D(n, A.p, dx.p);
            for (unsigned i = 0; i < n; ++i) { VP_CHECK(cx, dx.p[i] == R(D[i]), "ldl:D", "ldl_D(%u) wrong", i); }
        }
        else { a_real_llt_L(n, A.p, Lx.p); }
        for (unsigned i = 0; i < n; ++i)
        {
            for (unsigned j = 0; j < n; ++j) { VP_CHECK(cx, Lx.p[size_t(i) * n + j] == R(L[size_t(i) * n + j]), kind ? "llt:L" : "ldl:L", "%s_L(%u,%u) wrong", nm, i, j); }
        }
        if (kind && !extreme)
        {
            // the Cholesky solves take "the lower triangular matrix L, stored in row-major order": the extracted factor (zeros
            // above the diagonal) is as good an argument as the in-place buffer
            std::vector<R> b2(n);
            for (unsigned i = 0; i < n; ++i) { b2[i] = R(int((i * 7u + n) % 11u) - 5); }
            Blk y(n);
            memcpy(y.p, b2.data(), sizeof(R) * n);
            a_real_llt_lower(n, Lx.p, y.p);
            a_real_llt_upper(n, Lx.p, y.p);
            g_extracted_x.assign(y.p, y.p + n);
            g_extracted_b = b2;
        }
        else { g_extracted_x.clear(); }
    }
    // symmetric full matrix for residuals (the input is symmetric by construction)
    auto resid = [&](R const *x, std::vector<R> const &b, char const *sig, char const *what, unsigned mi) {
        for (unsigned i = 0; i < n; ++i)
        {
            LD s = b[i], w = 0;
            for (unsigned j = 0; j < n; ++j)
            {
                s -= LD(A0[size_t(i) * n + j]) * x[j];
                w += W[size_t(i) * n + j] * fabsl(x[j]);
            }
            LD bound = CSAFE * gam(3 * n + 2) * w + FLOOR_;
            cx.metric(mi, double(fabsl(s) / bound));
            if (!(fabsl(s) <= bound)) { cx.fail(sig, "%s: |b - A x|(%u) = %.3Lg exceeds %.3Lg (n=%u, class %d)", what, i, fabsl(s), bound, n, cls); }
        }
    };
    if (!g_extracted_x.empty() && finite_all(g_extracted_x.data(), n)) { resid(g_extracted_x.data(), g_extracted_b, "llt:solve_with_extracted_factor", "llt_lower + llt_upper on the factor returned by llt_L", 1); }
    if (!extreme) // (with pivots near both ends of the range the solution itself leaves the normal range)
    {
        std::vector<R> b(n);
        bool ints = t.coin();
        for (unsigned i = 0; i < n; ++i) { b[i] = ints ? R(rd_int(t, 20)) : rd_real(t, -4, 4); }
        Blk x(n);
        memcpy(x.p, b.data(), sizeof(R) * n);
        kind ? a_real_llt_solve(n, A.p, x.p) : a_real_ldl_solve(n, A.p, x.p);
        if (finite_all(x.p, n)) { resid(x.p, b, kind ? "llt:solve_residual" : "ldl:solve_residual", kind ? "llt_solve" : "ldl_solve", 1); }
        else { ++cx.rep->excluded; }
        if (n <= 12)
        {
            // the factor is a const input of solve / inv / inv_ / det: read-only memory, same bits
            RoBlock rA(A.p, sizeof(R) * n * n, sizeof(R));
            if (rA.p)
            {
                R const *Ar = (R const *)rA.p;
                Blk x2(n), I3(size_t(n) * n), I5(size_t(n) * n), t2(n), t3(n);
                memcpy(x2.p, b.data(), sizeof(R) * n);
                kind ? a_real_llt_solve(n, Ar, x2.p) : a_real_ldl_solve(n, Ar, x2.p);
                for (unsigned i = 0; i < n; ++i) { VP_CHECK(cx, same_bits(x2.p[i], x.p[i]), kind ? "llt:readonly_input_differs" : "ldl:readonly_input_differs", "%s_solve on a read-only factor differs at component %u", nm, i); }
                if (kind) { a_real_llt_inv(n, Ar, t2.p, I3.p); a_real_llt_inv(n, A.p, t3.p, I5.p); }
                else { a_real_ldl_inv(n, Ar, t2.p, I3.p); a_real_ldl_inv(n, A.p, t3.p, I5.p); }
                for (size_t i = 0; i < size_t(n) * n; ++i) { VP_CHECK(cx, same_bits(I3.p[i], I5.p[i]), kind ? "llt:readonly_input_differs" : "ldl:readonly_input_differs", "%s_inv on a read-only factor differs at cell %zu", nm, i); }
                R d1 = kind ? a_real_llt_det(n, Ar) : a_real_ldl_det(n, Ar), d2 = kind ? a_real_llt_det(n, A.p) : a_real_ldl_det(n, A.p);
                R l1 = kind ? a_real_llt_lndet(n, Ar) : a_real_ldl_lndet(n, Ar), l2 = kind ? a_real_llt_lndet(n, A.p) : a_real_ldl_lndet(n, A.p);
                VP_CHECK(cx, same_bits(d1, d2) && same_bits(l1, l2), kind ? "llt:readonly_input_differs" : "ldl:readonly_input_differs", "%s_det / lndet on a read-only factor differ", nm);
            }
        }
        // the strided forms solve in place on one column of an n x n block and leave the other columns alone
        {
            unsigned j = t.u8() % n;
            Blk Mx(size_t(n) * n);
            std::vector<R> before(Mx.p, Mx.p + size_t(n) * n), col(n);
            for (unsigned i = 0; i < n; ++i) { Mx.p[size_t(i) * n + j] = b[i]; }
            if (kind) { a_real_llt_lower_(n, A.p, Mx.p + j); a_real_llt_upper_(n, A.p, Mx.p + j); }
            else { a_real_ldl_lower_(n, A.p, Mx.p + j); a_real_ldl_upper_(n, A.p, Mx.p + j); }
            for (unsigned i = 0; i < n; ++i)
            {
                col[i] = Mx.p[size_t(i) * n + j];
                for (unsigned c = 0; c < n; ++c)
                {
                    if (c != j) { VP_CHECK(cx, same_bits(Mx.p[size_t(i) * n + c], before[size_t(i) * n + c]), kind ? "llt:strided_solve_touches_other_column" : "ldl:strided_solve_touches_other_column", "%s_lower_/upper_ on column %u changed cell (%u,%u)", nm, j, i, c); }
                }
            }
            if (finite_all(col.data(), n)) { resid(col.data(), b, kind ? "llt:strided_solve_residual" : "ldl:strided_solve_residual", "lower_ + upper_ on a column", 1); }
        }
    }
    if (!extreme)
    {
        Blk I1(size_t(n) * n), I2(size_t(n) * n), tmp(n);
        if (kind) { a_real_llt_inv(n, A.p, tmp.p, I1.p); a_real_llt_inv_(n, A.p, I2.p); }
        else { a_real_ldl_inv(n, A.p, tmp.p, I1.p); a_real_ldl_inv_(n, A.p, I2.p); }
        if (finite_all(I1.p, size_t(n) * n) && finite_all(I2.p, size_t(n) * n))
        {
            std::vector<R> col(n), e(n);
            for (unsigned j = 0; j < n; ++j)
            {
                for (unsigned i = 0; i < n; ++i) { e[i] = R(i == j ? 1 : 0); }
                for (unsigned i = 0; i < n; ++i) { col[i] = I1.p[size_t(i) * n + j]; }
                resid(col.data(), e, kind ? "llt:inv_residual" : "ldl:inv_residual", "inv column", 2);
                for (unsigned i = 0; i < n; ++i) { col[i] = I2.p[size_t(i) * n + j]; }
                resid(col.data(), e, kind ? "llt:inv__residual" : "ldl:inv__residual", "inv_ (in place) column", 2);
            }
        }
        else { ++cx.rep->excluded; }
    }
    {
        LD prod = 1, lsum = 0, labs = 0;
        int sg = 1;
        std::vector<LD> fac;
        for (unsigned i = 0; i < n; ++i)
        {
            LD d = kind ? L[size_t(i) * n + i] * L[size_t(i) * n + i] : D[i];
            fac.push_back(kind ? L[size_t(i) * n + i] : D[i]);
            prod *= kind ? L[size_t(i) * n + i] : D[i]; // Cholesky: product of the diagonal first, squared below (the order the prefix guard checks)
            LD lg = kind ? 2 * logl(L[size_t(i) * n + i]) : logl(fabsl(d));
            lsum += lg;
            labs += fabsl(lg);
            if (d < 0) { sg = -sg; }
        }
        if (kind) { prod *= prod; }
        LD det = kind ? a_real_llt_det(n, A.p) : a_real_ldl_det(n, A.p);
        LD lnd = kind ? a_real_llt_lndet(n, A.p) : a_real_ldl_lndet(n, A.p);
        LD lb = CSAFE * (n + 2) * U_ * (labs + 1);
        cx.metric(4, double(fabsl(lnd - lsum) / lb));
        VP_CHECK(cx, fabsl(lnd - lsum) <= lb, kind ? "llt:lndet" : "ldl:lndet", "%s_lndet %.21Lg, reference %.21Lg (n=%u)", nm, lnd, lsum, n);
        int sd = sg;
        if (kind == 0)
        {
            sd = a_real_ldl_sgndet(n, A.p);
            VP_CHECK(cx, sd == sg, "ldl:sgndet", "ldl_sgndet %d, sign of det %d", sd, sg);
        }
                if (prefixes_ok(fac, 1, kind == 1))
        {
            LD db = CSAFE * gam(2 * n + 2) * fabsl(prod);
            cx.metric(3, double(fabsl(det - prod) / db));
            VP_CHECK(cx, fabsl(det - prod) <= db, kind ? "llt:det" : "ldl:det", "%s_det %.21Lg, product of pivots %.21Lg", nm, det, prod);
            VP_CHECK(cx, fabsl(LD(sd) * expl(LD(lnd)) - det) <= (1e-9L + 2 * expm1l(lb) + 2 * db / fabsl(prod)) * fabsl(prod), kind ? "llt:det_family_disagree" : "ldl:det_family_disagree", "sgndet*exp(lndet) = %.12Lg but det = %.12Lg", LD(sd) * expl(LD(lnd)), det);
        }
        else { cx.label(L_DET_UNREPRESENTABLE); }
    }
}

// determinant family on a compact factor given by the caller (not produced by the factorization just before): the three routines
// read only the diagonal; a diagonal with exact zeros (either sign), negative entries and a tiny entry exercises the documented
// return values -1 / 0 / +1 of sgndet and its agreement with det and lndet
static void det_given(Tape &t, Ctx &cx, unsigned n, int which)
{
    Blk F(size_t(n) * n);
    for (size_t i = 0; i < size_t(n) * n; ++i) { F.p[i] = R(int(t.u8() % 17) - 8) / 8; }
    int sign = which == 0 ? ((t.u8() & 1) ? 1 : -1) : 1;
    std::vector<LD> fac;
    int sg = sign;
    bool zero = false;
    LD lsum = 0, labs = 0, prod = sign;
    unsigned tiny_at = t.u8() % (2 * n);
    for (unsigned i = 0; i < n; ++i)
    {
        uint8_t b = t.u8();
        R d;
        switch (b % 8)
        {
        case 0: d = (b & 8) ? R(-0.0) : R(0); break;
        case 1: case 2: d = -(R(1) + R((b >> 3) % 16) / 16); break;
        case 3: d = (b & 8) ? R(-0.5) : R(0.5); break;
        case 4: d = (b & 8) ? R(-2) : R(2); break;
        default: d = R(1) + R((b >> 3) % 16) / 16; break;
        }
        if (i == tiny_at) { d = (b & 16) ? -std::numeric_limits<R>::min() : std::numeric_limits<R>::min(); }
        F.p[size_t(i) * n + i] = d;
        fac.push_back(d);
        if (d == 0) { zero = true; sg = 0; }
        else
        {
            if (d < 0) { sg = -sg; }
            lsum += logl(fabsl(LD(d)));
            labs += fabsl(logl(fabsl(LD(d))));
            prod *= d;
        }
        cx.hash.addd(double(d));
    }
    RoBlock rF(F.p, sizeof(R) * n * n, sizeof(R));
    R const *Fp = rF.p ? (R const *)rF.p : F.p;
    char const *nm = which == 0 ? "plu" : "ldl";
    R det = which == 0 ? a_real_plu_det(n, Fp, sign) : a_real_ldl_det(n, Fp);
    R lnd = which == 0 ? a_real_plu_lndet(n, Fp) : a_real_ldl_lndet(n, Fp);
    int sd = which == 0 ? a_real_plu_sgndet(n, Fp, sign) : a_real_ldl_sgndet(n, Fp);
    VP_CHECK(cx, sd == sg, which == 0 ? "plu:sgndet_given_factor" : "ldl:sgndet_given_factor", "%s_sgndet %d on a given factor whose diagonal has sign product %d (n=%u)", nm, sd, sg, n);
    if (zero)
    {
        cx.label(L_ZERO_DIAGONAL);
        VP_CHECK(cx, det == 0, which == 0 ? "plu:det_given_factor" : "ldl:det_given_factor", "%s_det %.9Lg on a factor with a zero on the diagonal", nm, LD(det));
        VP_CHECK(cx, std::isinf(lnd) && lnd < 0, which == 0 ? "plu:lndet_given_factor" : "ldl:lndet_given_factor", "%s_lndet %.9Lg on a factor with a zero on the diagonal", nm, LD(lnd));
    }
    else
    {
        LD lb = CSAFE * (n + 2) * U_ * (labs + 1);
        VP_CHECK(cx, fabsl(LD(lnd) - lsum) <= lb, which == 0 ? "plu:lndet_given_factor" : "ldl:lndet_given_factor", "%s_lndet %.21Lg, sum of log|d_i| %.21Lg (n=%u)", nm, LD(lnd), lsum, n);
        if (prefixes_ok(fac, sign, false))
        {
            LD db = CSAFE * gam(2 * n + 2) * fabsl(prod);
            VP_CHECK(cx, fabsl(LD(det) - prod) <= db, which == 0 ? "plu:det_given_factor" : "ldl:det_given_factor", "%s_det %.21Lg, product %.21Lg (n=%u)", nm, LD(det), prod, n);
        }
    }
}

static void run_case(Tape &t, Ctx &cx)
{
    uint8_t h = t.u8();
    int which = h % 3;
    unsigned n = 1 + (t.u8() % VP_MAXN);
    g_pat = false;
    if ((h >> 2) % 32 == 0)
    {
        // occasionally an order beyond the usual range (blocking / unrolling thresholds)
        static unsigned const big[] = {13, 16, 17, 24, 31, 32, 33, 40, 48, 63, 64, 65};
        n = big[t.u8() % 12];
        g_pat = true;
        g_state = t.u32() | 1;
        cx.label(L_LARGE_ORDER);
    }
    cx.hash.add(unsigned(which) | (n << 8));
    if (n >= 8) { cx.label(L_N_GE_8); }
    ++cx.rep->subcases;
    if (which == 0) { check_plu(t, cx, n); }
    else { check_sym(t, cx, n, which - 1); }
    if (which != 2 && t.u8() % 4 == 1) { det_given(t, cx, n, which); }
}
VP_DEFINE_RUN(run_case)
