// C09 — matrix products, transposes and structure kernels against their definitions.
// Inputs and outputs are exact-size heap blocks (ASan red zones); outputs are pre-filled with a
// signalling pattern so unwritten cells are visible; exact (bitwise) comparison for the integer
// class and for all copy/extract kernels, gamma_k |X||Y| for real-valued products.
#include "../drv/vp.h"
#include "fault.h" // the replaceable allocator: the kernels are void functions and have to give the right answer whether or not memory can be had
#include <memory>
#include <cmath>
#include <vector>
extern "C" {
#include "a/linalg.h"
}
#ifndef VP_MAXDIM
#define VP_MAXDIM 9
#endif

enum { L_MUL, L_T, L_EYE, L_TRI, L_DIAG, L_TRIL, L_TRIU, L_TALL, L_WIDE, L_SQUARE, L_INNER1, L_3DIFF, L_REALS, L_SIGNED_ZERO, L_TALL2, L_LARGE_DIM, L_WIDE_EXP, L_ALIASED, L_ARENA, L_READONLY, L_INFINITE_ENTRY, L_NO_MEMORY };
static char const *const labels[] = {"product", "transpose", "eye", "tri_ones", "diag", "triL", "triU", "rows_gt_cols", "cols_gt_rows", "square",
                                     "inner_dimension_1", "three_pairwise_different_dims", "real_valued_contents", "signed_zero_in_contents", "rows_ge_cols_plus_2", "dimension_ge_15_up_to_140", "wide_exponent_contents", "product_operands_share_storage", "operands_and_result_adjacent_in_one_block", "operands_in_read_only_memory", "infinite_entry_in_contents", "allocator_refuses_every_request", nullptr};
static char const *const metrics[] = {"max_product_error_over_bound", nullptr};
static uint8_t const dict[] = {0, 1, 2, 3, 8, 9};
static vp_info const info = {"C09", "linalg", "", labels, metrics, 256, dict, sizeof(dict)};
extern "C" vp_info const *vp_get_info(void) { return &info; }

#include <limits>
typedef a_real R; // float, double or long double (A_SIZE_REAL)
typedef long double LD;
static R const kPoison = -(std::numeric_limits<R>::max() / 3);
static LD const U_ = LD(std::numeric_limits<R>::epsilon()) / 2;
// occasional wide exponents for the real-valued class, scaled so that no product of two entries leaves the normal range
static int const WIDE = sizeof(R) == 4 ? 3 : (sizeof(R) == 8 ? 50 : 900);
static LD const FLOOR_ = sizeof(R) == 4 ? 1e-40L : (sizeof(R) == 8 ? 1e-300L : 1e-4900L);

struct Mat
{
    unsigned r, c;
    R *p; // exact-size block
    Mat(unsigned r_, unsigned c_) : r(r_), c(c_)
    {
        size_t n = size_t(r) * c;
        p = (R *)malloc(sizeof(R) * (n ? n : 1));
        for (size_t i = 0; i < n; ++i) { p[i] = kPoison; }
    }
    ~Mat() { free(p); }
    Mat(Mat const &) = delete;
    R &at(unsigned i, unsigned j) { return p[size_t(i) * c + j]; }
    R at(unsigned i, unsigned j) const { return p[size_t(i) * c + j]; }
};

static bool biteq(R a, R b) { return memcmp(&a, &b, sizeof(R) > 8 ? 10 : sizeof(R)) == 0; } // x87 long double: 10 value bytes + padding

static void fill(Tape &t, Ctx &cx, Mat &m, int cls)
{
    if (size_t(m.r) * m.c > 400)
    {
        // large matrices: a position-dependent pattern seeded from the tape (every cell distinct in its row and column neighbourhood)
        uint32_t a = t.u8() | 1, b = t.u8();
        for (unsigned i = 0; i < m.r; ++i)
        {
            for (unsigned j = 0; j < m.c; ++j)
            {
                int v = int((i * 31u + j * 17u + i * j * a + b) % 19u) - 9;
                m.p[size_t(i) * m.c + j] = R(cls == 2 ? double(v) + double((i * 7u + j * 3u) % 8u) / 8.0 : double(v));
            }
        }
        cx.hash.add(a | (b << 8));
        if (cls == 2) { cx.label(L_REALS); }
        return;
    }
    int wide = (cls == 2 && t.u8() % 4 == 0) ? WIDE : 1;
    if (wide > 1) { cx.label(L_WIDE_EXP); }
    for (size_t i = 0; i < size_t(m.r) * m.c; ++i)
    {
        R v;
        if (cls == 0) { v = R(int(t.u8() % 19) - 9); }
        else if (cls == 1)
        {
            uint8_t b = t.u8();
            if (b < 16)
            {
                v = (b & 1) ? R(-0.0) : R(0.0);
                if (b & 1) { cx.label(L_SIGNED_ZERO); }
            }
            else if (b < 20)
            {
                // an infinite entry: a cell of the product whose terms contain it (and no zero partner, no opposite infinity) is
                // that infinity; cells whose value is indeterminate (inf * 0, inf - inf) are not judged
                v = (b & 1) ? -std::numeric_limits<R>::infinity() : std::numeric_limits<R>::infinity();
                cx.label(L_INFINITE_ENTRY);
            }
            else { v = R(int(b) - 128); }
        }
        else
        {
            // real values: random mantissa, exponent in [-8, 8] (times WIDE in a quarter of the fills)
            uint32_t w = t.u32();
            v = std::ldexp(R(double(int32_t(w)) / 2147483648.0), (int(t.u8() % 17) - 8) * wide);
            cx.label(L_REALS);
        }
        m.p[i] = v;
        { int e = 0; LD mm = frexpl(LD(v), &e); cx.hash.addd(double(mm)); cx.hash.add(unsigned(e)); }
    }
}

static void shape_labels(Ctx &cx, unsigned m, unsigned n)
{
    if (m > n) { cx.label(L_TALL); }
    if (m < n) { cx.label(L_WIDE); }
    if (m == n) { cx.label(L_SQUARE); }
    if (m >= n + 2) { cx.label(L_TALL2); }
    if (m != n) { cx.rep->nontrivial = true; }
}

static void expect_mat(Ctx &cx, char const *sig, char const *what, Mat const &got, std::vector<R> const &want)
{
    for (unsigned i = 0; i < got.r; ++i)
    {
        for (unsigned j = 0; j < got.c; ++j)
        {
            R g = got.at(i, j), w = want[size_t(i) * got.c + j];
            if (!biteq(g, w))
            {
                cx.fail(sig, "%s (%ux%u): cell (%u,%u) is %.21Lg, expected %.21Lg%s", what, got.r, got.c, i, j, LD(g), LD(w), biteq(g, kPoison) ? " [cell never written]" : "");
            }
        }
    }
}

static void run_case(Tape &t, Ctx &cx)
{
    // the library's allocator hook is replaced for the case: in half of the cases every request fails (the pinned tree never asks
    // for memory in these routines; a routine that does must still produce the specified result, it has no way of reporting failure)
    shim_install();
    if (t.tail() & 0x80) { g_shim.fail_at = 1; g_shim.mode = 2; cx.label(L_NO_MEMORY); }
    struct ShimOff { Ctx &cx; ~ShimOff() { g_shim.reset(); } } shim_off{cx};
    unsigned sub = 0;
    do {
        ++sub;
        ++cx.rep->subcases;
        uint8_t op = t.u8() % 20;
        unsigned m = 1 + t.u8() % VP_MAXDIM, n = 1 + t.u8() % VP_MAXDIM, k = 1 + t.u8() % VP_MAXDIM;
        int cls = t.u8() % 3;
        {
            // occasionally dimensions well beyond any small-size special case (blocking factors, unrolled tails): up to 140,
            // independently per dimension so that large shapes are not only square; contents then come from a cheap pattern
            uint8_t big = t.u8();
            if (big % 16 == 0)
            {
                static unsigned const edge[] = {15, 16, 17, 31, 32, 33, 63, 64, 65, 66, 100, 127, 128, 129, 140};
                if (big & 16) { m = edge[t.u8() % 15]; }
                if (big & 32) { n = edge[t.u8() % 15]; }
                if (big & 64) { k = (op <= 3) ? edge[t.u8() % 10] : k; }
                if (!(big & 0x70)) { m = edge[t.u8() % 15]; n = edge[t.u8() % 15]; }
                cx.label(L_LARGE_DIM);
            }
        }
        cx.hash.add(op | (m << 8) | (n << 16) | (k << 24));
        switch (op)
        {
        case 0: case 1: case 2: case 3: {
            // Z(m x n) = op(X) * op(Y), inner dimension k
            bool tx = op == 1 || op == 3, ty = op == 2 || op == 3;
            Mat X(tx ? k : m, tx ? m : k), Y(ty ? n : k, ty ? k : n), Z(m, n);
            fill(t, cx, X, cls);
            fill(t, cx, Y, cls);
            cx.log("%s: Z(%ux%u), inner %u, class %d\n", op == 0 ? "mulmm" : op == 1 ? "mulTm" : op == 2 ? "mulmT" : "mulTT", m, n, k, cls);
            // both operands are read-only: they may share storage (A * A^T, A^T * A, A * A on one buffer); the smaller operand
            // then is the leading part of the larger one
            R const *xp = X.p, *yp = Y.p;
            if (t.u8() % 4 == 0)
            {
                size_t nx = size_t(X.r) * X.c, ny = size_t(Y.r) * Y.c;
                if (ny <= nx) { memcpy(Y.p, X.p, sizeof(R) * ny); yp = X.p; }
                else { memcpy(X.p, Y.p, sizeof(R) * nx); xp = Y.p; }
                cx.label(L_ALIASED);
                cx.log("  operands share storage\n");
                cx.hash.add(77);
            }
            // placement: separate heap blocks (red zones between them), or the three matrices carved back to back, in any order and
            // without a gap, out of one workspace block - distinct objects that merely touch
            R *zp = Z.p;
            R *arena = nullptr;
            size_t nx = size_t(X.r) * X.c, ny = size_t(Y.r) * Y.c, nz = size_t(m) * n;
            size_t offx = 0, offy = 0;
            uint8_t place = t.u8();
            if (xp == X.p && yp == Y.p && place % 4 == 0)
            {
                arena = (R *)malloc(sizeof(R) * (nx + ny + nz));
                static unsigned const perm[6][3] = {{0, 1, 2}, {0, 2, 1}, {1, 0, 2}, {1, 2, 0}, {2, 0, 1}, {2, 1, 0}};
                unsigned const *pm = perm[(place / 4) % 6];
                size_t off = 0, offz = 0;
                for (unsigned q = 0; q < 3; ++q)
                {
                    if (pm[q] == 0) { offx = off; off += nx; }
                    else if (pm[q] == 1) { offy = off; off += ny; }
                    else { offz = off; off += nz; }
                }
                memcpy(arena + offx, X.p, sizeof(R) * nx);
                memcpy(arena + offy, Y.p, sizeof(R) * ny);
                for (size_t i = 0; i < nz; ++i) { arena[offz + i] = kPoison; }
                xp = arena + offx;
                yp = arena + offy;
                zp = arena + offz;
                cx.label(L_ARENA);
                cx.log("  X, Y, Z carved out of one block in order %u%u%u\n", pm[0], pm[1], pm[2]);
                cx.hash.add(100 + (place / 4) % 6);
            }
            struct FreeArena { R *p; ~FreeArena() { free(p); } } fa{arena};
            // or: both operands (const inputs) in read-only memory
            std::unique_ptr<RoBlock> rox, roy;
            if (!arena && xp == X.p && yp == Y.p && place % 4 == 1)
            {
                rox.reset(new RoBlock(X.p, sizeof(R) * nx, sizeof(R)));
                roy.reset(new RoBlock(Y.p, sizeof(R) * ny, sizeof(R)));
                if (rox->p && roy->p) { xp = (R const *)rox->p; yp = (R const *)roy->p; cx.label(L_READONLY); }
            }
            switch (op)
            {
            case 0: a_real_mulmm(m, k, n, xp, yp, zp); break;
            case 1: a_real_mulTm(k, m, n, xp, yp, zp); break;
            case 2: a_real_mulmT(m, n, k, xp, yp, zp); break;
            default: a_real_mulTT(m, k, n, xp, yp, zp); break;
            }
            if (arena)
            {
                // the operands are read-only
                for (size_t i = 0; i < nx; ++i) { if (!biteq(arena[offx + i], X.p[i])) { cx.fail("mul:operand_modified", "product variant %d modified its first operand at element %zu", op, i); } }
                for (size_t i = 0; i < ny; ++i) { if (!biteq(arena[offy + i], Y.p[i])) { cx.fail("mul:operand_modified", "product variant %d modified its second operand at element %zu", op, i); } }
                memcpy(Z.p, zp, sizeof(R) * nz);
            }
            cx.label(L_MUL);
            if (k == 1) { cx.label(L_INNER1); }
            if (m != n && n != k && m != k)
            {
                cx.label(L_3DIFF);
                cx.rep->nontrivial = true;
            }
            for (unsigned i = 0; i < m; ++i)
            {
                for (unsigned j = 0; j < n; ++j)
                {
                    long double s = 0, sa = 0;
                    for (unsigned l = 0; l < k; ++l)
                    {
                        long double x = tx ? X.at(l, i) : X.at(i, l), y = ty ? Y.at(j, l) : Y.at(l, j);
                        s += x * y;
                        sa += fabsl(x * y);
                    }
                    R g = Z.at(i, j);
                    if (s != s) { ++cx.rep->excluded; continue; } // indeterminate cell (inf * 0 or inf - inf among the terms)
                    if (cls != 2)
                    {
                        if (!(g == R(s)))
                        {
                            cx.fail("mul:wrong", "product variant %d Z(%ux%u) inner %u: cell (%u,%u) is %.21Lg, exact value %.21Lg", op, m, n, k, i, j, LD(g), s);
                        }
                    }
                    else
                    {
                        long double bound = (sizeof(R) > 8 ? 6.0L : 4.0L) * (k + 1) * U_ * sa + FLOOR_;
                        long double err = fabsl((long double)g - s);
                        cx.metric(0, double(err / bound));
                        if (!(err <= bound))
                        {
                            cx.fail("mul:wrong", "product variant %d Z(%ux%u) inner %u: cell (%u,%u) is %.21Lg, reference %.21Lg (error %.3Lg > bound %.3Lg)", op, m, n, k, i, j, LD(g), s, err, bound);
                        }
                    }
                }
            }
            break; }
        case 4: {
            // T2 and back
            Mat A(m, n), T(n, m), B(m, n);
            fill(t, cx, A, cls);
            cx.log("T2 %ux%u\n", m, n);
            a_real_T2(m, n, A.p, T.p);
            std::vector<R> want(size_t(m) * n);
            for (unsigned i = 0; i < m; ++i) { for (unsigned j = 0; j < n; ++j) { want[size_t(j) * m + i] = A.at(i, j); } }
            expect_mat(cx, "T2:wrong", "T2", T, want);
            a_real_T2(n, m, T.p, B.p);
            std::vector<R> orig(A.p, A.p + size_t(m) * n);
            expect_mat(cx, "T2:not_involution", "T2 of T2", B, orig);
            cx.label(L_T);
            shape_labels(cx, m, n);
            break; }
        case 5: {
            // T1 in place, against T2, twice = identity
            Mat A(n, n), T(n, n);
            fill(t, cx, A, cls);
            std::vector<R> orig(A.p, A.p + size_t(n) * n);
            a_real_T2(n, n, A.p, T.p);
            cx.log("T1 %ux%u\n", n, n);
            a_real_T1(n, A.p);
            std::vector<R> want(size_t(n) * n);
            for (unsigned i = 0; i < n; ++i) { for (unsigned j = 0; j < n; ++j) { want[size_t(j) * n + i] = orig[size_t(i) * n + j]; } }
            expect_mat(cx, "T1:wrong", "T1", A, want);
            expect_mat(cx, "T1:differs_from_T2", "T2 on the same input", T, want);
            a_real_T1(n, A.p);
            expect_mat(cx, "T1:not_involution", "T1 twice", A, orig);
            cx.label(L_T);
            if (n >= 3) { cx.rep->nontrivial = true; }
            break; }
        case 6: case 7: {
            // eye2 / tri2 (and the square forms when m == n is forced)
            bool square = t.coin();
            if (square) { m = n; }
            Mat E(m, n);
            std::vector<R> want(size_t(m) * n);
            for (unsigned i = 0; i < m; ++i)
            {
                for (unsigned j = 0; j < n; ++j) { want[size_t(i) * n + j] = R(op == 6 ? (i == j ? 1 : 0) : (j <= i ? 1 : 0)); }
            }
            cx.log("%s %ux%u%s\n", op == 6 ? "eye" : "tri", m, n, square ? " (square form)" : "");
            if (square) { op == 6 ? a_real_eye1(n, E.p) : a_real_tri1(n, E.p); }
            else { op == 6 ? a_real_eye2(m, n, E.p) : a_real_tri2(m, n, E.p); }
            expect_mat(cx, op == 6 ? "eye:wrong" : "tri:wrong", op == 6 ? "eye" : "tri", E, want);
            cx.label(op == 6 ? L_EYE : L_TRI);
            shape_labels(cx, m, n);
            break; }
        case 8: {
            Mat a(1, n), A(n, n), b(1, n);
            fill(t, cx, a, cls);
            cx.log("diag / diag1 %u\n", n);
            a_real_diag(n, a.p, A.p);
            std::vector<R> want(size_t(n) * n, R(0));
            for (unsigned i = 0; i < n; ++i) { want[size_t(i) * n + i] = a.p[i]; }
            expect_mat(cx, "diag:wrong", "diag", A, want);
            a_real_diag1(n, A.p, b.p);
            std::vector<R> wa(a.p, a.p + n);
            expect_mat(cx, "diag1:wrong", "diag1", b, wa);
            cx.label(L_DIAG);
            break; }
        case 9: {
            Mat A(m, n);
            unsigned mn = m < n ? m : n;
            Mat d(1, mn);
            fill(t, cx, A, cls);
            cx.log("diag2 %ux%u\n", m, n);
            a_real_diag2(m, n, A.p, d.p);
            std::vector<R> want(mn);
            for (unsigned i = 0; i < mn; ++i) { want[i] = A.at(i, i); }
            expect_mat(cx, "diag2:wrong", "diag2", d, want);
            cx.label(L_DIAG);
            shape_labels(cx, m, n);
            break; }
        default: {
            // triL/triL1/triL2/triU/triU1/triU2
            int kind = (op - 10) % 6;
            bool rect = kind == 2 || kind == 5;
            if (!rect) { m = n; }
            Mat A(m, n), Rs(m, n);
            fill(t, cx, A, cls);
            std::vector<R> want(size_t(m) * n);
            bool lower = kind < 3;
            bool unit = kind == 1 || kind == 4;
            for (unsigned i = 0; i < m; ++i)
            {
                for (unsigned j = 0; j < n; ++j)
                {
                    R v;
                    if (i == j) { v = unit ? R(1) : A.at(i, j); }
                    else if (lower) { v = j < i ? A.at(i, j) : R(0); }
                    else { v = j > i ? A.at(i, j) : R(0); }
                    want[size_t(i) * n + j] = v;
                }
            }
            static char const *const nm[] = {"triL", "triL1", "triL2", "triU", "triU1", "triU2"};
            cx.log("%s %ux%u\n", nm[kind], m, n);
            switch (kind)
            {
            case 0: a_real_triL(n, A.p, Rs.p); break;
            case 1: a_real_triL1(n, A.p, Rs.p); break;
            case 2: a_real_triL2(m, n, A.p, Rs.p); break;
            case 3: a_real_triU(n, A.p, Rs.p); break;
            case 4: a_real_triU1(n, A.p, Rs.p); break;
            default: a_real_triU2(m, n, A.p, Rs.p); break;
            }
            static char const *const sg[] = {"triL:wrong", "triL1:wrong", "triL2:wrong", "triU:wrong", "triU1:wrong", "triU2:wrong"};
            expect_mat(cx, sg[kind], nm[kind], Rs, want);
            cx.label(lower ? L_TRIL : L_TRIU);
            if (rect) { shape_labels(cx, m, n); }
            break; }
        }
    } while (!t.done() && sub < 8);
}
VP_DEFINE_RUN(run_case)
