// C10 — complex arithmetic and functions, one binary per build configuration (A_HAVE_* subset,
// real type). Reference: glibc long double complex functions (principal values per ISO C);
// acceptance |got - ref| <= K*u*(|ref| + kappa), kappa = numerical condition term.
#include "../drv/vp.h"
#include <cmath>
#include <complex>
#include <complex.h>
#include <vector>
extern "C" {
#include "a/complex.h"
#include "a/math.h"
}
typedef long double LD;
typedef std::complex<long double> C;
#ifndef VP_CFG
#define VP_CFG "default"
#endif
#if A_SIZE_REAL == 4
static LD const U_ = 5.9604644775390625e-8L;
static int const EMAG = 26;  // |z| from 2^-26 to 2^26
static LD const EXPLIM = 80;
static LD const TINY_ = 1.17549435e-38L;
#else
static LD const U_ = 1.1102230246251565e-16L;
static int const EMAG = 27;  // about 1e-8 .. 1e8
static LD const EXPLIM = 600;
static LD const TINY_ = 2.2250738585072014e-308L;
#endif
#ifndef VP_K
#define VP_K 32
#endif

enum { L_FIELD, L_POWLOG, L_TRIG, L_ITRIG, L_HYP, L_IHYP, L_REALARG, L_PAIRS, L_Q1, L_Q2, L_Q3, L_Q4, L_NEAR_AXIS, L_ON_AXIS, L_SMALL, L_LARGE, L_NEAR_SWITCH, L_PUSHED_OFF_CUT, L_WIDE_MODULUS, L_ALGO_CORNER, L_LINKED, L_ORIGIN, L_BIG_EXPONENT, L_SPECIAL_COMPONENTS };
static char const *const labels[] = {"field_arithmetic", "sqrt_pow_exp_log", "trigonometric", "inverse_trigonometric", "hyperbolic", "inverse_hyperbolic", "real_argument_variants",
                                     "inverse_pairs", "quadrant_1", "quadrant_2", "quadrant_3", "quadrant_4", "near_axis", "exactly_on_axis", "modulus_lt_0.5", "modulus_gt_2",
                                     "modulus_near_formula_switch", "moved_off_branch_cut", "modulus_beyond_2^+-27", "inverse_family_algorithm_region_corner", "same_function_again_with_operand_mapped_through_the_library", "argument_is_the_origin", "pow_real_large_or_integer_limit_exponent_base_near_unit_circle", "both_components_from_a_pool_of_named_constants", nullptr};
static char const *const metrics[] = {"field_err", "powlog_err", "trig_err", "itrig_err", "hyp_err", "ihyp_err", "realarg_err", "pairs_err", nullptr};
static uint8_t const dict[] = {0, 1, 2, 3, 4, 5, 6, 7};
static vp_info const info = {"C10", VP_CFG, "", labels, metrics, 96, dict, sizeof(dict)};
extern "C" vp_info const *vp_get_info(void) { return &info; }

static C c99(long double _Complex v) { return C(__real__ v, __imag__ v); }
static long double _Complex toc(C z) { long double _Complex r; __real__ r = z.real(); __imag__ r = z.imag(); return r; }
static C one_over(C z) { return C(1) / z; }

// branch-cut kinds (of the function's own argument)
enum Cut { CUT_NONE, CUT_NEGREAL, CUT_REAL_OUT1, CUT_IMAG_OUT1, CUT_REAL_LT1, CUT_RECIP_REAL_IN1, CUT_RECIP_IMAG_IN1, CUT_RECIP_ACOSH };

struct Fn
{
    char const *name;
    int family;      // metric slot
    int arity;       // 1: f(z)  2: f(z, w)  3: f(z, real s)
    Cut cut;
    int growth;      // 0 none; 1 exp-like in Re; 2 exp-like in Im; 3 both (pow)
    void (*call)(a_complex *r, a_complex z, a_complex w, a_real s);
    C (*ref)(C z, C w, LD s);
};

// in-place twins of the field operations (and rect / proj / eq / ne, which have no accuracy to judge) are called next to the
// out-of-place form and have to give the same bits; a mismatch is noted here and reported by case_fn
static char const *g_twin_mismatch = nullptr;
static inline bool same_c(a_complex a, a_complex b) { return memcmp(&a.real, &b.real, sizeof(a_real)) == 0 && memcmp(&a.imag, &b.imag, sizeof(a_real)) == 0; }
static inline void twin_check(char const *what, a_complex got, a_complex r)
{
    if (!same_c(got, r) && !(got.real != got.real && r.real != r.real)) { g_twin_mismatch = what; }
    a_complex p, q = r, c;
    a_complex_proj(&p, r);   // finite values project onto themselves
    a_complex_proj_(&q);
    a_complex_rect(&c, r.real, r.imag);
    bool fin = std::isfinite(double(r.real)) && std::isfinite(double(r.imag));
    if (fin && (!same_c(p, r) || !same_c(q, r))) { g_twin_mismatch = "proj / proj_ of a finite value"; }
    if (!same_c(c, r) && fin) { g_twin_mismatch = "rect"; }
    if (fin && (!a_complex_eq(r, c) || a_complex_ne(r, c))) { g_twin_mismatch = "eq / ne on equal values"; }
}
#define F1(nm) [](a_complex *r, a_complex z, a_complex, a_real) { a_complex_##nm(r, z); }
static Fn const fns[] = {
    // ---- field arithmetic
    {"add", 0, 2, CUT_NONE, 0, [](a_complex *r, a_complex z, a_complex w, a_real) { a_complex_add(r, z, w); a_complex q = z; a_complex_add_(&q, w); twin_check("add_", q, *r); }, [](C z, C w, LD) { return z + w; }},
    {"sub", 0, 2, CUT_NONE, 0, [](a_complex *r, a_complex z, a_complex w, a_real) { a_complex_sub(r, z, w); a_complex q = z; a_complex_sub_(&q, w); twin_check("sub_", q, *r); }, [](C z, C w, LD) { return z - w; }},
    {"mul", 0, 2, CUT_NONE, 0, [](a_complex *r, a_complex z, a_complex w, a_real) { a_complex_mul(r, z, w); }, [](C z, C w, LD) { return z * w; }},
    {"div", 0, 2, CUT_NONE, 0, [](a_complex *r, a_complex z, a_complex w, a_real) { a_complex_div(r, z, w); }, [](C z, C w, LD) { return z / w; }},
    {"add_real", 0, 3, CUT_NONE, 0, [](a_complex *r, a_complex z, a_complex, a_real s) { a_complex_add_real(r, z, s); a_complex q = z; a_complex_add_real_(&q, s); twin_check("add_real_", q, *r); }, [](C z, C, LD s) { return z + C(s); }},
    {"add_imag", 0, 3, CUT_NONE, 0, [](a_complex *r, a_complex z, a_complex, a_real s) { a_complex_add_imag(r, z, s); a_complex q = z; a_complex_add_imag_(&q, s); twin_check("add_imag_", q, *r); }, [](C z, C, LD s) { return z + C(0, s); }},
    {"sub_real", 0, 3, CUT_NONE, 0, [](a_complex *r, a_complex z, a_complex, a_real s) { a_complex_sub_real(r, z, s); a_complex q = z; a_complex_sub_real_(&q, s); twin_check("sub_real_", q, *r); }, [](C z, C, LD s) { return z - C(s); }},
    {"sub_imag", 0, 3, CUT_NONE, 0, [](a_complex *r, a_complex z, a_complex, a_real s) { a_complex_sub_imag(r, z, s); a_complex q = z; a_complex_sub_imag_(&q, s); twin_check("sub_imag_", q, *r); }, [](C z, C, LD s) { return z - C(0, s); }},
    {"mul_real", 0, 3, CUT_NONE, 0, [](a_complex *r, a_complex z, a_complex, a_real s) { a_complex_mul_real(r, z, s); }, [](C z, C, LD s) { return z * C(s); }},
    {"mul_imag", 0, 3, CUT_NONE, 0, [](a_complex *r, a_complex z, a_complex, a_real s) { a_complex_mul_imag(r, z, s); }, [](C z, C, LD s) { return z * C(0, s); }},
    {"div_real", 0, 3, CUT_NONE, 0, [](a_complex *r, a_complex z, a_complex, a_real s) { a_complex_div_real(r, z, s); }, [](C z, C, LD s) { return z / C(s); }},
    {"div_imag", 0, 3, CUT_NONE, 0, [](a_complex *r, a_complex z, a_complex, a_real s) { a_complex_div_imag(r, z, s); }, [](C z, C, LD s) { return z / C(0, s); }},
    {"mul_real_", 0, 3, CUT_NONE, 0, [](a_complex *r, a_complex z, a_complex, a_real s) { *r = z; a_complex_mul_real_(r, s); }, [](C z, C, LD s) { return z * C(s); }},
    {"mul_imag_", 0, 3, CUT_NONE, 0, [](a_complex *r, a_complex z, a_complex, a_real s) { *r = z; a_complex_mul_imag_(r, s); }, [](C z, C, LD s) { return z * C(0, s); }},
    {"div_real_", 0, 3, CUT_NONE, 0, [](a_complex *r, a_complex z, a_complex, a_real s) { *r = z; a_complex_div_real_(r, s); }, [](C z, C, LD s) { return z / C(s); }},
    {"div_imag_", 0, 3, CUT_NONE, 0, [](a_complex *r, a_complex z, a_complex, a_real s) { *r = z; a_complex_div_imag_(r, s); }, [](C z, C, LD s) { return z / C(0, s); }},
    {"mul_", 0, 2, CUT_NONE, 0, [](a_complex *r, a_complex z, a_complex w, a_real) { *r = z; a_complex_mul_(r, w); }, [](C z, C w, LD) { return z * w; }},
    {"div_", 0, 2, CUT_NONE, 0, [](a_complex *r, a_complex z, a_complex w, a_real) { *r = z; a_complex_div_(r, w); }, [](C z, C w, LD) { return z / w; }},
    {"inv", 0, 1, CUT_NONE, 0, F1(inv), [](C z, C, LD) { return C(1) / z; }},
    {"conj", 0, 1, CUT_NONE, 0, [](a_complex *r, a_complex z, a_complex, a_real) { a_complex_conj(r, z); a_complex q = z; a_complex_conj_(&q); twin_check("conj_", q, *r); }, [](C z, C, LD) { return std::conj(z); }},
    {"neg", 0, 1, CUT_NONE, 0, [](a_complex *r, a_complex z, a_complex, a_real) { a_complex_neg(r, z); a_complex q = z; a_complex_neg_(&q); twin_check("neg_", q, *r); }, [](C z, C, LD) { return -z; }},
    {"polar", 0, 1, CUT_NONE, 0, [](a_complex *r, a_complex z, a_complex, a_real) { a_complex_polar(r, z.real, z.imag); }, [](C z, C, LD) { return C(z.real() * cosl(z.imag()), z.real() * sinl(z.imag())); }},
    {"abs", 0, 1, CUT_NONE, 0, [](a_complex *r, a_complex z, a_complex, a_real) { r->real = a_complex_abs(z); r->imag = 0; }, [](C z, C, LD) { return C(std::abs(z)); }},
    {"abs2", 0, 1, CUT_NONE, 0, [](a_complex *r, a_complex z, a_complex, a_real) { r->real = a_complex_abs2(z); r->imag = 0; }, [](C z, C, LD) { return C(std::norm(z)); }},
    {"logabs", 0, 1, CUT_NONE, 0, [](a_complex *r, a_complex z, a_complex, a_real) { r->real = a_complex_logabs(z); r->imag = 0; }, [](C z, C, LD) { return C(logl(std::abs(z))); }},
    {"arg", 0, 1, CUT_NEGREAL, 0, [](a_complex *r, a_complex z, a_complex, a_real) { r->real = a_complex_arg(z); r->imag = 0; }, [](C z, C, LD) { return C(std::arg(z)); }},
    // ---- sqrt, powers, exponential, logarithms
    {"sqrt", 1, 1, CUT_NEGREAL, 0, F1(sqrt), [](C z, C, LD) { return c99(csqrtl(toc(z))); }},
    {"pow", 1, 2, CUT_NEGREAL, 3, [](a_complex *r, a_complex z, a_complex w, a_real) { a_complex_pow(r, z, w); }, [](C z, C w, LD) { return c99(cpowl(toc(z), toc(w))); }},
    {"pow_real", 1, 3, CUT_NEGREAL, 3, [](a_complex *r, a_complex z, a_complex, a_real s) { a_complex_pow_real(r, z, s); }, [](C z, C, LD s) { return c99(cpowl(toc(z), toc(C(s)))); }},
    {"exp", 1, 1, CUT_NONE, 1, F1(exp), [](C z, C, LD) { return c99(cexpl(toc(z))); }},
    {"log", 1, 1, CUT_NEGREAL, 0, F1(log), [](C z, C, LD) { return c99(clogl(toc(z))); }},
    {"log2", 1, 1, CUT_NEGREAL, 0, F1(log2), [](C z, C, LD) { return c99(clogl(toc(z))) / C(0.693147180559945309417232121458176568L); }},
    {"log10", 1, 1, CUT_NEGREAL, 0, F1(log10), [](C z, C, LD) { return c99(clogl(toc(z))) / C(2.302585092994045684017991454684364208L); }},
    {"logb", 1, 2, CUT_NEGREAL, 0, [](a_complex *r, a_complex z, a_complex w, a_real) { a_complex_logb(r, z, w); }, [](C z, C w, LD) { return c99(clogl(toc(z))) / c99(clogl(toc(w))); }},
    // ---- trigonometric
    {"sin", 2, 1, CUT_NONE, 2, F1(sin), [](C z, C, LD) { return c99(csinl(toc(z))); }},
    {"cos", 2, 1, CUT_NONE, 2, F1(cos), [](C z, C, LD) { return c99(ccosl(toc(z))); }},
    {"tan", 2, 1, CUT_NONE, 2, F1(tan), [](C z, C, LD) { return c99(ctanl(toc(z))); }},
    {"sec", 2, 1, CUT_NONE, 2, F1(sec), [](C z, C, LD) { return one_over(c99(ccosl(toc(z)))); }},
    {"csc", 2, 1, CUT_NONE, 2, F1(csc), [](C z, C, LD) { return one_over(c99(csinl(toc(z)))); }},
    {"cot", 2, 1, CUT_NONE, 2, F1(cot), [](C z, C, LD) { return one_over(c99(ctanl(toc(z)))); }},
    // ---- inverse trigonometric
    {"asin", 3, 1, CUT_REAL_OUT1, 0, F1(asin), [](C z, C, LD) { return c99(casinl(toc(z))); }},
    {"acos", 3, 1, CUT_REAL_OUT1, 0, F1(acos), [](C z, C, LD) { return c99(cacosl(toc(z))); }},
    {"atan", 3, 1, CUT_IMAG_OUT1, 0, F1(atan), [](C z, C, LD) { return c99(catanl(toc(z))); }},
    {"asec", 3, 1, CUT_RECIP_REAL_IN1, 0, F1(asec), [](C z, C, LD) { return c99(cacosl(toc(one_over(z)))); }},
    {"acsc", 3, 1, CUT_RECIP_REAL_IN1, 0, F1(acsc), [](C z, C, LD) { return c99(casinl(toc(one_over(z)))); }},
    {"acot", 3, 1, CUT_RECIP_IMAG_IN1, 0, F1(acot), [](C z, C, LD) { return c99(catanl(toc(one_over(z)))); }},
    // ---- hyperbolic
    {"sinh", 4, 1, CUT_NONE, 1, F1(sinh), [](C z, C, LD) { return c99(csinhl(toc(z))); }},
    {"cosh", 4, 1, CUT_NONE, 1, F1(cosh), [](C z, C, LD) { return c99(ccoshl(toc(z))); }},
    {"tanh", 4, 1, CUT_NONE, 1, F1(tanh), [](C z, C, LD) { return c99(ctanhl(toc(z))); }},
    {"sech", 4, 1, CUT_NONE, 1, F1(sech), [](C z, C, LD) { return one_over(c99(ccoshl(toc(z)))); }},
    {"csch", 4, 1, CUT_NONE, 1, F1(csch), [](C z, C, LD) { return one_over(c99(csinhl(toc(z)))); }},
    {"coth", 4, 1, CUT_NONE, 1, F1(coth), [](C z, C, LD) { return one_over(c99(ctanhl(toc(z)))); }},
    // ---- inverse hyperbolic
    {"asinh", 5, 1, CUT_IMAG_OUT1, 0, F1(asinh), [](C z, C, LD) { return c99(casinhl(toc(z))); }},
    {"acosh", 5, 1, CUT_REAL_LT1, 0, F1(acosh), [](C z, C, LD) { return c99(cacoshl(toc(z))); }},
    {"atanh", 5, 1, CUT_REAL_OUT1, 0, F1(atanh), [](C z, C, LD) { return c99(catanhl(toc(z))); }},
    {"asech", 5, 1, CUT_RECIP_ACOSH, 0, F1(asech), [](C z, C, LD) { return c99(cacoshl(toc(one_over(z)))); }},
    {"acsch", 5, 1, CUT_RECIP_IMAG_IN1, 0, F1(acsch), [](C z, C, LD) { return c99(casinhl(toc(one_over(z)))); }},
    {"acoth", 5, 1, CUT_RECIP_REAL_IN1, 0, F1(acoth), [](C z, C, LD) { return c99(catanhl(toc(one_over(z)))); }},
};
static unsigned const NFN = sizeof(fns) / sizeof(fns[0]);

// real-argument variants: (name, call, reference on the real axis approached from above for x outside the real domain)
struct RFn
{
    char const *name;
    void (*call)(a_complex *r, a_real x);
    C (*ref)(LD x);
};
static RFn const rfns[] = {
    {"sqrt_real", [](a_complex *r, a_real x) { a_complex_sqrt_real(r, x); }, [](LD x) { return x >= 0 ? C(sqrtl(x)) : C(0, sqrtl(-x)); }},
    {"asin_real", [](a_complex *r, a_real x) { a_complex_asin_real(r, x); }, [](LD x) { return c99(casinl(toc(C(x, 0.0L)))); }},
    {"acos_real", [](a_complex *r, a_real x) { a_complex_acos_real(r, x); }, [](LD x) { return c99(cacosl(toc(C(x, 0.0L)))); }},
    {"asec_real", [](a_complex *r, a_real x) { a_complex_asec_real(r, x); }, [](LD x) { return c99(cacosl(toc(C(1 / x, 0.0L)))); }},
    {"acsc_real", [](a_complex *r, a_real x) { a_complex_acsc_real(r, x); }, [](LD x) { return c99(casinl(toc(C(1 / x, 0.0L)))); }},
    {"acosh_real", [](a_complex *r, a_real x) { a_complex_acosh_real(r, x); }, [](LD x) { return c99(cacoshl(toc(C(x, 0.0L)))); }},
    {"atanh_real", [](a_complex *r, a_real x) { a_complex_atanh_real(r, x); }, [](LD x) { return c99(catanhl(toc(C(x, 0.0L)))); }},
};
static unsigned const NRFN = sizeof(rfns) / sizeof(rfns[0]);

// wide modulus for operations whose true result stays representable (field arithmetic, sqrt, logarithms, inverses)
static a_real wide_modulus(Tape &t, Ctx &cx)
{
    int lim = A_SIZE_REAL == 4 ? 120 : 1000;
    int e = int(t.u16() % unsigned(2 * lim + 1)) - lim;
    cx.label(L_WIDE_MODULUS);
    return a_real(std::ldexp(1.0 + double(t.u32()) / 4294967296.0, e));
}
static a_real modulus(Tape &t, Ctx &cx)
{
    static double const d[] = {2.220446049250313e-16, 1.4901161193847656e-08, 0.1, 0.5, 0.6417, 1.0, 1.5, 2.0, 6.7108864e7, 1e-4, 3.0, 10.0};
    a_real m;
    if (t.u8() % 4 == 0)
    {
        m = a_real(d[t.u8() % 12]);
        int k = int(t.u8() % 9) - 4;
        for (int i = 0; i < (k < 0 ? -k : k); ++i) { m = std::nextafter(m, k < 0 ? a_real(0) : a_real(INFINITY)); }
        cx.label(L_NEAR_SWITCH);
    }
    else
    {
        int e = int(t.u8() % unsigned(2 * EMAG + 1)) - EMAG;
        m = a_real(std::ldexp(1.0 + double(t.u32()) / 4294967296.0, e));
    }
    if (m < a_real(0.5)) { cx.label(L_SMALL); }
    if (m > a_real(2)) { cx.label(L_LARGE); }
    return m;
}

// complex argument: modulus class x angle class
static bool g_origin = false;
static a_complex gen_z(Tape &t, Ctx &cx, bool &offaxis_interesting, bool wide = false)
{
    a_real m = (wide && t.u8() % 3 == 0) ? wide_modulus(t, cx) : modulus(t, cx);
    uint8_t acb = t.u8(), ac = acb % 10;
    double th;
    a_complex z;
    offaxis_interesting = false;
    if (acb >= 250)
    {
        // the origin itself (the functions that branch on a zero argument; where 0 is a pole the reference is not finite and
        // the case is counted as excluded)
        z.real = 0;
        z.imag = 0;
        cx.label(L_ORIGIN);
        g_origin = true;
    }
    else if (acb >= 238)
    {
        // both components independently from a pool of constants that code may single out (e, 2, 10, pi, ...): the point as a
        // whole is an ordinary one
        static double const pool[] = {2.718281828459045, 2.0, 10.0, 1.0, 0.5, 3.141592653589793, 1.5707963267948966, 0.6931471805599453,
                                      1.4142135623730951, 0.36787944117144233, 3.0, 0.1};
        uint8_t pb = t.u8();
        z.real = a_real(pool[pb % 12]);
        z.imag = a_real(pool[(pb / 12) % 12]);
        if (pb & 0x80) { z.real = -z.real; }
        if (t.coin()) { z.imag = -z.imag; }
        cx.label(L_SPECIAL_COMPONENTS);
        offaxis_interesting = true;
    }
    else if (ac < 5)
    {
        // interior of a quadrant
        unsigned q = ac % 4;
        double f = 0.05 + 0.9 * double(t.u16()) / 65535.0;
        th = (q + f) * 1.5707963267948966;
        cx.label(L_Q1 + q);
        z.real = a_real(double(m) * std::cos(th));
        z.imag = a_real(double(m) * std::sin(th));
        offaxis_interesting = m < a_real(0.5) || m > a_real(2);
    }
    else if (ac < 8)
    {
        // near an axis: relative distance 1e-6 .. 1e-3
        unsigned ax = t.u8() % 4;
        double rel = std::pow(10.0, -6.0 + 3.0 * double(t.u8()) / 255.0) * (t.coin() ? 1 : -1);
        double a = double(m), b = double(m) * rel;
        switch (ax)
        {
        case 0: z.real = a_real(a); z.imag = a_real(b); break;
        case 1: z.real = a_real(b); z.imag = a_real(a); break;
        case 2: z.real = a_real(-a); z.imag = a_real(b); break;
        default: z.real = a_real(b); z.imag = a_real(-a); break;
        }
        cx.label(L_NEAR_AXIS);
        offaxis_interesting = true;
    }
    else
    {
        // exactly on an axis (kept only where that axis is not a cut of the function)
        unsigned ax = t.u8() % 4;
        switch (ax)
        {
        case 0: z.real = m; z.imag = 0; break;
        case 1: z.real = 0; z.imag = m; break;
        case 2: z.real = -m; z.imag = 0; break;
        default: z.real = 0; z.imag = -m; break;
        }
        cx.label(L_ON_AXIS);
    }
    return z;
}

// Grey-box class for the inverse families: the usual algorithm for asin/acos (Hull, Fairgrieve, Tang) splits the plane
// by a = (|z+1| + |z-1|)/2 against 1.5, b = |Re z| / a against 0.6417 and |Re z| against 1. Points are constructed on these
// curves and at their pairwise intersections (within 1e-6 .. 1e-16 relative), where two branch decisions meet. This steers the
// generator only; the oracle stays the long double reference.
static bool corner_point(Tape &t, LD &x, LD &y)
{
    auto eps = [&]() { LD e = powl(10.0L, -(6.0L + 10.0L * t.u8() / 255.0L)); return t.coin() ? e : -e; };
    LD a, b;
    switch (t.u8() % 6)
    {
    case 0: x = 1 + (t.u8() % 4 ? eps() : 0); a = 1.5L * (1 + eps()); break;
    case 1: a = 1.5L * (1 + eps()); b = 0.6417L * (1 + eps()); x = a * b; break;
    case 2: x = 1 + (t.u8() % 4 ? eps() : 0); b = 0.6417L * (1 + eps()); a = x / b; break;
    case 3: a = 1.5L * (1 + eps()); x = a * t.u16() / 65535.0L; break;
    case 4: b = 0.6417L * (1 + eps()); a = 1 + 2.0L * t.u16() / 65535.0L; x = a * b; break;
    default: x = 1 + eps(); y = powl(10.0L, -8.0L + 9.0L * t.u8() / 255.0L); return true;
    }
    if (!(a > 1) || !(x < a) || !(x >= 0)) { return false; }
    y = sqrtl((a * a - 1) * (1 - x * x / (a * a)));
    return y > 0;
}

// keep a relative distance >= 2e-6 from the function's branch cut (construction, counted)
static bool push_off_cut(Cut cut, a_complex &z, bool side, Ctx &cx)
{
    LD re = z.real, im = z.imag, m = hypotl(re, im);
    LD d = 2e-6L * m;
    bool moved = false;
    auto push_im = [&]() { if (fabsl(im) < d) { z.imag = a_real((im < 0 || (im == 0 && side)) ? -d : d); moved = true; } };
    auto push_re = [&]() { if (fabsl(re) < d) { z.real = a_real((re < 0 || (re == 0 && side)) ? -d : d); moved = true; } };
    switch (cut)
    {
    case CUT_NONE: break;
    case CUT_NEGREAL: if (re < 0) { push_im(); } break;
    case CUT_REAL_OUT1: if (fabsl(re) > 1 - 1e-3L) { push_im(); } break;
    case CUT_IMAG_OUT1: if (fabsl(im) > 1 - 1e-3L) { push_re(); } break;
    case CUT_REAL_LT1: if (re < 1 + 1e-3L) { push_im(); } break;
    case CUT_RECIP_REAL_IN1: if (fabsl(re) < 1 + 1e-3L) { push_im(); } break;   // 1/z real with |1/z| > 1
    case CUT_RECIP_IMAG_IN1: if (fabsl(im) < 1 + 1e-3L) { push_re(); } break;
    case CUT_RECIP_ACOSH: if (re > 1 - 1e-3L || re < 1e-3L * 0 + 0 || re < 0) { push_im(); } break; // 1/z real and < 1  <=>  z real, z > 1 or z < 0
    }
    if (moved) { cx.label(L_PUSHED_OFF_CUT); ++cx.rep->excluded; }
    return moved;
}

static LD const HUGE_ = A_SIZE_REAL == 4 ? 1e37L : 1e300L; // true values beyond this are treated as not representable (skipped)
static bool finite_c(C v) { return v.real() == v.real() && v.imag() == v.imag() && fabsl(v.real()) < HUGE_ && fabsl(v.imag()) < HUGE_; }

// kappa: max over directions d in {1, i} of |f(z + eps|z|d) - f(z)| / eps
static LD kappa(Fn const &f, C z, C w, LD s, C fz)
{
    LD eps = 9.313225746154785e-10L; // 2^-30
    LD m = std::abs(z), k = 0;
    C dirs[2] = {C(1, 0), C(0, 1)};
    for (C d : dirs)
    {
        for (LD sgn : {1.0L, -1.0L})
        {
            C v = f.ref(z + d * (sgn * eps * m), w, s);
            if (finite_c(v))
            {
                LD q = std::abs(v - fz) / eps;
                if (q > k) { k = q; }
            }
        }
    }
    if (f.arity == 2)
    {
        LD mw = std::abs(w);
        for (C d : dirs)
        {
            C v = f.ref(z, w + d * (eps * mw), s);
            if (finite_c(v))
            {
                LD q = std::abs(v - fz) / eps;
                if (q > k) { k = q; }
            }
        }
    }
    if (f.arity == 3)
    {
        C v = f.ref(z, w, s * (1 + eps));
        if (finite_c(v))
        {
            LD q = std::abs(v - fz) / eps;
            if (q > k) { k = q; }
        }
    }
    return k;
}

// Sub-cases of one tape run in one process and the library may not keep anything between calls. One linked form of sub-case
// exercises that: the previous two-operand function is called again with its previous second operand mapped through a
// one-operand library function (bases b, log b, log log b ...; exponents w, exp w ...). The oracle is unchanged.
static int g_prev_id = -1;
static a_complex g_prev_w;

static void case_fn(Tape &t, Ctx &cx)
{
    uint8_t idb = t.u8();
    unsigned id = idb % NFN;
    bool linked = false;
    a_complex wl = {1, 0};
    if (idb / NFN == 3 && g_prev_id >= 0 && fns[g_prev_id].arity == 2 && fns[id].arity == 1)
    {
        a_complex r0 = {a_real(0), a_real(0)}, dummy = {1, 0};
        fns[id].call(&r0, g_prev_w, dummy, 1);
        // only results inside the modulus window of the ordinary generator are fed back (the arguments stay in the domain
        // every other sub-case draws from)
        LD m0 = hypotl((LD)r0.real, (LD)r0.imag);
        if (std::isfinite(double(r0.real)) && std::isfinite(double(r0.imag)) && m0 >= ldexpl(1, -EMAG) && m0 <= ldexpl(1, EMAG + 1))
        {
            cx.log("linked: previous function %s again, second operand = %s(previous second operand)\n", fns[g_prev_id].name, fns[id].name);
            wl = r0;
            id = unsigned(g_prev_id);
            linked = true;
            cx.label(L_LINKED);
        }
    }
    Fn const &f = fns[id];
    bool inter, inter2 = false;
    bool wide = (f.family == 0 || (f.family == 1 && f.growth == 0)) && strcmp(f.name, "polar") != 0;
    g_origin = false;
    a_complex z = gen_z(t, cx, inter, wide), w = {1, 0};
    a_real s = 1;
    bool big_exponent = false;
    bool side = t.coin();
    if ((f.family == 3 || f.family == 5) && t.u8() % 5 == 0)
    {
        LD cxr, cyi;
        if (corner_point(t, cxr, cyi))
        {
            C w0((t.coin() ? -cxr : cxr), (t.coin() ? -cyi : cyi)); // the argument the asin/acos kernel sees
            C zz = w0;
            // map back through the reductions used by the other members of the family
            if (!strcmp(f.name, "asinh")) { zz = w0 * C(0, -1); }                 // asinh z = -i asin(iz)
            else if (!strcmp(f.name, "acsc") || !strcmp(f.name, "asec") || !strcmp(f.name, "asech")) { zz = C(1) / w0; }
            else if (!strcmp(f.name, "acsch")) { zz = C(1) / (w0 * C(0, -1)); }
            z.real = a_real(zz.real());
            z.imag = a_real(zz.imag());
            inter = true;
            cx.label(L_ALGO_CORNER);
        }
    }
    push_off_cut(f.cut, z, side, cx);
    if (f.arity == 2)
    {
        if (linked) { w = wl; }
        else { w = gen_z(t, cx, inter2, wide); }
        if (!strcmp(f.name, "logb"))
        {
            // base 0 is not in the domain of a logarithm (log 0 is a pole; the quotient by it only looks finite in the reference)
            if (w.real == 0 && w.imag == 0) { ++cx.rep->excluded; return; }
            push_off_cut(CUT_NEGREAL, w, !side, cx);
        }
        if (f.growth == 3)
        {
            // keep the exponent moderate so that the power is representable
            LD mw = hypotl((LD)w.real, (LD)w.imag);
            if (mw > 8) { w.real = a_real(w.real * 8 / mw); w.imag = a_real(w.imag * 8 / mw); }
        }
    }
    if (f.arity == 3)
    {
        s = modulus(t, cx);
        if (t.coin()) { s = -s; }
        if (f.growth == 3 && std::fabs(double(s)) > 8) { s = a_real(s > 0 ? 8 : -8) + a_real(double(t.u8()) / 64); }
        if (f.growth == 3 && t.u8() % 6 == 0)
        {
            // large exponents, integral ones at the limits of the integer types in particular, with a base so close to the unit
            // circle that the power stays representable: |z| = exp(q * EXPLIM / |s|), q in [-1, 1]; the angle is kept
            static double const big[] = {2147483648.0, 2147483647.0, 2147483649.0, 32768.0, 65536.0, 4294967296.0, 4294967295.0, 1073741824.0,
                                         16777216.0, 1e6, 127.0, 128.0, 255.0, 256.0, 1000.5, 8388608.0};
            uint8_t bb = t.u8();
            double e = big[bb % 16];
            if (A_SIZE_REAL == 4 && e > 16777216.0 && double(float(e)) != e) { e = double(float(e)); }
            s = a_real((bb & 16) ? -e : e);
            LD q = (LD(t.u16()) / 32767.5L - 1) * 0.9L;
            LD mnew = expl(q * EXPLIM / fabsl((LD)s));
            LD mold = hypotl((LD)z.real, (LD)z.imag);
            if (mold > 0)
            {
                z.real = a_real((LD)z.real * (mnew / mold));
                z.imag = a_real((LD)z.imag * (mnew / mold));
            }
            // judged only where the linear condition estimate means something: |s| u well below 1 (a backward error of one
            // rounding of z changes the power by the factor exp(|s| u); beyond that every result is as good as any other)
            if (fabsl((LD)s) * U_ > ldexpl(1, -10)) { ++cx.rep->excluded; return; }
            cx.label(L_BIG_EXPONENT);
            big_exponent = true;
        }
    }
    // exponential growth: keep the growing part inside the representable range
    if (f.growth == 1 || f.growth == 2)
    {
        a_real &g = f.growth == 1 ? z.real : z.imag;
        if (fabsl((LD)g) > EXPLIM) { g = a_real(std::fmod(double(g), double(EXPLIM))); }
    }
    if (f.growth == 3 && !(z.real == 0 && z.imag == 0))
    {
        LD lm = fabsl(logl(hypotl((LD)z.real, (LD)z.imag)));
        LD we = f.arity == 2 ? hypotl((LD)w.real, (LD)w.imag) : fabsl((LD)s);
        if (lm * we > EXPLIM) { ++cx.rep->excluded; return; }
    }
    if (z.real == 0 && z.imag == 0 && !g_origin) { z.real = 1; }
    g_prev_id = f.arity == 2 ? int(id) : -1;
    g_prev_w = w;
    C Z((LD)z.real, (LD)z.imag), W((LD)w.real, (LD)w.imag);
    C ref = f.ref(Z, W, (LD)s);
    cx.hash.add(id);
    cx.hash.addd(double(z.real)); cx.hash.addd(double(z.imag));
    if (f.arity == 2) { cx.hash.addd(double(w.real)); cx.hash.addd(double(w.imag)); }
    if (f.arity == 3) { cx.hash.addd(double(s)); }
    cx.label(unsigned(L_FIELD + f.family));
    cx.log("%s z=(%.17g, %.17g) w=(%.17g, %.17g) s=%.17g\n", f.name, double(z.real), double(z.imag), double(w.real), double(w.imag), double(s));
    if (!finite_c(ref))
    {
        ++cx.rep->excluded; // pole / overflow of the true value
        return;
    }
    if (inter || inter2) { cx.rep->nontrivial = true; }
    a_complex r = {a_real(123.25), a_real(-77.5)};
    g_twin_mismatch = nullptr;
    f.call(&r, z, w, s);
    if (g_twin_mismatch) { cx.fail("twin:differs", "%s: the in-place / helper form %s disagrees with the out-of-place result (%.17g, %.17g)", f.name, g_twin_mismatch, double(r.real), double(r.imag)); }
    C got((LD)r.real, (LD)r.imag);
    LD k = kappa(f, Z, W, (LD)s, ref);
    if (big_exponent)
    {
        // the difference quotient of kappa() (relative step 2^-30) wraps the angle many times for exponents of this size and
        // saturates at 2|f|/step; the condition of z^s is known in closed form: |s| |f| for z, |s log z| |f| for s
        LD kz = fabsl((LD)s) * std::abs(ref) * (1 + std::abs(std::log(Z)));
        if (kz > k) { k = kz; }
    }
    // results in or below the subnormal range of the type carry absolute, not relative precision
    LD denom = U_ * (std::abs(ref) + k) + TINY_ * 4;
    LD err = std::abs(got - ref);
    if (!(got.real() == got.real() && got.imag() == got.imag())) { err = 1e300L; }
    LD ratio = err / denom;
    cx.metric(unsigned(f.family), double(ratio));
    // inverse families: K = 128 (fallback bodies chain several real helpers), all others K = 32
    LD K = (f.family == 3 || f.family == 5) ? 4 * VP_K : VP_K;
    if (!(ratio <= K))
    {
        char sig[64];
        snprintf(sig, sizeof(sig), "%s:inaccurate", f.name);
        cx.fail(sig, "a_complex_%s(z=(%.17g, %.17g)%s) = (%.17Lg, %.17Lg), reference (%.17Lg, %.17Lg): error %.3Lg u*(|f|+kappa), kappa %.3Lg [config %s]",
                f.name, double(z.real), double(z.imag), f.arity > 1 ? ", second operand" : "", got.real(), got.imag(), ref.real(), ref.imag(), ratio, k, VP_CFG);
    }
}

static void case_real(Tape &t, Ctx &cx)
{
    unsigned id = t.u8() % NRFN;
    RFn const &f = rfns[id];
    a_real x = modulus(t, cx);
    if (t.coin()) { x = -x; }
    // away from the branch points +-1 (and 0 for the reciprocal forms)
    if (std::fabs(std::fabs(double(x)) - 1) < 1e-3) { x = a_real(x > 0 ? 1.25 : -1.25); }
    C ref = f.ref((LD)x);
    cx.hash.add(200 + id);
    cx.hash.addd(double(x));
    cx.label(L_REALARG);
    cx.log("%s x=%.17g\n", f.name, double(x));
    if (!finite_c(ref)) { ++cx.rep->excluded; return; }
    cx.rep->nontrivial = true;
    a_complex r = {a_real(123.25), a_real(-77.5)};
    f.call(&r, x);
    C got((LD)r.real, (LD)r.imag);
    // on a cut the real-argument variant may take either side: compare with the nearer of the two conjugate-side values
    C ref2(ref.real(), -ref.imag());
    LD eps = 9.313225746154785e-10L;
    C v = f.ref((LD)x * (1 + eps));
    LD k = finite_c(v) ? std::abs(v - ref) / eps : 0;
    LD denom = U_ * (std::abs(ref) + k) + 1e-300L;
    LD e1 = std::abs(got - ref), e2 = std::abs(got - ref2);
    // the conjugate side is acceptable only where x lies on the cut of the underlying function (imaginary part free in sign)
    bool on_cut = false;
    switch (id)
    {
    case 1: case 2: case 6: on_cut = fabsl((LD)x) > 1; break;
    case 3: case 4: on_cut = fabsl((LD)x) < 1; break;
    case 5: on_cut = (LD)x < 1; break;
    default: break;
    }
    LD err = on_cut ? (e1 < e2 ? e1 : e2) : e1;
    if (!(got.real() == got.real() && got.imag() == got.imag())) { err = 1e300L; }
    LD ratio = err / denom;
    cx.metric(6, double(ratio));
    if (!(ratio <= VP_K))
    {
        char sig[64];
        snprintf(sig, sizeof(sig), "%s:inaccurate", f.name);
        cx.fail(sig, "a_complex_%s(%.17g) = (%.17Lg, %.17Lg), reference (%.17Lg, %+.17Lg): error %.3Lg u*(|f|+kappa) [config %s]", f.name, double(x), got.real(), got.imag(), ref.real(), ref.imag(), ratio, VP_CFG);
    }
}

static void case_pairs(Tape &t, Ctx &cx)
{
    bool i1, i2;
    a_complex z = gen_z(t, cx, i1), w = gen_z(t, cx, i2);
    a_real y = modulus(t, cx);
    if (t.coin()) { y = -y; }
    if (z.real == 0 && z.imag == 0) { z.real = 1; }
    if (w.real == 0 && w.imag == 0) { w.imag = 1; }
    cx.label(L_PAIRS);
    cx.rep->nontrivial = true;
    cx.hash.add(300);
    cx.hash.addd(double(z.real)); cx.hash.addd(double(z.imag)); cx.hash.addd(double(w.real)); cx.hash.addd(double(w.imag)); cx.hash.addd(double(y));
    cx.log("inverse pairs z=(%.17g, %.17g) w=(%.17g, %.17g) y=%.17g\n", double(z.real), double(z.imag), double(w.real), double(w.imag), double(y));
    LD mz = hypotl((LD)z.real, (LD)z.imag);
    auto chk = [&](char const *sig, char const *what, a_complex r, LD slack) {
        LD err = hypotl((LD)r.real - (LD)z.real, (LD)r.imag - (LD)z.imag);
        LD ratio = err / (U_ * mz * slack);
        if (!(r.real == r.real && r.imag == r.imag)) { ratio = 1e30L; }
        cx.metric(7, double(ratio * slack));
        if (!(ratio <= VP_K)) { cx.fail(sig, "%s of z=(%.17g, %.17g) gives (%.17g, %.17g) [config %s]", what, double(z.real), double(z.imag), double(r.real), double(r.imag), VP_CFG); }
    };
    a_complex a, b;
    a_complex_mul_real(&a, z, y);
    a_complex_div_real(&b, a, y);
    chk("pair:mul_div_real", "div_real(mul_real(z, y), y)", b, 1);
    a_complex_mul_imag(&a, z, y);
    a_complex_div_imag(&b, a, y);
    chk("pair:mul_div_imag", "div_imag(mul_imag(z, y), y)", b, 1);
    a = z;
    a_complex_mul_imag_(&a, y);
    a_complex_div_imag_(&a, y);
    chk("pair:mul_div_imag_", "div_imag_(mul_imag_(z, y), y)", a, 1);
    a_complex_mul(&a, z, w);
    a_complex_div(&b, a, w);
    chk("pair:mul_div", "div(mul(z, w), w)", b, 2);
    // exp(log z) = z ; log(exp z) = z for |Im z| < pi. The composition amplifies by |log z| resp. |z|.
    {
        a_complex zz = z;
        push_off_cut(CUT_NEGREAL, zz, t.coin(), cx);
        LD m2 = hypotl((LD)zz.real, (LD)zz.imag);
        C lg = c99(clogl(toc(C((LD)zz.real, (LD)zz.imag))));
        a_complex_log(&a, zz);
        a_complex_exp(&b, a);
        LD err = hypotl((LD)b.real - (LD)zz.real, (LD)b.imag - (LD)zz.imag);
        LD ratio = err / (U_ * m2 * (2 + std::abs(lg)));
        cx.metric(7, double(ratio));
        if (!(ratio <= VP_K)) { cx.fail("pair:exp_log", "exp(log(z)) of z=(%.17g, %.17g) gives (%.17g, %.17g) [config %s]", double(zz.real), double(zz.imag), double(b.real), double(b.imag), VP_CFG); }
    }
    {
        a_complex zz = z;
        if (fabsl((LD)zz.real) > 30) { zz.real = a_real(std::fmod(double(zz.real), 30.0)); }
        if (fabsl((LD)zz.imag) > 3.0L) { zz.imag = a_real(std::fmod(double(zz.imag), 3.0)); }
        a_complex_exp(&a, zz);
        a_complex_log(&b, a);
        LD m2 = hypotl((LD)zz.real, (LD)zz.imag);
        LD err = hypotl((LD)b.real - (LD)zz.real, (LD)b.imag - (LD)zz.imag);
        LD ratio = err / (U_ * (2 + m2) * 2);
        cx.metric(7, double(ratio));
        if (!(ratio <= VP_K)) { cx.fail("pair:log_exp", "log(exp(z)) of z=(%.17g, %.17g) gives (%.17g, %.17g) [config %s]", double(zz.real), double(zz.imag), double(b.real), double(b.imag), VP_CFG); }
    }
}

static void run_case(Tape &t, Ctx &cx)
{
    unsigned k = 0;
    g_prev_id = -1;
    do {
        ++k;
        ++cx.rep->subcases;
        uint8_t c = t.u8() % 10;
        if (c < 7) { case_fn(t, cx); }
        else if (c < 9) { case_real(t, cx); }
        else { case_pairs(t, cx); }
    } while (!t.done() && k < 6);
}
VP_DEFINE_RUN(run_case)
