// C11 — real special functions, norms, coordinate conversions, reductions and shift helpers.
// One binary per build configuration (A_HAVE_* subset, real type); reference values in long double.
#include "../drv/vp.h"
#include <algorithm>
#include <cfloat>
#include <cmath>
#include <vector>
extern "C" {
#include "a/math.h"
}
typedef long double LD;
#ifndef VP_CFG
#define VP_CFG "default"
#endif
#if A_SIZE_REAL == 4
static LD const U_ = 5.9604644775390625e-8L; // 2^-24
static int const EMIN = -120, EMAX = 120;
static LD const TINY = 1.17549435e-38L;
#else
static LD const U_ = 1.1102230246251565e-16L; // 2^-53
static int const EMIN = -1000, EMAX = 1000;
static LD const TINY = 2.2250738585072014e-308L;
#endif
#ifndef VP_K
#define VP_K 16
#endif

enum { L_ASINH, L_ACOSH, L_ATANH, L_EXPM1, L_LOG1P, L_ATAN2, L_ATAN2_AXIS, L_NORM, L_NORM_EXTREME, L_COORD, L_REDUCE, L_REDUCE_STRIDED, L_SHIFT, L_SHIFT_LEN0, L_TINY_ARG, L_HUGE_ARG, L_NEAR_SWITCH, L_NORM_SUBNORMAL, L_NORM_LONG, L_NORM_SQRT_RANGE, L_FILL_PATTERN };
static char const *const labels[] = {"asinh", "acosh", "atanh", "expm1", "log1p", "atan2", "atan2_exact_axis", "norms", "norm_components_mix_huge_tiny", "coordinate_conversions",
                                     "reductions", "strided_reductions", "shift_helpers", "shift_helper_length_0", "argument_lt_1e-3", "argument_gt_1e3", "argument_near_formula_switch", "norm_subnormal_components", "norm_of_1000_to_300001_components", "norm_components_in_one_binade_at_the_root_of_the_range_limits", "fill_value_with_repeating_byte_groups", nullptr};
static char const *const metrics[] = {"asinh_err_u", "acosh_err_u", "atanh_err_u", "expm1_err_u", "log1p_err_u", "atan2_err_u", "norm_err_u", "coord_err_u", nullptr};
static uint8_t const dict[] = {0, 1, 2, 3, 4, 5, 6, 7};
static vp_info const info = {"C11", VP_CFG, "", labels, metrics, 200, dict, sizeof(dict)};
extern "C" vp_info const *vp_get_info(void) { return &info; }

static a_real mk(Tape &t, int emin, int emax)
{
    // magnitude 2^e * (1 + m), e uniform in [emin, emax]
    int e = emin + int(t.u16() % unsigned(emax - emin + 1));
    double m = 1.0 + double(t.u32()) / 4294967296.0;
    return a_real(std::ldexp(m, e));
}
// values at which implementations typically switch formulas, and their neighbours within 4 ulp
static a_real near_switch(Tape &t, Ctx &cx)
{
    static double const d[] = {2.220446049250313e-16, 1.4901161193847656e-08, 1.1920928955078125e-07, 3.4526698300124393e-04, 0.1, 0.5, 0.6417, 1.0, 1.5, 2.0, 67108864.0, 2896.3093757400989, 6.7108864e7, 0.25, 1e-3};
    a_real v = a_real(d[t.u8() % (sizeof(d) / sizeof(d[0]))]);
    int k = int(t.u8() % 9) - 4;
    for (int i = 0; i < (k < 0 ? -k : k); ++i) { v = std::nextafter(v, k < 0 ? a_real(0) : a_real(INFINITY)); }
    cx.label(L_NEAR_SWITCH);
    return v;
}
static a_real arg(Tape &t, Ctx &cx, int emin, int emax)
{
    a_real v = (t.u8() % 4 == 0) ? near_switch(t, cx) : mk(t, emin, emax);
    if (v < a_real(1e-3)) { cx.label(L_TINY_ARG); }
    if (v > a_real(1e3)) { cx.label(L_HUGE_ARG); }
    if (v < a_real(1e-3) || v > a_real(1e3)) { cx.rep->nontrivial = true; }
    return v;
}

static void judge(Ctx &cx, unsigned slot, char const *sig, char const *what, LD got, LD ref, LD K, LD x, LD y = 0)
{
    if (ref != ref) { return; }
    LD err = fabsl(got - ref);
    LD scale = U_ * fabsl(ref);
    if (fabsl(ref) < TINY * 4)
    {
        // results in the subnormal range carry absolute, not relative precision
        scale = U_ * TINY * 4;
    }
    LD ratio = err / scale;
    if (!(got == got)) { ratio = 1e30L; }
    if (slot < 8) { cx.metric(slot, double(ratio)); } // slot 8: long vectors, judged against n*u, kept out of the maxima
    if (!(ratio <= K)) { cx.fail(sig, "%s(%.17Lg%s%.17Lg) = %.17Lg, reference %.17Lg: error %.3Lg u [config %s]", what, x, y != 0 ? ", " : "", y, got, ref, ratio, VP_CFG); }
}

static void case_fn(Tape &t, Ctx &cx)
{
    unsigned f = t.u8() % 6;
    cx.hash.add(f);
    switch (f)
    {
    case 0: {
        a_real x = arg(t, cx, EMIN, EMAX);
        if (t.coin()) { x = -x; }
        cx.hash.addd(double(x));
        cx.label(L_ASINH);
        cx.log("asinh(%.17g)\n", double(x));
        judge(cx, 0, "asinh:inaccurate", "a_real_asinh", a_real_asinh(x), asinhl((LD)x), VP_K, x);
        break; }
    case 1: {
        a_real x;
        if (t.coin())
        {
            // 1 + tiny
            a_real d = mk(t, A_SIZE_REAL == 4 ? -23 : -52, 2);
            x = a_real(1) + d;
        }
        else { x = a_real(1) + arg(t, cx, -20, EMAX); }
        if (!(x >= 1)) { x = 1; }
        cx.hash.addd(double(x));
        cx.label(L_ACOSH);
        cx.rep->nontrivial = true;
        cx.log("acosh(%.17g)\n", double(x));
        judge(cx, 1, "acosh:inaccurate", "a_real_acosh", a_real_acosh(x), acoshl((LD)x), VP_K, x);
        break; }
    case 2: {
        a_real x;
        switch (t.u8() % 4)
        {
        case 0: x = arg(t, cx, EMIN, -1); break;                                        // near 0
        case 1: x = a_real(0.5) + a_real(std::ldexp(double(int(t.u8()) - 128), A_SIZE_REAL == 4 ? -26 : -55)); break; // around 0.5
        case 2: x = a_real(1) - mk(t, A_SIZE_REAL == 4 ? -24 : -53, -2); break;           // near 1
        default: x = a_real(double(t.u32()) / 4294967296.0); break;
        }
        if (!(x < 1)) { x = std::nextafter(a_real(1), a_real(0)); }
        if (t.coin()) { x = -x; }
        cx.hash.addd(double(x));
        cx.label(L_ATANH);
        cx.rep->nontrivial = true;
        cx.log("atanh(%.17g)\n", double(x));
        judge(cx, 2, "atanh:inaccurate", "a_real_atanh", a_real_atanh(x), atanhl((LD)x), VP_K, x);
        break; }
    case 3: {
        a_real x;
        switch (t.u8() % 4)
        {
        case 0: x = arg(t, cx, EMIN, -1); break;
        case 1: x = a_real(0.5) + a_real(std::ldexp(double(int(t.u8()) - 128), A_SIZE_REAL == 4 ? -26 : -55)); break;
        case 2: x = arg(t, cx, -1, A_SIZE_REAL == 4 ? 6 : 9); break;
        default: x = a_real(double(int32_t(t.u32())) / 2147483648.0 * 4); break;
        }
        if (t.coin()) { x = -x; }
        cx.hash.addd(double(x));
        cx.label(L_EXPM1);
        cx.log("expm1(%.17g)\n", double(x));
        LD ref = expm1l((LD)x);
        if (fabsl(ref) < (A_SIZE_REAL == 4 ? 3e38L : 1e308L)) { judge(cx, 3, "expm1:inaccurate", "a_real_expm1", a_real_expm1(x), ref, VP_K, x); }
        break; }
    case 4: {
        a_real x;
        switch (t.u8() % 5)
        {
        case 0: x = arg(t, cx, EMIN, -1); break;
        case 1: x = -arg(t, cx, EMIN, -1); break;
        case 2: x = arg(t, cx, -1, EMAX); break;
        case 3: x = -(a_real(1) - mk(t, A_SIZE_REAL == 4 ? -24 : -53, -1)); break; // near -1
        default: x = a_real(double(int32_t(t.u32())) / 2147483648.0) * a_real(0.99); break;
        }
        if (!(x > -1)) { x = std::nextafter(a_real(-1), a_real(0)); }
        cx.hash.addd(double(x));
        cx.label(L_LOG1P);
        cx.log("log1p(%.17g)\n", double(x));
        judge(cx, 4, "log1p:inaccurate", "a_real_log1p", a_real_log1p(x), log1pl((LD)x), VP_K, x);
        break; }
    default: {
        a_real y, x;
        uint8_t c = t.u8() % 8;
        if (c < 2)
        {
            // exactly on an axis
            a_real m = mk(t, EMIN, EMAX);
            switch (t.u8() % 4)
            {
            case 0: y = 0; x = m; break;
            case 1: y = 0; x = -m; break;
            case 2: y = m; x = 0; break;
            default: y = -m; x = 0; break;
            }
            cx.label(L_ATAN2_AXIS);
            cx.rep->nontrivial = true;
        }
        else
        {
            y = arg(t, cx, EMIN / 2, EMAX / 2);
            x = arg(t, cx, EMIN / 2, EMAX / 2);
            if (t.coin()) { y = -y; }
            if (t.coin()) { x = -x; }
        }
        cx.hash.addd(double(y));
        cx.hash.addd(double(x));
        cx.label(L_ATAN2);
        cx.log("atan2(%.17g, %.17g)\n", double(y), double(x));
        LD ref = atan2l((LD)y, (LD)x);
        LD got = a_real_atan2(y, x);
        if (y == 0 && x < 0)
        {
            // the mathematical value: +-pi are both the argument of a point on the negative real axis
            ref = got < 0 ? -fabsl(ref) : fabsl(ref);
        }
        judge(cx, 5, "atan2:inaccurate", "a_real_atan2", got, ref, VP_K, y, x);
        break; }
    }
}

static void case_norm(Tape &t, Ctx &cx)
{
    unsigned n = 1 + t.u8() % 40;
    unsigned stride = 1 + t.u8() % 4;
    uint8_t modeb = t.u8();
    uint8_t mode = modeb % 5;
    // values 250..255 of the same byte: all components share one binade at / next to the square root of the largest or smallest
    // normal number - where each square is still representable but their sum may not be (and the other way round)
    int e_common = 0;
    if (modeb >= 250)
    {
        int const emax_t = A_SIZE_REAL == 4 ? 128 : 1024, emin_t = A_SIZE_REAL == 4 ? -125 : -1021;
        mode = 5;
        e_common = (modeb & 1 ? emax_t / 2 : emin_t / 2) + int((modeb - 250) / 2) - 2; // -2, -1, 0 around the root
    }
    std::vector<a_real> v(n);
    bool extreme = false;
    for (auto &x : v)
    {
        switch (mode)
        {
        case 5: x = mk(t, e_common, e_common); extreme = true; cx.label(L_NORM_SQRT_RANGE); break;
        case 0: x = mk(t, -10, 10); break;
        case 1: x = mk(t, EMAX - 30, EMAX); extreme = true; break;              // squares would overflow
        case 2: x = mk(t, EMIN, EMIN + 30); extreme = true; break;              // squares would underflow
        case 4: x = mk(t, A_SIZE_REAL == 4 ? -149 : -1074, A_SIZE_REAL == 4 ? -120 : -1015); extreme = true; cx.label(L_NORM_SUBNORMAL); break; // subnormal components: the result is representable
        default: x = (t.u8() % 4 == 0) ? mk(t, EMAX - 20, EMAX) : (t.u8() % 3 == 0 ? a_real(0) : mk(t, EMIN, EMIN + 40)); extreme = true; break;
        }
        if (t.coin()) { x = -x; }
        cx.hash.addd(double(x));
    }
    cx.label(L_NORM);
    if (extreme) { cx.label(L_NORM_EXTREME); cx.rep->nontrivial = true; }
    cx.log("norms of %u components (mode %u, stride %u)\n", n, mode, stride);
    auto refnorm = [&](unsigned k) {
        LD s = 0;
        for (unsigned i = 0; i < k; ++i) { s += (LD)v[i] * (LD)v[i]; } // long double has the exponent range for the squares
        return sqrtl(s);
    };
    LD lim = A_SIZE_REAL == 4 ? 3.4e38L : 1.79e308L;
    // exact-size blocks
    a_real *p = (a_real *)malloc(sizeof(a_real) * n);
    memcpy(p, v.data(), sizeof(a_real) * n);
    a_real *ps = (a_real *)malloc(sizeof(a_real) * ((n - 1) * stride + 1));
    for (size_t i = 0; i < (n - 1) * stride + 1; ++i) { ps[i] = a_real(1e30); }
    for (unsigned i = 0; i < n; ++i) { ps[i * stride] = v[i]; }
    struct Fr { void *a, *b; ~Fr() { free(a); free(b); } } fr{p, ps};
    LD r = refnorm(n);
    if (r < lim)
    {
        LD g1 = a_real_norm(n, p), g2 = a_real_norm_(n, ps, stride);
        judge(cx, 6, "norm:inaccurate", "a_real_norm", g1, r, n + 4, n);
        judge(cx, 6, "norm_:inaccurate", "a_real_norm_ (strided)", g2, r, n + 4, n, stride);
        // the same call again after the caller has changed the vector in place (same argument values, other memory): the result
        // is a function of the components, not of the pointer - a declaration that lets the compiler reuse the first result
        // (attribute const on a function that reads caller memory) shows here
        {
            unsigned k = n - 1;
            a_real nv = v[k] == 0 ? a_real(3) : a_real(-2) * v[k];
            if (std::isfinite(double(nv)))
            {
                a_real keep = v[k];
                p[k] = nv;
                ps[k * stride] = nv;
                v[k] = nv;
                LD rb = refnorm(n);
                if (rb < lim)
                {
                    LD h1 = a_real_norm(n, p), h2 = a_real_norm_(n, ps, stride);
                    judge(cx, 6, "norm:stale_after_in_place_change", "a_real_norm after an in-place change of the last component", h1, rb, n + 4, n);
                    judge(cx, 6, "norm_:stale_after_in_place_change", "a_real_norm_ after an in-place change of the last component", h2, rb, n + 4, n, stride);
                }
                v[k] = keep;
                p[k] = keep;
                ps[k * stride] = keep;
            }
        }
    }
    if (n >= 2)
    {
        LD r2 = refnorm(2);
        if (r2 < lim)
        {
            judge(cx, 6, "norm2:inaccurate", "a_real_norm2", a_real_norm2(v[0], v[1]), r2, 6, v[0], v[1]);
            judge(cx, 6, "hypot:inaccurate", "a_real_hypot", a_real_hypot(v[0], v[1]), r2, 6, v[0], v[1]);
            // polar conversion of (x, y)
            a_real rho, theta;
            a_real_cart2pol(v[0], v[1], &rho, &theta);
            cx.label(L_COORD);
            judge(cx, 7, "cart2pol:rho", "a_real_cart2pol rho", rho, r2, 6, v[0], v[1]);
            LD rt = atan2l((LD)v[1], (LD)v[0]);
            if (v[1] == 0 && v[0] < 0) { rt = theta < 0 ? -fabsl(rt) : fabsl(rt); }
            if (mode != 4 && (v[0] != 0 || v[1] != 0)) { judge(cx, 7, "cart2pol:theta", "a_real_cart2pol theta", theta, rt, VP_K, v[1], v[0]); } /* the argument of the zero vector is not defined; with subnormal components the radius has too few bits for an accurate angle */
        }
    }
    if (n >= 3)
    {
        LD r3 = refnorm(3);
        if (r3 < lim)
        {
            judge(cx, 6, "norm3:inaccurate", "a_real_norm3", a_real_norm3(v[0], v[1], v[2]), r3, 8, v[0], v[1]);
            a_real rho, theta, alpha;
            a_real_cart2sph(v[0], v[1], v[2], &rho, &theta, &alpha);
            judge(cx, 7, "cart2sph:rho", "a_real_cart2sph rho", rho, r3, 10, v[0], v[1]);
            LD rxy = sqrtl((LD)v[0] * v[0] + (LD)v[1] * v[1]);
            LD ra = atan2l((LD)v[2], rxy);
            if (mode != 4 && fabsl(ra) > TINY * 1e6L) { judge(cx, 7, "cart2sph:alpha", "a_real_cart2sph alpha", alpha, ra, 2 * VP_K, v[2], rxy); }
        }
    }
    // inverse conversions at moderate magnitudes: x = rho cos(theta) etc. (absolute error relative to rho)
    {
        a_real rho = mk(t, -10, 10), th = a_real((double(t.u16()) / 65535.0 * 2 - 1) * 3.141592653589793), al = a_real((double(t.u16()) / 65535.0 - 0.5) * 3.141592653589793);
        a_real x, y, z;
        a_real_pol2cart(rho, th, &x, &y);
        LD tol = 8 * U_ * (LD)rho;
        VP_CHECK(cx, fabsl((LD)x - (LD)rho * cosl((LD)th)) <= tol && fabsl((LD)y - (LD)rho * sinl((LD)th)) <= tol, "pol2cart:inaccurate", "a_real_pol2cart(%.17g, %.17g) = (%.17g, %.17g)", double(rho), double(th), double(x), double(y));
        a_real_sph2cart(rho, th, al, &x, &y, &z);
        VP_CHECK(cx, fabsl((LD)x - (LD)rho * cosl((LD)al) * cosl((LD)th)) <= 2 * tol && fabsl((LD)y - (LD)rho * cosl((LD)al) * sinl((LD)th)) <= 2 * tol && fabsl((LD)z - (LD)rho * sinl((LD)al)) <= tol,
                 "sph2cart:inaccurate", "a_real_sph2cart(%.17g, %.17g, %.17g) = (%.17g, %.17g, %.17g)", double(rho), double(th), double(al), double(x), double(y), double(z));
    }
}

static void case_reduce(Tape &t, Ctx &cx)
{
    unsigned n = t.u8() % 21;
    unsigned c1 = 1 + t.u8() % 4, c2 = 1 + t.u8() % 4;
    bool ints = t.coin();
    std::vector<a_real> x(n), y(n);
    for (unsigned i = 0; i < n; ++i)
    {
        x[i] = ints ? a_real(int(t.u8()) - 128) : a_real(std::ldexp(double(int32_t(t.u32())) / 2147483648.0, int(t.u8() % 21) - 10));
        y[i] = ints ? a_real(int(t.u8()) - 128) : a_real(std::ldexp(double(int32_t(t.u32())) / 2147483648.0, int(t.u8() % 21) - 10));
        cx.hash.addd(double(x[i]));
        cx.hash.addd(double(y[i]));
    }
    cx.label(L_REDUCE);
    if (c1 > 1 || c2 > 1) { cx.label(L_REDUCE_STRIDED); }
    if (n >= 2) { cx.rep->nontrivial = true; }
    cx.log("reductions n=%u strides %u/%u %s\n", n, c1, c2, ints ? "integers" : "reals");
    size_t l1 = n ? (n - 1) * c1 + 1 : 0, l2 = n ? (n - 1) * c2 + 1 : 0;
    a_real *p = (a_real *)malloc(sizeof(a_real) * (n ? n : 1)), *q = (a_real *)malloc(sizeof(a_real) * (n ? n : 1));
    a_real *ps = (a_real *)malloc(sizeof(a_real) * (l1 ? l1 : 1)), *qs = (a_real *)malloc(sizeof(a_real) * (l2 ? l2 : 1));
    struct Fr { void *a, *b, *c, *d; ~Fr() { free(a); free(b); free(c); free(d); } } fr{p, q, ps, qs};
    for (size_t i = 0; i < l1; ++i) { ps[i] = a_real(7777); }
    for (size_t i = 0; i < l2; ++i) { qs[i] = a_real(-9999); }
    for (unsigned i = 0; i < n; ++i) { p[i] = x[i]; q[i] = y[i]; ps[i * c1] = x[i]; qs[i * c2] = y[i]; }
    LD s = 0, s1 = 0, s2 = 0, d = 0, da = 0;
    for (unsigned i = 0; i < n; ++i)
    {
        s += x[i];
        s1 += fabsl((LD)x[i]);
        s2 += (LD)x[i] * x[i];
        d += (LD)x[i] * y[i];
        da += fabsl((LD)x[i] * y[i]);
    }
    LD g = (n + 2) * U_;
    auto chk = [&](char const *sig, char const *what, LD got, LD ref, LD mag) {
        LD tol = ints ? 0 : g * mag;
        if (!(fabsl(got - ref) <= tol)) { cx.fail(sig, "%s (n=%u) = %.17Lg, defining formula gives %.17Lg", what, n, got, ref); }
    };
    chk("sum:wrong", "a_real_sum", a_real_sum(n, p), s, s1);
    chk("sum_:wrong", "a_real_sum_ (strided)", a_real_sum_(n, ps, c1), s, s1);
    chk("sum1:wrong", "a_real_sum1", a_real_sum1(n, p), s1, s1);
    chk("sum1_:wrong", "a_real_sum1_ (strided)", a_real_sum1_(n, ps, c1), s1, s1);
    chk("sum2:wrong", "a_real_sum2", a_real_sum2(n, p), s2, 2 * s2);
    chk("sum2_:wrong", "a_real_sum2_ (strided)", a_real_sum2_(n, ps, c1), s2, 2 * s2);
    chk("dot:wrong", "a_real_dot", a_real_dot(n, p, q), d, 2 * da);
    chk("dot_:wrong", "a_real_dot_ (strided)", a_real_dot_(n, ps, c1, qs, c2), d, 2 * da);
    {
        // const inputs in read-only memory, ending flush against an inaccessible page
        RoBlock rx(x.data(), sizeof(a_real) * n, sizeof(a_real)), ry(y.data(), sizeof(a_real) * n, sizeof(a_real));
        if (rx.p && ry.p)
        {
            a_real const *xr = (a_real const *)rx.p, *yr = (a_real const *)ry.p;
            chk("sum:wrong", "a_real_sum (read-only input)", a_real_sum(n, xr), s, s1);
            chk("sum2:wrong", "a_real_sum2 (read-only input)", a_real_sum2(n, xr), s2, 2 * s2);
            chk("dot:wrong", "a_real_dot (read-only inputs)", a_real_dot(n, xr, yr), d, 2 * da);
            if (n) { LD m = a_real_mean(n, xr); if (!(fabsl(m - s / n) <= (n + 3) * U_ * s1 / n)) { cx.fail("mean:wrong", "a_real_mean on a read-only input (n=%u) = %.17Lg, defining formula gives %.17Lg", n, m, s / n); } }
            if (n)
            {
                LD rn = a_real_norm(n, xr), rr = sqrtl(s2);
                if (!(fabsl(rn - rr) <= (n + 4) * U_ * rr)) { cx.fail("norm:inaccurate", "a_real_norm on a read-only input (n=%u) = %.17Lg, reference %.17Lg", n, rn, rr); }
            }
        }
    }
    // both operands in one block: the same vector twice (x.x), and x / y interleaved in one array (stride 2 each)
    chk("dot:wrong", "a_real_dot (same vector twice)", a_real_dot(n, p, p), s2, 2 * s2);
    chk("dot_:wrong", "a_real_dot_ (same strided vector twice)", a_real_dot_(n, ps, c1, ps, c1), s2, 2 * s2);
    {
        a_real *z = (a_real *)malloc(sizeof(a_real) * (n ? 2 * n : 1));
        struct Fz { void *p; ~Fz() { free(p); } } fz{z};
        for (unsigned i = 0; i < n; ++i) { z[2 * i] = x[i]; z[2 * i + 1] = y[i]; }
        chk("dot_:wrong", "a_real_dot_ (operands interleaved in one array)", a_real_dot_(n, z, 2, z + 1, 2), d, 2 * da);
        chk("sum_:wrong", "a_real_sum_ (odd cells of an interleaved array)", a_real_sum_(n, z + 1, 2), [&] { LD r = 0; for (unsigned i = 0; i < n; ++i) { r += y[i]; } return r; }(), [&] { LD r = 0; for (unsigned i = 0; i < n; ++i) { r += fabsl((LD)y[i]); } return r; }());
    }
    if (n)
    {
        LD tol = (n + 3) * U_ * s1 / n + (ints && (n & (n - 1)) == 0 ? 0 : 0);
        LD m1 = a_real_mean(n, p), m2 = a_real_mean_(n, ps, c1);
        if (!(fabsl(m1 - s / n) <= tol && fabsl(m2 - s / n) <= tol)) { cx.fail("mean:wrong", "a_real_mean (n=%u) = %.17Lg / strided %.17Lg, defining formula gives %.17Lg", n, m1, m2, s / n); }
    }
}

static void case_shift(Tape &t, Ctx &cx)
{
    unsigned n = t.u8() % 21;
    std::vector<a_real> v(n);
    for (unsigned i = 0; i < n; ++i) { v[i] = a_real(int(t.u8()) + 1000 * int(i)); }
    uint8_t op = t.u8() % 14;
    cx.hash.add(op | (n << 8));
    cx.label(L_SHIFT);
    if (n == 0) { cx.label(L_SHIFT_LEN0); }
    if (n >= 2) { cx.rep->nontrivial = true; }
    // block with guard cells on both sides inside an exact-size allocation
    auto blk = [&](std::vector<a_real> const &src) {
        a_real *p = (a_real *)malloc(sizeof(a_real) * (src.size() ? src.size() : 1));
        for (size_t i = 0; i < src.size(); ++i) { p[i] = src[i]; }
        return p;
    };
    a_real *p = blk(v);
    std::vector<a_real> want = v;
    std::vector<void *> fr{p};
    struct Fr { std::vector<void *> &v; ~Fr() { for (void *q : v) { free(q); } } } frr{fr};
    char const *name = "";
    cx.log("shift helper op %u on length %u\n", op, n);
    switch (op)
    {
    case 0: {
        a_real x = a_real(t.u8());
        a_real_push_fore(p, n, x);
        if (n) { want.insert(want.begin(), x); want.pop_back(); }
        name = "a_real_push_fore";
        break; }
    case 1: {
        a_real x = a_real(t.u8());
        a_real_push_back(p, n, x);
        if (n) { want.erase(want.begin()); want.push_back(x); }
        name = "a_real_push_back";
        break; }
    case 2: case 3: {
        unsigned cn = n ? t.u8() % (n + 1) : 0; // cache not longer than the block (the unambiguous range)
        if (op == 3 && t.u8() % 4 == 0) { cn = n + 1 + t.u8() % 5; } // push_back_ of a longer cache = pushing its elements one by one: the last n remain
        std::vector<a_real> c(cn);
        for (unsigned i = 0; i < cn; ++i) { c[i] = a_real(-1 - int(i)); }
        a_real *cp = blk(c);
        fr.push_back(cp);
        if (op == 2)
        {
            a_real_push_fore_(p, n, cp, cn);
            std::vector<a_real> w(c);
            w.insert(w.end(), v.begin(), v.begin() + (n - cn));
            want = w;
            name = "a_real_push_fore_";
        }
        else
        {
            a_real_push_back_(p, n, cp, cn);
            std::vector<a_real> w(v);
            w.insert(w.end(), c.begin(), c.end());
            w.erase(w.begin(), w.end() - n); // the n most recent elements, oldest first
            want = w;
            name = "a_real_push_back_";
        }
        break; }
    case 4:
        a_real_roll_fore(p, n);
        if (n) { std::rotate(want.begin(), want.begin() + 1, want.end()); }
        name = "a_real_roll_fore";
        break;
    case 5:
        a_real_roll_back(p, n);
        if (n) { std::rotate(want.begin(), want.end() - 1, want.end()); }
        name = "a_real_roll_back";
        break;
    case 6: case 7: {
        unsigned sn = t.u8() % 45;
        unsigned k = n ? sn % n : 0;
        std::vector<a_real> sbuf(k);
        a_real *sp = blk(sbuf); // exactly the k cells the rotation needs
        fr.push_back(sp);
        if (op == 6)
        {
            a_real_roll_fore_(p, n, sp, sn);
            if (n) { std::rotate(want.begin(), want.begin() + k, want.end()); }
            name = "a_real_roll_fore_";
        }
        else
        {
            a_real_roll_back_(p, n, sp, sn);
            if (n) { std::rotate(want.begin(), want.end() - k, want.end()); }
            name = "a_real_roll_back_";
        }
        break; }
    case 8: {
        a_real *d = blk(std::vector<a_real>(n, a_real(-5)));
        fr.push_back(d);
        if (n) { a_real_copy(n, d, p); }
        for (unsigned i = 0; i < n; ++i) { VP_CHECK(cx, d[i] == v[i], "copy:wrong", "a_real_copy: element %u of %u", i, n); }
        name = "a_real_copy";
        break; }
    case 9: case 10: {
        unsigned dc = 1 + t.u8() % 3, sc = 1 + t.u8() % 3;
        size_t ld = n ? (n - 1) * dc + 1 : 0, ls = n ? (n - 1) * sc + 1 : 0;
        std::vector<a_real> A(ld, a_real(-5)), B(ls, a_real(-6));
        for (unsigned i = 0; i < n; ++i) { B[i * sc] = v[i]; A[i * dc] = a_real(100 + int(i)); }
        a_real *d = blk(A), *s2 = blk(B);
        fr.push_back(d);
        fr.push_back(s2);
        std::vector<a_real> wa = A, wb = B;
        if (op == 9)
        {
            a_real_copy_(n, d, dc, s2, sc);
            for (unsigned i = 0; i < n; ++i) { wa[i * dc] = B[i * sc]; }
            name = "a_real_copy_";
        }
        else
        {
            a_real_swap_(n, d, dc, s2, sc);
            for (unsigned i = 0; i < n; ++i) { wa[i * dc] = B[i * sc]; wb[i * sc] = A[i * dc]; }
            name = "a_real_swap_";
        }
        for (size_t i = 0; i < ld; ++i) { VP_CHECK(cx, d[i] == wa[i], "strided_copy_swap:wrong", "%s: destination cell %zu (n=%u, strides %u/%u)", name, i, n, dc, sc); }
        for (size_t i = 0; i < ls; ++i) { VP_CHECK(cx, s2[i] == wb[i], "strided_copy_swap:wrong", "%s: source cell %zu (n=%u, strides %u/%u)", name, i, n, dc, sc); }
        break; }
    case 11: {
        std::vector<a_real> o(n);
        for (unsigned i = 0; i < n; ++i) { o[i] = a_real(-1 - int(i)); }
        a_real *q = blk(o);
        fr.push_back(q);
        if (n) { a_real_swap(n, p, q); }
        for (unsigned i = 0; i < n; ++i) { VP_CHECK(cx, q[i] == v[i], "swap:wrong", "a_real_swap: element %u", i); }
        want = o;
        name = "a_real_swap";
        break; }
    case 12: {
        // the fill value: a small integer, or any bit pattern - in particular patterns that repeat one byte, one 16-bit or one
        // 32-bit group (what a "can this be done with memset" shortcut looks at); compared bit for bit
        uint8_t fb = t.u8();
        a_real x = a_real(fb);
        if (fb >= 128)
        {
            uint64_t w = t.u64();
            switch (fb % 5)
            {
            case 0: w = (w & 0xFF) * 0x0101010101010101ull; break;
            case 1: w = (w & 0xFFFF) * 0x0001000100010001ull; break;
            case 2: w = (w & 0xFFFFFFFFull) * 0x0000000100000001ull; break;
            case 3: w = ((w & 0xFF) * 0x0001000100010001ull) | (((w >> 8) & 0xFF) * 0x0100010001000100ull); break; // two alternating bytes
            default: break;
            }
            memcpy(&x, &w, sizeof(x) < 8 ? sizeof(x) : 8);
            cx.label(L_FILL_PATTERN);
        }
        a_real_fill(n, p, x);
        for (unsigned i = 0; i < n; ++i) { VP_CHECK(cx, memcmp(&p[i], &x, sizeof(x) > 8 ? 10 : sizeof(x)) == 0, "fill:wrong", "a_real_fill on length %u: element %u does not hold the bits of the value", n, i); }
        want.assign(p, p + n); // (already judged bit for bit: NaN patterns do not compare equal to themselves)
        name = "a_real_fill";
        break; }
    default:
        a_real_zero(n, p);
        want.assign(n, a_real(0));
        name = "a_real_zero";
        break;
    }
    for (unsigned i = 0; i < n; ++i)
    {
        if (!(p[i] == want[i]) && memcmp(&p[i], &want[i], sizeof(a_real)) != 0) { cx.fail("shift:wrong", "%s on length %u: element %u is %.17g, defining formula gives %.17g", name, n, i, double(p[i]), double(want[i])); }
    }
}

// long vectors: "for all lengths" - many components of one common magnitude, the magnitude anywhere in the exponent range and
// preferably around the square roots of the largest / smallest normal number, where an unscaled sum of squares stops being safe
static void case_norm_long(Tape &t, Ctx &cx)
{
    static unsigned const lens[] = {1000, 65537, 200000, 300001, 4097, 65536, 250000, 300001};
    unsigned n = lens[t.u8() % 8];
    int const emax_t = A_SIZE_REAL == 4 ? 128 : 1024, emin_t = A_SIZE_REAL == 4 ? -125 : -1021;
    int e;
    switch (t.u8() % 4)
    {
    case 0: e = emax_t / 2 + int(t.u8() % 17) - 12; break;
    case 1: e = emin_t / 2 + int(t.u8() % 17) - 4; break;
    case 2: e = emax_t - 2 - int(t.u8() % 24) - 9; break; // the result m*sqrt(n) stays representable: sqrt(300001) < 2^10
    default: e = emin_t + int(t.u16() % unsigned(emax_t - 11 - emin_t)); break;
    }
    unsigned stride = 1 + t.u8() % 2;
    uint32_t a = t.u8() | 1;
    unsigned lone = t.u8() % 4 == 0 ? t.u16() % n : n; // optionally one component 2^8 larger than the rest
    // one reusable block (a fresh multi-megabyte allocation per case would go through the sanitizer's quarantine); the data sit
    // at its end so that a read past the last component still leaves the block
    static std::vector<a_real> pool(size_t(300001) * 2 + 1, a_real(1e30));
    a_real *v = pool.data() + (pool.size() - ((size_t(n) - 1) * stride + 1));
    if (stride == 2) { for (size_t i = 1; i < size_t(n) * 2 - 1; i += 2) { v[i] = a_real(1e30); } }
    LD s = 0, comp = 0; // compensated sum of squares in long double
    a_real tb[64];
    LD sq[64];
    for (unsigned j = 0; j < 64; ++j) { tb[j] = a_real(std::ldexp(1.0 + double(j) / 64.0, e)); sq[j] = (LD)tb[j] * (LD)tb[j]; }
    for (unsigned i = 0; i < n; ++i)
    {
        unsigned j = (i * a) % 64u;
        a_real x = tb[j];
        LD x2 = sq[j];
        if (i == lone && e + 9 < emax_t - 10) { x = a_real(std::ldexp(1.5, e + 8)); x2 = (LD)x * (LD)x; }
        if ((i * a) & 64u) { x = -x; }
        v[size_t(i) * stride] = x;
        LD y = x2 - comp, tt = s + y;
        comp = (tt - s) - y;
        s = tt;
    }
    LD r = sqrtl(s);
    cx.hash.add(n); cx.hash.add(unsigned(e + 2000)); cx.hash.add(a | (stride << 8)); cx.hash.add(lone);
    cx.label(L_NORM);
    cx.label(L_NORM_LONG);
    cx.rep->nontrivial = true;
    cx.log("norm of %u components of magnitude 2^%d (stride %u)\n", n, e, stride);
    // the plain recursive sum of n squares may lose n*u relatively; representability of the result is the point here
    LD g = stride == 1 ? a_real_norm(n, v) : a_real_norm_(n, v, stride);
    judge(cx, 8, stride == 1 ? "norm:inaccurate" : "norm_:inaccurate", stride == 1 ? "a_real_norm (long vector)" : "a_real_norm_ (long vector)", g, r, n + 4, n, e);
}

static void run_case(Tape &t, Ctx &cx)
{
    unsigned k = 0;
    do {
        ++k;
        ++cx.rep->subcases;
        uint8_t sel = t.u8();
        // the long-vector class costs milliseconds per case: generated at its natural rate by the rapidcheck processes, switched off
        // (VP_NO_HEAVY) in the coverage-guided processes, which would otherwise spend most of their budget mutating it
        static bool const no_heavy = getenv("VP_NO_HEAVY") != nullptr;
        if (sel == 252 && !no_heavy)
        {
            case_norm_long(t, cx);
            continue;
        }
        switch (sel % 8)
        {
        case 0: case 1: case 2: case 3: case_fn(t, cx); break;
        case 4: case 5: case_norm(t, cx); break;
        case 6: case_reduce(t, cx); break;
        default: case_shift(t, cx); break;
        }
    } while (!t.done() && k < 6);
}
VP_DEFINE_RUN(run_case)
