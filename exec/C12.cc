// C12 — plain, fuzzy-tuned and single-neuron PID controllers: output limits, finite state,
// integrator monotonicity, documented difference equations (exact class), positional =
// incremental while no limit is active, zero = fresh.
#include "fuzzy_gen.h"
#include <memory>
#include <algorithm>
extern "C" {
#include "a/pid.h"
#include "a/pid_neuro.h"
}
typedef long double LD;

enum { L_PLAIN, L_FUZZY, L_NEURO, L_EXACT, L_REAL, L_OUT_LIMIT_ACTIVE, L_OUT_LIMIT_RELEASED, L_SUM_CLAMP_ACTIVE, L_SUM_CLAMP_RELEASED, L_ZERO_MID, L_MODE_SWITCH, L_POS_EQ_INC, L_GAIN_CHANGE, L_ZERO_RULES, L_LONG, L_RULES_RECONFIGURED, L_SHARED_TABLE, L_CLAMP_FINE_BITS };
static char const *const labels[] = {"plain_pid", "fuzzy_pid", "neuro_pid", "exact_class", "real_class", "output_limit_active", "output_limit_released_again", "integrator_clamp_active",
                                     "integrator_clamp_released_again", "zero_mid_history", "mode_switched_within_history", "positional_vs_incremental_compared", "gains_changed_mid_history", "fuzzy_all_zero_rule_base", "history_ge_50", "fuzzy_tables_or_operator_changed_mid_history", "one_membership_table_object_for_both_inputs", "integrator_clamp_with_more_bits_than_a_float_holds", nullptr};
static char const *const metrics[] = {"max_steps", nullptr};
static uint8_t const dict[] = {0, 1, 2, 3, 7, 8};
static vp_info const info = {"C12", "pid", "", labels, metrics, 500, dict, sizeof(dict)};
extern "C" vp_info const *vp_get_info(void) { return &info; }

// reference written from the documented difference equations (pid.h); the same arithmetic in R,
// so on the exact class (integers, dyadic gains) every operation is exact and equality is required
struct RefPid
{
    R kp, ki, kd, summax, summin, sum, outmax, outmin, out, var, fdb, err;
    static R sat(R x, R lo, R hi) { return lo < x ? (x < hi ? x : hi) : lo; }
    R run(R set, R f)
    {
        R e = set - f, v = fdb - f;
        out = sat(set, outmin, outmax);
        var = v; fdb = f; err = e;
        return out;
    }
    R pos(R set, R f)
    {
        R e = set - f, v = fdb - f;
        if ((sum > summin && sum < summax) || sum * e < 0) { sum += ki * e; }
        out = sat(kp * e + sum + kd * v, outmin, outmax);
        var = v; fdb = f; err = e;
        return out;
    }
    R inc(R set, R f)
    {
        R e = set - f, v = fdb - f;
        out = sat(out + (kp * (e - err) + ki * e + kd * (v - var)), outmin, outmax);
        var = v; fdb = f; err = e;
        return out;
    }
    void zero() { sum = out = var = fdb = err = 0; }
};

static R const EPS = std::numeric_limits<R>::epsilon();
static LD const U_ = LD(std::numeric_limits<R>::epsilon()) / 2;
static R const BIG = std::numeric_limits<R>::max() / R(1e8); // "no limit": wider than anything reachable
// exact class: every intermediate of the documented equations has to be exactly representable in a_real - integers up to
// IN_LIM, gains in eighths: 200 steps keep |sum|, |out| below 2^21 with three fractional bits in the float build
static int const IN_LIM = sizeof(R) == 4 ? 100 : 1000;
static bool fin(R x) { return std::isfinite(x); }

static void check_state(Ctx &cx, a_pid const &p, char const *who, unsigned step)
{
    VP_CHECK(cx, p.out >= p.outmin && p.out <= p.outmax, "pid:output_outside_limits", "%s step %u: output %.17g outside [%.17g, %.17g]", who, step, p.out, p.outmin, p.outmax);
    VP_CHECK(cx, fin(p.sum) && fin(p.out) && fin(p.var) && fin(p.fdb) && fin(p.err) && fin(p.kp) && fin(p.ki) && fin(p.kd), "pid:state_not_finite",
             "%s step %u: state not finite (sum %.17g out %.17g var %.17g fdb %.17g err %.17g gains %.17g %.17g %.17g)", who, step, p.sum, p.out, p.var, p.fdb, p.err, p.kp, p.ki, p.kd);
}

struct Limits
{
    R kp, ki, kd, summax, summin, outmax, outmin;
};

static bool g_small_err = false; // the exact inputs of this history are small integers (set by gen_cfg)
static Limits gen_cfg(Tape &t, Ctx &cx, bool exact, bool wide)
{
    Limits c;
    g_small_err = false;
    if (exact)
    {
        c.kp = R(int(t.u8() % 129) - 64) / 8;
        c.ki = R(t.u8() % 65) / 8;
        c.kd = R(int(t.u8() % 129) - 64) / 8;
        {
            // integer clamps, some of them moved outwards by 2^-30: a value with more significant bits than a float holds (in the
            // double build; the float build rounds it back), so that a sum sitting exactly on the integer is strictly inside
            uint16_t w1 = t.u16(), w2 = t.u16();
            c.summax = R(w1 % 5000);
            c.summin = -R(w2 % 5000);
            // ... the integer being a small multiple of ki, and the errors of this history small integers, so that the sum does land on it
            g_small_err = false;
            if (w1 >= 60000) { c.summax = R(double(c.ki) * (1 + w1 % 16) + 9.313225746154785e-10); cx.label(L_CLAMP_FINE_BITS); g_small_err = true; }
            if (w2 >= 60000) { c.summin = R(-double(c.ki) * (1 + w2 % 16) - 9.313225746154785e-10); cx.label(L_CLAMP_FINE_BITS); g_small_err = true; }
        }
        R a = R(int(t.u16() % 20001) - 10000), b = R(int(t.u16() % 20001) - 10000);
        c.outmin = std::min(a, b);
        c.outmax = std::max(a, b);
        cx.label(L_EXACT);
    }
    else
    {
        auto mag = [&](R lim) { return std::ldexp(1.0 + R(t.u16()) / 65536.0, int(t.u8() % 41) - 20) * (lim / 1048576.0); }; // up to lim
        c.kp = (t.coin() ? 1 : -1) * mag(1e6);
        c.ki = mag(1e6);
        c.kd = (t.coin() ? 1 : -1) * mag(1e6);
        c.summax = mag(1e6);
        c.summin = -mag(1e6);
        R a = (t.coin() ? 1 : -1) * mag(1e6), b = (t.coin() ? 1 : -1) * mag(1e6);
        c.outmin = std::min(a, b);
        c.outmax = std::max(a, b);
        cx.label(L_REAL);
    }
    if (wide)
    {
        // limits wider than anything reachable: no limit ever active
        c.summax = BIG; c.summin = -BIG; c.outmax = BIG; c.outmin = -BIG;
    }
    if (t.u8() % 8 == 0) { c.summax = 0; }
    if (t.u8() % 8 == 0) { c.summin = 0; }
    for (R v : {c.kp, c.ki, c.kd, c.summax, c.summin, c.outmax, c.outmin}) { cx.hash.addd(v); }
    return c;
}
static void apply(a_pid &p, Limits const &c)
{
    p.kp = c.kp; p.ki = c.ki; p.kd = c.kd; p.summax = c.summax; p.summin = c.summin; p.outmax = c.outmax; p.outmin = c.outmin;
}
static void gen_in(Tape &t, bool exact, R &set, R &fdb)
{
    if (exact)
    {
        set = R(int(t.u16() % unsigned(2 * IN_LIM + 1)) - IN_LIM);
        fdb = R(int(t.u16() % unsigned(2 * IN_LIM + 1)) - IN_LIM);
        if (g_small_err) { set = R(int(set) % 3); fdb = R(int(fdb) % 2); }
    }
    else
    {
        set = std::ldexp(R(int32_t(t.u32())) / 2147483648.0, int(t.u8() % 41) - 20);
        fdb = std::ldexp(R(int32_t(t.u32())) / 2147483648.0, int(t.u8() % 41) - 20);
    }
}

static void case_plain(Tape &t, Ctx &cx)
{
    bool exact = t.coin();
    bool wide = t.u8() % 4 == 0;
    Limits c = gen_cfg(t, cx, exact, wide);
    a_pid p, q; // q: incremental twin (only meaningful while no limit is active)
    memset(&p, 0, sizeof(p));
    memset(&q, 0, sizeof(q));
    apply(p, c);
    apply(q, c);
    a_pid_init(&p);
    a_pid_init(&q);
    a_pid pm; // the same history through the C++ member functions of a_pid
    memset(&pm, 0, sizeof(pm));
    apply(pm, c);
    pm.init();
    RefPid r{c.kp, c.ki, c.kd, c.summax, c.summin, 0, c.outmax, c.outmin, 0, 0, 0, 0};
    cx.label(L_PLAIN);
    cx.log("plain pid %s kp=%.17g ki=%.17g kd=%.17g sum[%.17g,%.17g] out[%.17g,%.17g]\n", exact ? "exact" : "real", c.kp, c.ki, c.kd, c.summin, c.summax, c.outmin, c.outmax);
    unsigned steps = 1 + t.u8() % 200;
    bool twin_ok = true;
    int lastmode = -1;
    bool out_active = false, sum_active = false, released = false, zeroed = false;
    for (unsigned s = 0; s < steps && !t.done(); ++s)
    {
        ++cx.rep->subcases;
        uint8_t op = t.u8() % 10;
        cx.hash.add(op);
        if (op == 7 && s > 0)
        {
            a_pid_zero(&p);
            a_pid_zero(&q);
            pm.zero();
            r.zero();
            zeroed = true;
            twin_ok = true;
            cx.label(L_ZERO_MID);
            cx.log("  zero\n");
            // zero makes the controller behave as freshly initialised: every state field is the initial one
            VP_CHECK(cx, p.sum == 0 && p.out == 0 && p.var == 0 && p.fdb == 0 && p.err == 0, "pid:zero_incomplete", "a_pid_zero left state behind");
            continue;
        }
        if (op == 8 && exact)
        {
            R kp = R(int(t.u8() % 129) - 64) / 8, ki = R(t.u8() % 65) / 8, kd = R(int(t.u8() % 129) - 64) / 8;
            a_pid_set_kpid(&p, kp, ki, kd);
            a_pid_set_kpid(&q, kp, ki, kd);
            pm.set_kpid(kp, ki, kd);
            r.kp = kp; r.ki = ki; r.kd = kd;
            cx.label(L_GAIN_CHANGE);
            twin_ok = false; // a gain change breaks the telescoping of the incremental form
            continue;
        }
        R set, fdb;
        gen_in(t, exact, set, fdb);
        cx.hash.addd(set);
        cx.hash.addd(fdb);
        int mode = op == 0 ? 0 : (op <= 3 || op >= 7) ? 1 : 2;
        if (lastmode >= 0 && mode != lastmode) { cx.label(L_MODE_SWITCH); twin_ok = false; }
        lastmode = mode;
        R sum_before = p.sum;
        R got = mode == 0 ? a_pid_run(&p, set, fdb) : mode == 1 ? a_pid_pos(&p, set, fdb) : a_pid_inc(&p, set, fdb);
        R want = mode == 0 ? r.run(set, fdb) : mode == 1 ? r.pos(set, fdb) : r.inc(set, fdb);
        {
            R gm = mode == 0 ? pm.run(set, fdb) : mode == 1 ? pm.pos(set, fdb) : pm.inc(set, fdb);
            VP_CHECK(cx, memcmp(&gm, &got, sizeof(R)) == 0 && memcmp(&pm, &p, sizeof(p)) == 0, "pid:member_differs", "step %u mode %d: the C++ member function returns %.17g, the C function %.17g (or the states differ)", s, mode, gm, got);
        }
        cx.log("  %s(set %.17g, fdb %.17g) -> %.17g (sum %.17g)\n", mode == 0 ? "run" : mode == 1 ? "pos" : "inc", set, fdb, got, p.sum);
        check_state(cx, p, "plain", s);
        VP_CHECK(cx, got == p.out, "pid:return_vs_state", "returned %.17g but out field is %.17g", got, p.out);
        if (exact)
        {
            // every intermediate is exactly representable: the documented equations must be met exactly
            if (!(got == want && p.sum == r.sum && p.var == r.var && p.fdb == r.fdb && p.err == r.err))
            {
                cx.fail(mode == 1 ? "pid:positional_equation" : mode == 2 ? "pid:incremental_equation" : "pid:run_equation",
                        "step %u mode %d: output %.17g / sum %.17g, documented equations give %.17g / %.17g", s, mode, got, p.sum, want, r.sum);
            }
        }
        else
        {
            R scale = std::fabs(r.kp * r.err) + std::fabs(r.sum) + std::fabs(r.kd * r.var) + std::fabs(want) + std::numeric_limits<R>::min();
            if (!(std::fabs(got - want) <= 64 * EPS * scale * (mode == 2 ? 50 : 1)) && mode != 2) { cx.fail("pid:positional_equation", "step %u: output %.17g, documented equation gives %.17g", s, got, want); }
            if (mode == 2) { r.out = p.out; } // the incremental accumulation drifts by rounding: re-anchor the reference
            r.sum = p.sum;
        }
        if (mode == 1)
        {
            // integrator never moves further beyond its clamp once outside it
            if (sum_before >= p.summax) { VP_CHECK(cx, p.sum <= sum_before, "pid:integrator_windup", "step %u: integrator at %.17g >= summax %.17g moved further out to %.17g", s, sum_before, p.summax, p.sum); }
            if (sum_before <= p.summin) { VP_CHECK(cx, p.sum >= sum_before, "pid:integrator_windup", "step %u: integrator at %.17g <= summin %.17g moved further out to %.17g", s, sum_before, p.summin, p.sum); }
            // overshoot by at most one increment
            R incr = std::fabs(p.ki * p.err);
            R slack = incr + 8 * EPS * (incr + std::fabs(p.sum)); // one increment, plus the rounding of the increment and of the new sum
            VP_CHECK(cx, p.sum <= std::max(p.summax, sum_before) + slack && p.sum >= std::min(p.summin, sum_before) - slack, "pid:integrator_overshoot", "step %u: integrator %.17g overshoots its clamp [%.17g, %.17g] by more than one increment %.17g", s, p.sum, p.summin, p.summax, incr);
            bool sa = p.sum >= p.summax || p.sum <= p.summin;
            if (sa) { cx.label(L_SUM_CLAMP_ACTIVE); }
            if (sum_active && !sa) { cx.label(L_SUM_CLAMP_RELEASED); released = true; }
            sum_active = sa;
        }
        bool oa = p.out == p.outmax || p.out == p.outmin;
        if (oa && mode) { cx.label(L_OUT_LIMIT_ACTIVE); }
        if (out_active && !oa) { cx.label(L_OUT_LIMIT_RELEASED); released = true; }
        out_active = oa;
        // positional and incremental coincide for as long as no limit is active (exact class, same history from zero state)
        if (exact && twin_ok && mode == 1)
        {
            R gi = a_pid_inc(&q, set, fdb);
            bool limit = oa || p.sum >= p.summax || p.sum <= p.summin || q.out == q.outmax || q.out == q.outmin || sum_before >= p.summax || sum_before <= p.summin;
            if (limit) { twin_ok = false; }
            else
            {
                cx.label(L_POS_EQ_INC);
                VP_CHECK(cx, gi == got, "pid:positional_ne_incremental", "step %u: no limit active, positional output %.17g but incremental output %.17g", s, got, gi);
            }
        }
        else if (mode != 1) { twin_ok = false; }
    }
    if (steps >= 50) { cx.label(L_LONG); }
    cx.metric(0, R(steps));
    if (released || zeroed) { cx.rep->nontrivial = true; }
}

static void case_fuzzy(Tape &t, Ctx &cx)
{
    bool zero_rules = t.u8() % 3 == 0;
    FuzzyCfg f;
    gen_fuzzy(t, cx, f, zero_rules);
    bool exact = zero_rules;
    Limits c = gen_cfg(t, cx, exact, false);
    a_pid_fuzzy z;
    memset(&z, 0, sizeof(z));
    apply(z.pid, c);
    install_opr(&z, f.opr, f.opr_style);
    // the membership and rule tables are const inputs of the controller: in half of the cases they live in read-only memory
    bool ro_tables = ((f.n + f.opr) & 1) != 0;
    std::vector<std::unique_ptr<RoBlock>> ro_keep;
    auto dup = [&](std::vector<R> const &v) {
        if (ro_tables)
        {
            ro_keep.emplace_back(new RoBlock(v.data(), sizeof(R) * v.size(), sizeof(R)));
            if (ro_keep.back()->p) { return (R *)ro_keep.back()->p; }
        }
        R *p = (R *)malloc(sizeof(R) * v.size());
        memcpy(p, v.data(), sizeof(R) * v.size());
        return p;
    };
    R *me = dup(f.me), *mec = f.shared ? me : dup(f.mec), *kp = dup(f.kp), *ki = dup(f.ki), *kd = dup(f.kd);
    if (f.shared) { cx.label(L_SHARED_TABLE); }
    bool heap_tables = ro_keep.empty();
    size_t nb = A_PID_FUZZY_BFUZZ(f.n); // room for every set being active at once
    void *buf = malloc(nb), *buf2 = malloc(nb);
    struct Fr { R *a, *b, *c, *d, *e; void *buf, *buf2; bool heap; ~Fr() { if (heap) { free(a); free(b); free(c); free(d); free(e); } free(buf); free(buf2); } } fr{me, f.shared ? nullptr : mec, kp, ki, kd, buf, buf2, heap_tables};
    a_pid_fuzzy fresh;
    bool have_fresh = false;
    a_pid_fuzzy_set_rule(&z, f.n, me, mec, f.use_kp ? kp : nullptr, f.use_ki ? ki : nullptr, f.use_kd ? kd : nullptr);
    a_pid_fuzzy_set_bfuzz(&z, buf, f.n);
    a_pid_fuzzy_init(&z);
    a_pid_fuzzy_set_kpid(&z, c.kp, c.ki, c.kd);
    // the same configuration and history through the C++ member functions (own scratch block)
    a_pid_fuzzy zm;
    memset(&zm, 0, sizeof(zm));
    apply(zm.pid, c);
    void *bufm = malloc(nb);
    struct FrM { void *p; ~FrM() { free(p); } } frm{bufm};
    zm.set_opr(f.opr);
    zm.set_rule(f.n, me, mec, f.use_kp ? kp : nullptr, f.use_ki ? ki : nullptr, f.use_kd ? kd : nullptr);
    zm.set_bfuzz(bufm, f.n);
    zm.init();
    zm.set_kpid(c.kp, c.ki, c.kd);
    VP_CHECK(cx, zm.bfuzz() == bufm && a_pid_fuzzy_bfuzz(&z) == buf, "pid:member_differs", "bfuzz() does not return the block that was set");
    // twin: all-zero rule base == plain PID
    a_pid plain;
    memset(&plain, 0, sizeof(plain));
    apply(plain, c);
    a_pid_init(&plain);
    cx.label(L_FUZZY);
    if (zero_rules) { cx.label(L_ZERO_RULES); }
    cx.log("fuzzy pid order %u operator %u %s\n", f.n, f.opr, zero_rules ? "(all-zero rule base)" : "");
    unsigned steps = 1 + t.u8() % 120;
    bool released = false, out_active = false, zeroed = false;
    for (unsigned s = 0; s < steps && !t.done(); ++s)
    {
        ++cx.rep->subcases;
        uint8_t op = t.u8() % 12;
        cx.hash.add(op);
        if (op >= 10)
        {
            if (s == 0) { op = 1; }
            else if (op == 10)
            {
                // reconfigure a live controller: the same tables, but a different subset of them present (null = gain not scheduled);
                // set_kpid is deliberately not re-issued - the base gains are part of the configuration that stays
                uint8_t m = t.u8();
                f.use_kp = (m & 1) != 0; f.use_ki = (m & 2) != 0; f.use_kd = (m & 4) != 0;
                cx.log("set_rule mid-history: kp %d ki %d kd %d\n", f.use_kp, f.use_ki, f.use_kd);
                a_pid_fuzzy_set_rule(&z, f.n, me, mec, f.use_kp ? kp : nullptr, f.use_ki ? ki : nullptr, f.use_kd ? kd : nullptr);
                zm.set_rule(f.n, me, mec, f.use_kp ? kp : nullptr, f.use_ki ? ki : nullptr, f.use_kd ? kd : nullptr);
                if (have_fresh) { a_pid_fuzzy_set_rule(&fresh, f.n, me, mec, f.use_kp ? kp : nullptr, f.use_ki ? ki : nullptr, f.use_kd ? kd : nullptr); }
                cx.label(L_RULES_RECONFIGURED);
                cx.hash.add(m & 7);
                continue;
            }
            else
            {
                // a different operator on a live controller
                f.opr = t.u8() % 7;
                cx.log("set_opr mid-history: %u\n", f.opr);
                install_opr(&z, f.opr, f.opr_style);
                zm.set_opr(f.opr);
                if (have_fresh) { install_opr(&fresh, f.opr, f.opr_style); }
                cx.label(L_RULES_RECONFIGURED);
                cx.hash.add(f.opr);
                continue;
            }
        }
        if (op == 7 && s > 0)
        {
            a_pid_fuzzy_zero(&z);
            zm.zero();
            a_pid_zero(&plain);
            zeroed = true;
            cx.label(L_ZERO_MID);
            // a freshly initialised controller with the same configuration
            memset(&fresh, 0, sizeof(fresh));
            apply(fresh.pid, c);
            install_opr(&fresh, f.opr, f.opr_style);
            a_pid_fuzzy_set_rule(&fresh, f.n, me, mec, f.use_kp ? kp : nullptr, f.use_ki ? ki : nullptr, f.use_kd ? kd : nullptr);
            a_pid_fuzzy_set_bfuzz(&fresh, buf2, f.n);
            a_pid_fuzzy_init(&fresh);
            a_pid_fuzzy_set_kpid(&fresh, c.kp, c.ki, c.kd);
            have_fresh = true;
            continue;
        }
        R set, fdb;
        if (exact) { gen_in(t, true, set, fdb); set /= 256; fdb /= 256; }
        else
        {
            // errors in and around the range of the membership tables
            set = f.L * (R(t.u16()) / 32767.5 - 1) * 1.5;
            fdb = f.L * (R(t.u16()) / 32767.5 - 1) * 0.5;
        }
        cx.hash.addd(set);
        cx.hash.addd(fdb);
        int mode = op == 0 ? 0 : op <= 4 ? 1 : 2;
        R e_now = set - fdb, ec_now = e_now - z.pid.err;
        R got = mode == 0 ? a_pid_fuzzy_run(&z, set, fdb) : mode == 1 ? a_pid_fuzzy_pos(&z, set, fdb) : a_pid_fuzzy_inc(&z, set, fdb);
        {
            R gm = mode == 0 ? zm.run(set, fdb) : mode == 1 ? zm.pos(set, fdb) : zm.inc(set, fdb);
            VP_CHECK(cx, memcmp(&gm, &got, sizeof(R)) == 0 && memcmp(&zm.pid, &z.pid, sizeof(z.pid)) == 0, "pid:member_differs", "fuzzy step %u mode %d: the C++ member function returns %.17g, the C function %.17g (or the pid states differ)", s, mode, gm, got);
        }
        check_state(cx, z.pid, "fuzzy", s);
        {
            // the gains used in this step are the base gains plus the weighted mean of the active consequents
            LD dg[3];
            ref_gains(f, e_now, ec_now, dg, nullptr);
            R base[3] = {c.kp, c.ki, c.kd}, cur[3] = {z.pid.kp, z.pid.ki, z.pid.kd};
            for (int k = 0; k < 3; ++k)
            {
                LD tol = 64 * (f.n * f.n + 4) * U_ * (fabsl((LD)base[k]) + 8);
                if (!(fabsl((LD)cur[k] - ((LD)base[k] + dg[k])) <= tol)) { cx.fail("pid:fuzzy_gain_schedule", "step %u (e=%.17g, ec=%.17g): gain %d is %.17g, base %.17g + weighted mean %.17Lg expected", s, e_now, ec_now, k, cur[k], base[k], dg[k]); }
            }
        }
        if (have_fresh)
        {
            R gf = mode == 0 ? a_pid_fuzzy_run(&fresh, set, fdb) : mode == 1 ? a_pid_fuzzy_pos(&fresh, set, fdb) : a_pid_fuzzy_inc(&fresh, set, fdb);
            VP_CHECK(cx, memcmp(&gf, &got, sizeof(R)) == 0 && z.pid.sum == fresh.pid.sum, "pid:zero_not_fresh", "fuzzy step %u after zero: output %.17g, a freshly initialised controller gives %.17g", s, got, gf);
        }
        VP_CHECK(cx, fin(z.kp) && fin(z.ki) && fin(z.kd), "pid:state_not_finite", "fuzzy step %u: base gains not finite", s);
        if (zero_rules)
        {
            R pw = mode == 0 ? a_pid_run(&plain, set, fdb) : mode == 1 ? a_pid_pos(&plain, set, fdb) : a_pid_inc(&plain, set, fdb);
            VP_CHECK(cx, got == pw && z.pid.sum == plain.sum, "pid:fuzzy_zero_rules_ne_plain", "step %u: fuzzy controller with an all-zero rule base outputs %.17g, the plain controller %.17g", s, got, pw);
        }
        bool oa = z.pid.out == z.pid.outmax || z.pid.out == z.pid.outmin;
        if (oa && mode) { cx.label(L_OUT_LIMIT_ACTIVE); }
        if (out_active && !oa) { cx.label(L_OUT_LIMIT_RELEASED); released = true; }
        out_active = oa;
    }
    cx.metric(0, R(steps));
    if (released || zeroed) { cx.rep->nontrivial = true; }
}

static void case_neuro(Tape &t, Ctx &cx)
{
    bool exact = t.coin();
    Limits c = gen_cfg(t, cx, exact, false);
    a_pid_neuro n, fresh;
    memset(&n, 0, sizeof(n));
    apply(n.pid, c);
    R k = exact ? R(1 + t.u8() % 64) / 8 : std::ldexp(1.0 + R(t.u8()) / 256, int(t.u8() % 21) - 10);
    R w0[3];
    for (R &w : w0) { w = exact ? R(int(t.u8() % 33) - 16) / 8 : (R(t.u16()) / 32767.5 - 1) * 4; }
    a_pid_neuro_set_kpid(&n, k, c.kp, c.ki, c.kd);
    a_pid_neuro_set_wpid(&n, w0[0], w0[1], w0[2]);
    a_pid_neuro_init(&n);
    a_pid_neuro nm; // the same history through the C++ member functions
    memset(&nm, 0, sizeof(nm));
    apply(nm.pid, c);
    nm.set_kpid(k, c.kp, c.ki, c.kd);
    nm.set_wpid(w0[0], w0[1], w0[2]);
    nm.init();
    cx.label(L_NEURO);
    cx.hash.addd(k);
    for (R w : w0) { cx.hash.addd(w); }
    cx.log("neuro pid k=%.17g w=(%.17g, %.17g, %.17g)\n", k, w0[0], w0[1], w0[2]);
    unsigned steps = 1 + t.u8() % 120;
    bool zeroed = false, released = false, out_active = false;
    bool have_fresh = false;
    for (unsigned s = 0; s < steps && !t.done(); ++s)
    {
        ++cx.rep->subcases;
        uint8_t op = t.u8() % 10;
        cx.hash.add(op);
        if (op == 7 && s > 0)
        {
            a_pid_neuro_zero(&n);
            nm.zero();
            zeroed = true;
            cx.label(L_ZERO_MID);
            // a freshly initialised controller with the same configuration (gains, limits, present weights)
            memset(&fresh, 0, sizeof(fresh));
            apply(fresh.pid, c);
            a_pid_neuro_set_kpid(&fresh, n.k, n.pid.kp, n.pid.ki, n.pid.kd);
            a_pid_neuro_set_wpid(&fresh, n.wp, n.wi, n.wd);
            a_pid_neuro_init(&fresh);
            have_fresh = true;
            VP_CHECK(cx, n.ec == 0 && n.pid.out == 0 && n.pid.err == 0 && n.pid.var == 0 && n.pid.fdb == 0 && n.pid.sum == 0, "pid:zero_incomplete", "a_pid_neuro_zero left state behind");
            continue;
        }
        R set, fdb;
        gen_in(t, exact, set, fdb);
        if (exact) { set /= 64; fdb /= 64; }
        cx.hash.addd(set);
        cx.hash.addd(fdb);
        int mode = op == 0 ? 0 : 2;
        R got = mode == 0 ? a_pid_neuro_run(&n, set, fdb) : a_pid_neuro_inc(&n, set, fdb);
        {
            R gm = mode == 0 ? nm.run(set, fdb) : nm.inc(set, fdb);
            VP_CHECK(cx, memcmp(&gm, &got, sizeof(R)) == 0 && memcmp(&nm, &n, sizeof(n)) == 0, "pid:member_differs", "neuro step %u: the C++ member function returns %.17g, the C function %.17g (or the states differ)", s, gm, got);
        }
        check_state(cx, n.pid, "neuro", s);
        VP_CHECK(cx, fin(n.wp) && fin(n.wi) && fin(n.wd) && fin(n.ec) && fin(n.k), "pid:state_not_finite", "neuro step %u: weights/ec not finite (%.17g, %.17g, %.17g, %.17g)", s, n.wp, n.wi, n.wd, n.ec);
        if (have_fresh)
        {
            R gf = mode == 0 ? a_pid_neuro_run(&fresh, set, fdb) : a_pid_neuro_inc(&fresh, set, fdb);
            VP_CHECK(cx, memcmp(&gf, &got, sizeof(R)) == 0 && n.wp == fresh.wp && n.wi == fresh.wi && n.wd == fresh.wd, "pid:zero_not_fresh", "neuro step %u after zero: output %.17g, a freshly initialised controller gives %.17g", s, got, gf);
        }
        bool oa = n.pid.out == n.pid.outmax || n.pid.out == n.pid.outmin;
        if (oa) { cx.label(L_OUT_LIMIT_ACTIVE); }
        if (out_active && !oa) { cx.label(L_OUT_LIMIT_RELEASED); released = true; }
        out_active = oa;
    }
    cx.metric(0, R(steps));
    if (released || zeroed) { cx.rep->nontrivial = true; }
}

// zero then history H2 == fresh controller on H2 (plain), exact comparison of every output
static void case_zero_fresh(Tape &t, Ctx &cx)
{
    bool exact = t.coin();
    Limits c = gen_cfg(t, cx, exact, false);
    a_pid p, q;
    memset(&p, 0, sizeof(p));
    memset(&q, 0, sizeof(q));
    apply(p, c);
    apply(q, c);
    a_pid_init(&p);
    a_pid_init(&q);
    cx.label(L_PLAIN);
    unsigned h1 = 1 + t.u8() % 40, h2 = 1 + t.u8() % 40;
    for (unsigned s = 0; s < h1; ++s)
    {
        R set, fdb;
        gen_in(t, exact, set, fdb);
        uint8_t m = t.u8() % 3;
        m == 0 ? a_pid_run(&p, set, fdb) : m == 1 ? a_pid_pos(&p, set, fdb) : a_pid_inc(&p, set, fdb);
        check_state(cx, p, "plain", s);
    }
    a_pid_zero(&p);
    cx.label(L_ZERO_MID);
    cx.rep->nontrivial = true;
    for (unsigned s = 0; s < h2; ++s)
    {
        ++cx.rep->subcases;
        R set, fdb;
        gen_in(t, exact, set, fdb);
        cx.hash.addd(set);
        uint8_t m = t.u8() % 3;
        R a = m == 0 ? a_pid_run(&p, set, fdb) : m == 1 ? a_pid_pos(&p, set, fdb) : a_pid_inc(&p, set, fdb);
        R b = m == 0 ? a_pid_run(&q, set, fdb) : m == 1 ? a_pid_pos(&q, set, fdb) : a_pid_inc(&q, set, fdb);
        VP_CHECK(cx, memcmp(&a, &b, sizeof(R)) == 0 && p.sum == q.sum, "pid:zero_not_fresh", "step %u after a_pid_zero: output %.17g, a freshly initialised controller gives %.17g", s, a, b);
    }
    // every call is a step, whether or not the caller looks at the returned value and whether or not the arguments changed since
    // the last call: one controller is stepped m times with a constant sample and the results thrown away (it is read through its
    // fields afterwards), its twin with the same sample read from volatile storage and every result used
    {
        a_pid p2, q2;
        memset(&p2, 0, sizeof(p2));
        memset(&q2, 0, sizeof(q2));
        apply(p2, c);
        apply(q2, c);
        a_pid_init(&p2);
        a_pid_init(&q2);
        R cs, cf;
        gen_in(t, exact, cs, cf);
        unsigned m = 2 + t.u8() % 5, md = t.u8() % 3;
        for (unsigned k = 0; k < m; ++k)
        {
            if (md == 0) { (void)a_pid_run(&p2, cs, cf); }
            else if (md == 1) { (void)a_pid_pos(&p2, cs, cf); }
            else { (void)a_pid_inc(&p2, cs, cf); }
        }
        volatile R vs = cs, vf = cf;
        R acc = 0;
        for (unsigned k = 0; k < m; ++k) { acc += md == 0 ? a_pid_run(&q2, vs, vf) : md == 1 ? a_pid_pos(&q2, vs, vf) : a_pid_inc(&q2, vs, vf); }
        VP_CHECK(cx, memcmp(&p2, &q2, sizeof(p2)) == 0 || !(acc == acc), "pid:call_not_counted",
                 "%u identical steps (mode %u) with the results discarded leave out %.17g / sum %.17g, the same steps with the results used %.17g / %.17g", m, md, double(p2.out), double(p2.sum), double(q2.out), double(q2.sum));
    }
}

static void run_case(Tape &t, Ctx &cx)
{
    g_small_err = false; // nothing is carried over from one case to the next
    switch (t.u8() % 6)
    {
    case 0: case 1: case_plain(t, cx); break;
    case 2: case 3: case_fuzzy(t, cx); break;
    case 4: case_neuro(t, cx); break;
    default: case_zero_fresh(t, cx); break;
    }
}
VP_DEFINE_RUN(run_case)
