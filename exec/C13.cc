// C13 — membership functions (reference definitions in long double + shape relations),
// fuzzy operators (algebraic laws) and the fuzzy PID gain scheduling (weighted mean of the
// consequents of the active rules; scratch buffer = exact-size heap block per step).
#include "fuzzy_gen.h"
#include <algorithm>
extern "C" {
#include "a/fuzzy.h"
}
typedef long double LD;
static R const EPS = std::numeric_limits<R>::epsilon();
static LD const U_ = LD(std::numeric_limits<R>::epsilon()) / 2;
static int const EXMAX = std::numeric_limits<R>::max_exponent; // 1024 / 128
static R const MINN = std::numeric_limits<R>::min();           // smallest normal number

enum { L_MF, L_MF_BREAKPOINT, L_MF_DEGENERATE, L_MF_SMOOTH, L_MF_LINEAR, L_OPR, L_OPR_BOUNDARY, L_INFER, L_INFER_2x2, L_INFER_NONE_ACTIVE, L_INFER_ZERO_JOINT, L_OPR_EQU, L_OPR_CAP_B, L_N_GE_5, L_ACTIVE_GE_3, L_MF_EXTREME_SCALE, L_RECONFIGURED, L_RULE_ORDER_SWITCH };
static char const *const labels[] = {"membership_function", "x_within_2ulp_of_breakpoint", "degenerate_shoulder", "smooth_family", "piecewise_linear_family", "operators", "operator_boundary_argument",
                                     "inference_step", "ge_2_active_sets_on_both_inputs", "no_active_set", "all_joint_memberships_zero", "operator_equ", "operator_cap_bounded", "rule_order_ge_5", "ge_3_active_sets_on_an_input", "mf_scaled_into_the_outer_eighth_of_the_exponent_range", "consequent_tables_changed_mid_history", "rule_base_of_another_order_installed_mid_history", nullptr};
static char const *const metrics[] = {"max_mf_error_over_tol", "max_inference_error_over_tol", "max_active_sets", nullptr};
static uint8_t const dict[] = {0, 1, 2, 3, 7, 8};
static vp_info const info = {"C13", "fuzzy", "", labels, metrics, 400, dict, sizeof(dict)};
extern "C" vp_info const *vp_get_info(void) { return &info; }

static R rd(Tape &t) { return R(int(t.u16() % 4001) - 2000) / 100.0; } // [-20, 20] step 0.01
static R rdpos(Tape &t) { return R(1 + t.u16() % 1000) / 100.0; }

// reference definitions (core wins at degenerate points), long double
static LD r_lins(LD x, LD a, LD b) { return x >= b ? 1 : x <= a ? 0 : (x - a) / (b - a); }
static LD r_linz(LD x, LD a, LD b) { return x <= a ? 1 : x >= b ? 0 : (b - x) / (b - a); }
static LD r_trap(LD x, LD a, LD b, LD c, LD d)
{
    if (x >= b && x <= c) { return 1; }
    if (x <= a || x >= d) { return 0; }
    return x < b ? (x - a) / (b - a) : (d - x) / (d - c);
}
static LD r_tri(LD x, LD a, LD b, LD c)
{
    if (x == b) { return 1; }
    if (x <= a || x >= c) { return 0; }
    return x < b ? (x - a) / (b - a) : (c - x) / (c - b);
}
static LD r_s(LD x, LD a, LD b)
{
    if (x <= a) { return 0; }
    if (x >= b) { return 1; }
    LD m = (a + b) / 2;
    return x <= m ? 2 * ((x - a) / (b - a)) * ((x - a) / (b - a)) : 1 - 2 * ((b - x) / (b - a)) * ((b - x) / (b - a));
}
static LD r_z(LD x, LD a, LD b) { return 1 - r_s(x, a, b); }
static LD r_pi(LD x, LD a, LD b, LD c, LD d) { return x < b ? r_s(x, a, b) : x > c ? r_z(x, c, d) : 1; }
static LD r_gauss(LD x, LD s, LD c) { return expl(-((x - c) / s) * ((x - c) / s) / 2); }
static LD r_gauss2(LD x, LD s1, LD c1, LD s2, LD c2) { return x < c1 ? r_gauss(x, s1, c1) : x > c2 ? r_gauss(x, s2, c2) : 1; }
static LD r_gbell(LD x, LD a, LD b, LD c) { return 1 / (powl(fabsl((x - c) / a), 2 * b) + 1); }
static LD r_sig(LD x, LD a, LD c) { return 1 / (expl((c - x) * a) + 1); }

static R pick_x(Tape &t, Ctx &cx, std::vector<R> const &bp)
{
    uint8_t c = t.u8() % 8;
    R lo = bp.front(), hi = bp.back();
    R span = hi - lo + 1;
    switch (c)
    {
    case 0: return lo - span * (1 + t.u8() % 4);
    case 1: return hi + span * (1 + t.u8() % 4);
    case 2: case 3: {
        R b = bp[t.u8() % bp.size()];
        int d = int(t.u8() % 5) - 2;
        for (int i = 0; i < (d < 0 ? -d : d); ++i) { b = std::nextafter(b, d < 0 ? -INFINITY : INFINITY); }
        cx.label(L_MF_BREAKPOINT);
        return b; }
    case 4: {
        size_t i = t.u8() % bp.size(), j = t.u8() % bp.size();
        return 0.5 * (bp[i] + bp[j]); }
    default:
        return lo - 0.25 * span + 1.5 * span * R(t.u16()) / 65535.0;
    }
}

static void case_mf(Tape &t, Ctx &cx)
{
    unsigned type = 1 + t.u8() % 13;
    R p[4];
    // sorted break points by construction, equalities with probability 1/4 for the piecewise-linear families
    R v[4];
    v[0] = rd(t);
    for (int i = 1; i < 4; ++i)
    {
        bool eq = (t.u8() % 4) == 0;
        v[i] = v[i - 1] + (eq ? 0.0 : rdpos(t));
    }
    std::vector<R> bp;
    LD ref = 0;
    R x;
    R tol = 4 * EPS;
    bool degenerate = false;
    cx.label(L_MF);
    cx.hash.add(type);
    switch (type)
    {
    case A_MF_TRAP:
        p[0] = v[0]; p[1] = v[1]; p[2] = v[2]; p[3] = v[3];
        bp = {p[0], p[1], p[2], p[3]};
        degenerate = p[0] == p[1] || p[2] == p[3] || p[1] == p[2];
        cx.label(L_MF_LINEAR);
        break;
    case A_MF_TRI:
        p[0] = v[0]; p[1] = v[1]; p[2] = v[2];
        bp = {p[0], p[1], p[2]};
        degenerate = p[0] == p[1] || p[1] == p[2];
        cx.label(L_MF_LINEAR);
        break;
    case A_MF_LINS: case A_MF_LINZ:
        p[0] = v[0]; p[1] = v[1];
        bp = {p[0], p[1]};
        degenerate = p[0] == p[1];
        cx.label(L_MF_LINEAR);
        break;
    case A_MF_S: case A_MF_Z:
        p[0] = v[0]; p[1] = v[0] + rdpos(t); // non-zero width
        bp = {p[0], R(0.5) * (p[0] + p[1]), p[1]};
        tol = 16 * EPS;
        cx.label(L_MF_SMOOTH);
        break;
    case A_MF_PI:
        p[0] = v[0]; p[1] = v[0] + rdpos(t); p[2] = p[1] + ((t.u8() % 4) ? rdpos(t) : 0.0); p[3] = p[2] + rdpos(t);
        bp = {p[0], R(0.5) * (p[0] + p[1]), p[1], p[2], R(0.5) * (p[2] + p[3]), p[3]};
        tol = 16 * EPS;
        cx.label(L_MF_SMOOTH);
        break;
    case A_MF_GAUSS:
        p[0] = (t.coin() ? 1 : -1) * rdpos(t); p[1] = v[0];
        bp = {p[1] - std::fabs(p[0]), p[1], p[1] + std::fabs(p[0])};
        tol = 64 * EPS;
        cx.label(L_MF_SMOOTH);
        break;
    case A_MF_GAUSS2:
        p[0] = rdpos(t); p[1] = v[0]; p[2] = rdpos(t); p[3] = v[1];
        bp = {p[1] - p[0], p[1], p[3], p[3] + p[2]};
        tol = 64 * EPS;
        cx.label(L_MF_SMOOTH);
        break;
    case A_MF_GBELL:
        p[0] = (t.coin() ? 1 : -1) * rdpos(t); p[1] = R(1 + t.u8() % 6) / 2; p[2] = v[0];
        bp = {p[2] - std::fabs(p[0]), p[2], p[2] + std::fabs(p[0])};
        tol = 256 * EPS;
        cx.label(L_MF_SMOOTH);
        break;
    case A_MF_SIG:
        p[0] = (t.coin() ? 1 : -1) * rdpos(t); p[1] = v[0];
        bp = {p[1] - 1, p[1], p[1] + 1};
        tol = 64 * EPS;
        cx.label(L_MF_SMOOTH);
        break;
    case A_MF_DSIG:
        // equal positive slopes, ordered centres: confined to [0,1]
        p[0] = rdpos(t); p[1] = v[0]; p[2] = p[0]; p[3] = v[1];
        bp = {p[1] - 1, p[1], p[3], p[3] + 1};
        tol = 128 * EPS;
        cx.label(L_MF_SMOOTH);
        break;
    default: // PSIG
        type = A_MF_PSIG;
        p[0] = rdpos(t); p[1] = v[0]; p[2] = -rdpos(t); p[3] = v[1];
        bp = {p[1] - 1, p[1], p[3], p[3] + 1};
        tol = 128 * EPS;
        cx.label(L_MF_SMOOTH);
        break;
    }
    if (degenerate) { cx.label(L_MF_DEGENERATE); }
    x = pick_x(t, cx, bp);
    for (unsigned i = 0; i < mf_npar(type); ++i) { cx.hash.addd(p[i]); }
    cx.hash.addd(x);
    R y, y2 = 0;
    bool has_pair = false;
    bool any_value_ok = false; // a zero-width ramp has no prescribed value at its single break point
    switch (type)
    {
    case A_MF_TRAP: y = a_mf_trap(x, p[0], p[1], p[2], p[3]); ref = r_trap(x, p[0], p[1], p[2], p[3]); break;
    case A_MF_TRI: y = a_mf_tri(x, p[0], p[1], p[2]); ref = r_tri(x, p[0], p[1], p[2]); break;
    case A_MF_LINS: y = a_mf_lins(x, p[0], p[1]); ref = r_lins(x, p[0], p[1]); y2 = a_mf_linz(x, p[0], p[1]); has_pair = true; any_value_ok = p[0] == p[1] && x == p[0]; break;
    case A_MF_LINZ: y = a_mf_linz(x, p[0], p[1]); ref = r_linz(x, p[0], p[1]); y2 = a_mf_lins(x, p[0], p[1]); has_pair = true; any_value_ok = p[0] == p[1] && x == p[0]; break;
    case A_MF_S: y = a_mf_s(x, p[0], p[1]); ref = r_s(x, p[0], p[1]); y2 = a_mf_z(x, p[0], p[1]); has_pair = true; break;
    case A_MF_Z: y = a_mf_z(x, p[0], p[1]); ref = r_z(x, p[0], p[1]); y2 = a_mf_s(x, p[0], p[1]); has_pair = true; break;
    case A_MF_PI: y = a_mf_pi(x, p[0], p[1], p[2], p[3]); ref = r_pi(x, p[0], p[1], p[2], p[3]); break;
    case A_MF_GAUSS: y = a_mf_gauss(x, p[0], p[1]); ref = r_gauss(x, p[0], p[1]); break;
    case A_MF_GAUSS2: y = a_mf_gauss2(x, p[0], p[1], p[2], p[3]); ref = r_gauss2(x, p[0], p[1], p[2], p[3]); break;
    case A_MF_GBELL: y = a_mf_gbell(x, p[0], p[1], p[2]); ref = r_gbell(x, p[0], p[1], p[2]); break;
    case A_MF_SIG: y = a_mf_sig(x, p[0], p[1]); ref = r_sig(x, p[0], p[1]); break;
    case A_MF_DSIG: y = a_mf_dsig(x, p[0], p[1], p[2], p[3]); ref = r_sig(x, p[0], p[1]) - r_sig(x, p[2], p[3]); break;
    default: y = a_mf_psig(x, p[0], p[1], p[2], p[3]); ref = r_sig(x, p[0], p[1]) * r_sig(x, p[2], p[3]); break;
    }
    cx.log("mf type %u params (%.17g, %.17g, %.17g, %.17g) x=%.17g -> %.17g (reference %.17Lg)\n", type, p[0], p[1], p[2], p[3], x, y, ref);
    if (cx.has(L_MF_BREAKPOINT) || degenerate) { cx.rep->nontrivial = true; }
    static char const *const nm[] = {"nul", "gauss", "gauss2", "gbell", "sig", "dsig", "psig", "trap", "tri", "lins", "linz", "s", "z", "pi"};
    char sig[48];
    snprintf(sig, sizeof(sig), "mf_%s:not_in_unit_interval", nm[type]);
    if (!(y >= -4 * EPS && y <= 1 + 4 * EPS)) { cx.fail(sig, "a_mf_%s(x=%.17g; %.17g, %.17g, %.17g, %.17g) = %.17g is outside [0,1] or NaN", nm[type], x, p[0], p[1], p[2], p[3], y); }
    if (!any_value_ok)
    {
        // near a break point of a steep flank the reference itself is sensitive to the rounding of x - a: scale by the local slope
        LD err = fabsl((LD)y - ref);
        cx.metric(0, R(err / tol));
        snprintf(sig, sizeof(sig), "mf_%s:wrong_value", nm[type]);
        if (!(err <= tol)) { cx.fail(sig, "a_mf_%s(x=%.17g; %.17g, %.17g, %.17g, %.17g) = %.17g, the documented shape gives %.17Lg", nm[type], x, p[0], p[1], p[2], p[3], y, ref); }
        bool exact_family = type == A_MF_TRAP || type == A_MF_TRI || type == A_MF_LINS || type == A_MF_LINZ || type == A_MF_S || type == A_MF_Z || type == A_MF_PI || type == A_MF_GAUSS2;
        // membership of the core is decided on the arguments themselves: a reference value that merely *rounds* to 1 on a flank
        // (R rounding in the long double quotient) does not oblige the R result to be exactly 1
        bool in_core = false;
        switch (type)
        {
        case A_MF_TRAP: case A_MF_PI: in_core = x >= p[1] && x <= p[2]; break;
        case A_MF_TRI: in_core = x == p[1]; break;
        case A_MF_LINS: case A_MF_S: in_core = x >= p[1]; break;
        case A_MF_LINZ: case A_MF_Z: in_core = x <= p[0]; break;
        case A_MF_GAUSS2: in_core = x >= p[1] && x <= p[3]; break;
        default: break;
        }
        if (ref == 1 && in_core && exact_family)
        {
            snprintf(sig, sizeof(sig), "mf_%s:core_not_one", nm[type]);
            VP_CHECK(cx, y == 1.0, sig, "a_mf_%s on its core (x=%.17g) = %.17g, not exactly 1", nm[type], x, y);
        }
    }
    if (has_pair && !any_value_ok)
    {
        snprintf(sig, sizeof(sig), "mf_%s:pair_not_complementary", nm[type]);
        VP_CHECK(cx, std::fabs(y + y2 - 1) <= 4 * EPS, sig, "complementary pair at x=%.17g sums to %.17g", x, y + y2);
    }
    // the shapes depend on ratios only: scaling x and the parameters by a power of two (slopes by its inverse) is exact
    // and must not change the value - also far out in the exponent range, where squares / sums of parameters over- or underflow
    if (!any_value_ok)
    {
        int k;
        switch (t.u8() % 4)
        {
        case 0: k = EXMAX * 25 / 64 + int(t.u16() % unsigned(EXMAX * 75 / 128)); break;
        case 1: k = -(EXMAX * 25 / 64 + int(t.u16() % unsigned(EXMAX * 75 / 128))); break;
        case 2: k = 5000 + int(t.u8() % 3); break; /* resolved below: the largest magnitude lands in one of the top three binades */
        default: k = int(t.u8() % 81) - 40; break;
        }
        R q[4] = {p[0], p[1], p[2], p[3]};
        R maxmag = std::fabs(x);
        for (unsigned i = 0; i < mf_npar(type); ++i) { maxmag = std::max(maxmag, std::fabs(p[i])); }
        int ex;
        std::frexp(maxmag, &ex);
        if (k >= 5000) { k = EXMAX - ex - (k - 5000); }
        if (k + ex > EXMAX) { k = EXMAX - ex; }
        {
            // differences of two inputs must stay representable (the shapes are functions of such differences); sums need not
            R lo = x, hi = x;
            auto loc = [&](R v) { lo = std::min(lo, v); hi = std::max(hi, v); };
            switch (type)
            {
            case A_MF_GAUSS: case A_MF_SIG: loc(p[1]); break;
            case A_MF_GAUSS2: case A_MF_DSIG: case A_MF_PSIG: loc(p[1]); loc(p[3]); break;
            case A_MF_GBELL: loc(p[2]); break;
            default: for (unsigned i = 0; i < mf_npar(type); ++i) { loc(p[i]); } break;
            }
            int es;
            std::frexp(hi - lo, &es);
            if (hi > lo && k + es > EXMAX - 1) { k = EXMAX - 1 - es; }
        }
        auto sc = [&](R v) { return std::ldexp(v, k); };
        auto isc = [&](R v) { return std::ldexp(v, -k); };
        switch (type)
        {
        case A_MF_GAUSS: q[0] = sc(p[0]); q[1] = sc(p[1]); break;
        case A_MF_GAUSS2: q[0] = sc(p[0]); q[1] = sc(p[1]); q[2] = sc(p[2]); q[3] = sc(p[3]); break;
        case A_MF_GBELL: q[0] = sc(p[0]); q[2] = sc(p[2]); break;
        case A_MF_SIG: q[0] = isc(p[0]); q[1] = sc(p[1]); break;
        case A_MF_DSIG: case A_MF_PSIG: q[0] = isc(p[0]); q[1] = sc(p[1]); q[2] = isc(p[2]); q[3] = sc(p[3]); break;
        default: for (unsigned i = 0; i < mf_npar(type); ++i) { q[i] = sc(p[i]); } break;
        }
        R xs = sc(x);
        bool exact_scaling = std::ldexp(xs, -k) == x;
        for (unsigned i = 0; i < mf_npar(type); ++i) { if (std::fabs(q[i]) < MINN && q[i] != 0) { exact_scaling = false; } }
        if (exact_scaling && (std::fabs(xs) >= MINN || xs == 0))
        {
            R ys = a_mf(type, xs, q);
            if (k > EXMAX * 7 / 8 || k < -EXMAX * 7 / 8) { cx.label(L_MF_EXTREME_SCALE); }
            snprintf(sig, sizeof(sig), "mf_%s:not_scale_invariant", nm[type]);
            if (!(fabsl((LD)ys - ref) <= 2 * tol)) { cx.fail(sig, "a_mf_%s with x and parameters scaled by 2^%d = %.17g (x=%.17g; %.17g, %.17g, %.17g, %.17g), unscaled shape value %.17Lg", nm[type], k, ys, xs, q[0], q[1], q[2], q[3], ref); }
        }
    }
    // dispatcher returns the same value, bit for bit
    R yd = a_mf(type, x, p);
    snprintf(sig, sizeof(sig), "mf_%s:dispatcher", nm[type]);
    VP_CHECK(cx, memcmp(&yd, &y, sizeof(R)) == 0 || (yd != yd && y != y), sig, "a_mf(%u, x, params) = %.17g but the specific function returns %.17g", type, yd, y);
    // monotone on each flank: a second point on the same side of the core
    {
        R x2 = pick_x(t, cx, bp);
        R lo = std::min(x, x2), hi = std::max(x, x2);
        R ylo = a_mf(type, lo, p), yhi = a_mf(type, hi, p);
        R core_lo, core_hi;
        switch (type)
        {
        case A_MF_TRAP: core_lo = p[1]; core_hi = p[2]; break;
        case A_MF_TRI: core_lo = core_hi = p[1]; break;
        case A_MF_LINS: case A_MF_S: core_lo = p[1]; core_hi = INFINITY; break;
        case A_MF_LINZ: case A_MF_Z: core_lo = -INFINITY; core_hi = p[0]; break;
        case A_MF_PI: core_lo = p[1]; core_hi = p[2]; break;
        case A_MF_GAUSS: core_lo = core_hi = p[1]; break;
        case A_MF_GAUSS2: core_lo = p[1]; core_hi = p[3]; break;
        case A_MF_GBELL: core_lo = core_hi = p[2]; break;
        case A_MF_SIG: if (p[0] > 0) { core_lo = INFINITY; core_hi = INFINITY; } else { core_lo = -INFINITY; core_hi = -INFINITY; } break;
        default: core_lo = NAN; core_hi = NAN; break; // dsig / psig: the peak position is not a parameter
        }
        R mt = 8 * tol;
        if (core_lo == core_lo && !any_value_ok && !(degenerate && (lo == bp.front() || hi == bp.back() || lo == hi)))
        {
            snprintf(sig, sizeof(sig), "mf_%s:not_monotone", nm[type]);
            if (hi <= core_lo) { VP_CHECK(cx, ylo <= yhi + mt, sig, "rising flank: f(%.17g) = %.17g > f(%.17g) = %.17g", lo, ylo, hi, yhi); }
            if (lo >= core_hi) { VP_CHECK(cx, yhi <= ylo + mt, sig, "falling flank: f(%.17g) = %.17g < f(%.17g) = %.17g", lo, ylo, hi, yhi); }
        }
    }
}

static R gen_deg(Tape &t, Ctx &cx)
{
    switch (t.u8() % 8)
    {
    case 0: cx.label(L_OPR_BOUNDARY); return 0;
    case 1: cx.label(L_OPR_BOUNDARY); return 1;
    case 2: return 0.5;
    case 3: return std::numeric_limits<R>::denorm_min() * R(1 + t.u8());
    case 4: return 1 - EPS * (t.u8() % 8) / 2;
    case 5: return R(t.u8()) / 255.0;
    default: return R(t.u32()) / 4294967295.0;
    }
}

static void case_opr(Tape &t, Ctx &cx)
{
    R a = gen_deg(t, cx), b = t.u8() % 5 == 0 ? a : gen_deg(t, cx), c = gen_deg(t, cx);
    cx.label(L_OPR);
    cx.hash.addd(a);
    cx.hash.addd(b);
    cx.hash.addd(c);
    cx.rep->nontrivial = a > 0 && a < 1 && b > 0 && b < 1;
    cx.log("operators a=%.17g b=%.17g c=%.17g\n", a, b, c);
    typedef a_real (*F)(a_real, a_real);
    static F const f[7] = {a_fuzzy_equ, a_fuzzy_cap, a_fuzzy_cap_algebra, a_fuzzy_cap_bounded, a_fuzzy_cup, a_fuzzy_cup_algebra, a_fuzzy_cup_bounded};
    static char const *const nm[7] = {"equ", "cap", "cap_algebra", "cap_bounded", "cup", "cup_algebra", "cup_bounded"};
    R mn = std::min(a, b), mx = std::max(a, b);
    char sig[64];
    for (unsigned k = 0; k < 7; ++k)
    {
        R y = f[k](a, b), yr = f[k](b, a);
        LD ref = ref_opr(k, a, b);
        R tol = (k == 0 ? 8 : 2) * EPS;
        snprintf(sig, sizeof(sig), "opr_%s:wrong_value", nm[k]);
        VP_CHECK(cx, fabsl((LD)y - ref) <= tol, sig, "a_fuzzy_%s(%.17g, %.17g) = %.17g, documented formula gives %.17Lg", nm[k], a, b, y, ref);
        snprintf(sig, sizeof(sig), "opr_%s:not_commutative", nm[k]);
        VP_CHECK(cx, memcmp(&y, &yr, sizeof(R)) == 0, sig, "a_fuzzy_%s(%.17g, %.17g) = %.17g but with swapped arguments %.17g", nm[k], a, b, y, yr);
        snprintf(sig, sizeof(sig), "opr_%s:outside_unit_interval", nm[k]);
        VP_CHECK(cx, y >= 0 && y <= 1 + tol, sig, "a_fuzzy_%s(%.17g, %.17g) = %.17g", nm[k], a, b, y);
        // monotone in the first argument: a <= c  =>  f(a,b) <= f(c,b)
        {
            R lo = std::min(a, c), hi = std::max(a, c);
            R ylo = f[k](lo, b), yhi = f[k](hi, b);
            snprintf(sig, sizeof(sig), "opr_%s:not_monotone", nm[k]);
            VP_CHECK(cx, ylo <= yhi + tol, sig, "a_fuzzy_%s(%.17g, %.17g) = %.17g > a_fuzzy_%s(%.17g, %.17g) = %.17g", nm[k], lo, b, ylo, nm[k], hi, b, yhi);
        }
        if (k >= 1 && k <= 3)
        {
            snprintf(sig, sizeof(sig), "opr_%s:exceeds_min", nm[k]);
            VP_CHECK(cx, y <= mn + tol, sig, "intersection %s(%.17g, %.17g) = %.17g exceeds min", nm[k], a, b, y);
            snprintf(sig, sizeof(sig), "opr_%s:boundary", nm[k]);
            VP_CHECK(cx, std::fabs(f[k](a, 1) - a) <= tol && f[k](a, 0) == 0, sig, "%s(a,1) = %.17g (a = %.17g), %s(a,0) = %.17g", nm[k], f[k](a, 1), a, nm[k], f[k](a, 0));
        }
        if (k >= 4)
        {
            snprintf(sig, sizeof(sig), "opr_%s:below_max", nm[k]);
            VP_CHECK(cx, y >= mx - tol, sig, "union %s(%.17g, %.17g) = %.17g is below max", nm[k], a, b, y);
            snprintf(sig, sizeof(sig), "opr_%s:boundary", nm[k]);
            VP_CHECK(cx, std::fabs(f[k](a, 0) - a) <= tol && std::fabs(f[k](a, 1) - 1) <= tol, sig, "%s(a,0) = %.17g (a = %.17g), %s(a,1) = %.17g", nm[k], f[k](a, 0), a, nm[k], f[k](a, 1));
        }
    }
    {
        R e = a_fuzzy_equ(a, b), lo = a_fuzzy_cap_algebra(a, b), hi = a_fuzzy_cup_algebra(a, b);
        VP_CHECK(cx, e >= lo - 8 * EPS && e <= hi + 8 * EPS, "opr_equ:not_between_cap_and_cup", "equ(%.17g, %.17g) = %.17g is not between the algebraic product %.17g and sum %.17g", a, b, e, lo, hi);
        R g = a_fuzzy_equ_(0.5, a, b);
        VP_CHECK(cx, std::fabs(g - e) <= 16 * EPS, "opr_equ_:gamma_half", "equ_(0.5, a, b) = %.17g but equ(a, b) = %.17g", g, e);
        VP_CHECK(cx, std::fabs(a_fuzzy_equ_(0, a, b) - a * b) <= 8 * EPS && std::fabs(a_fuzzy_equ_(1, a, b) - (LD)(1 - (1 - (LD)a) * (1 - (LD)b))) <= 8 * EPS, "opr_equ_:gamma_ends", "equ_(0,a,b) / equ_(1,a,b) are not the algebraic product / sum");
        VP_CHECK(cx, a_fuzzy_not(a) == 1 - a, "opr_not:wrong", "not(%.17g) = %.17g", a, a_fuzzy_not(a));
    }
}

static void case_infer(Tape &t, Ctx &cx)
{
    FuzzyCfg f;
    gen_fuzzy(t, cx, f, false);
    a_pid_fuzzy ctx;
    memset(&ctx, 0, sizeof(ctx));
    ctx.pid.outmax = 1e6;
    ctx.pid.outmin = -1e6;
    ctx.pid.summax = 1e6;
    ctx.pid.summin = -1e6;
    install_opr(&ctx, f.opr, f.opr_style);
    // exact-size copies of the tables (an index overrun is an ASan error)
    auto dup = [](std::vector<R> const &v) {
        R *p = (R *)malloc(sizeof(R) * v.size());
        memcpy(p, v.data(), sizeof(R) * v.size());
        return p;
    };
    R *me = dup(f.me), *mec = f.shared ? me : dup(f.mec), *kp = dup(f.kp), *ki = dup(f.ki), *kd = dup(f.kd);
    // optionally a second rule base of another order, installed later on the live controller; the scratch block is then registered
    // once, sized for the larger order (every set active at once), instead of being re-registered tightly before every step
    FuzzyCfg f2;
    uint8_t two_b = t.u8();
    bool two = two_b % 4 == 0, reg_once = two || (two_b % 4 == 1);
    R *me2 = nullptr, *mec2 = nullptr, *kp2 = nullptr, *ki2 = nullptr, *kd2 = nullptr;
    if (two)
    {
        gen_fuzzy(t, cx, f2, false);
        me2 = dup(f2.me); mec2 = f2.shared ? me2 : dup(f2.mec); kp2 = dup(f2.kp); ki2 = dup(f2.ki); kd2 = dup(f2.kd);
    }
    struct Fr2 { R *a, *b, *c, *d, *e; void *big = nullptr; ~Fr2() { free(a); if (b != a) { free(b); } free(c); free(d); free(e); free(big); } } fr2{me2, mec2, kp2, ki2, kd2};
    unsigned nmax = two && f2.n > f.n ? f2.n : f.n;
    struct Fr { R *a, *b, *c, *d, *e; void *buf = nullptr; ~Fr() { free(a); if (b != a) { free(b); } free(c); free(d); free(e); free(buf); } } fr{me, mec, kp, ki, kd};
    if (reg_once && (two_b & 8))
    {
        // registered before the rule base is known
        fr2.big = malloc(A_PID_FUZZY_BFUZZ(nmax));
        a_pid_fuzzy_set_bfuzz(&ctx, fr2.big, nmax);
    }
    a_pid_fuzzy_set_rule(&ctx, f.n, me, mec, f.use_kp ? kp : nullptr, f.use_ki ? ki : nullptr, f.use_kd ? kd : nullptr);
    if (reg_once && !fr2.big)
    {
        fr2.big = malloc(A_PID_FUZZY_BFUZZ(nmax));
        a_pid_fuzzy_set_bfuzz(&ctx, fr2.big, nmax);
    }
    a_pid_fuzzy_init(&ctx);
    R bkp = R(int(t.u8() % 41) - 20), bki = R(t.u8() % 21) / 4, bkd = R(int(t.u8() % 41) - 20) / 2;
    a_pid_fuzzy_set_kpid(&ctx, bkp, bki, bkd);
    if (f.n >= 5) { cx.label(L_N_GE_5); }
    if (f.opr == A_PID_FUZZY_EQU) { cx.label(L_OPR_EQU); }
    if (f.opr == A_PID_FUZZY_CAP_BOUNDED) { cx.label(L_OPR_CAP_B); }
    cx.log("fuzzy inference: order %u operator %u base gains (%.17g, %.17g, %.17g)\n", f.n, f.opr, bkp, bki, bkd);
    unsigned steps = 1 + t.u8() % 12;
    for (unsigned s = 0; s < steps; ++s)
    {
        ++cx.rep->subcases;
        if (s > 0 && t.u8() % 6 == 0)
        {
            // reconfigure the live controller: another subset of the three consequent tables present; the base gains stay
            uint8_t m = t.u8();
            f.use_kp = (m & 1) != 0; f.use_ki = (m & 2) != 0; f.use_kd = (m & 4) != 0;
            a_pid_fuzzy_set_rule(&ctx, f.n, me, mec, f.use_kp ? kp : nullptr, f.use_ki ? ki : nullptr, f.use_kd ? kd : nullptr);
            cx.log("  set_rule mid-history: kp %d ki %d kd %d\n", f.use_kp, f.use_ki, f.use_kd);
            cx.label(L_RECONFIGURED);
            cx.hash.add(m & 7);
        }
        if (two && s > 0 && t.u8() % 3 == 0)
        {
            // the other rule base (other order, other tables) on the live controller; the scratch block stays as registered
            std::swap(f, f2);
            std::swap(me, me2); std::swap(mec, mec2); std::swap(kp, kp2); std::swap(ki, ki2); std::swap(kd, kd2);
            fr.a = me; fr.b = mec; fr.c = kp; fr.d = ki; fr.e = kd;
            fr2.a = me2; fr2.b = mec2; fr2.c = kp2; fr2.d = ki2; fr2.e = kd2;
            a_pid_fuzzy_set_rule(&ctx, f.n, me, mec, f.use_kp ? kp : nullptr, f.use_ki ? ki : nullptr, f.use_kd ? kd : nullptr);
            install_opr(&ctx, f.opr, f.opr_style);
            cx.log("  other rule base: order %u operator %u\n", f.n, f.opr);
            cx.label(L_RULE_ORDER_SWITCH);
            cx.hash.add(0x5117u + f.n);
        }
        // error and error change anywhere in / around the table ranges, incl. exactly on set centres
        auto gv = [&](R L) -> R {
            switch (t.u8() % 5)
            {
            case 0: return L * R(int(t.u8() % 9) - 4) / 4;                                  // on centres / shoulders
            case 1: return L * (R(t.u16()) / 32767.5 - 1) * 1.5;                            // around and beyond
            case 2: return L * 3;                                                               // far outside
            default: return L * (R(t.u16()) / 32767.5 - 1);
            }
        };
        R e = gv(f.L), prev = ctx.pid.err;
        R ec_target = gv(f.Lc);
        // choose (set, fdb) so that err = e exactly-ish and err - previous err = ec
        R set = e, fdb = 0;
        (void)ec_target;
        if (s > 0 && t.coin()) { set = prev + ec_target; e = set; }
        R ec = (set - fdb) - prev;
        e = set - fdb;
        cx.hash.addd(e);
        cx.hash.addd(ec);
        std::vector<unsigned> ie, iec;
        std::vector<R> ve, vec;
        active_sets(f.se, e, ie, ve);
        active_sets(f.sec, ec, iec, vec);
        size_t N = std::max(ie.size(), iec.size());
        cx.metric(2, R(N));
        if (N >= 3) { cx.label(L_ACTIVE_GE_3); }
        // scratch buffer of exactly the documented size for the number of simultaneously active sets
        if (!reg_once)
        {
            free(fr.buf);
            // the size macro with an expression as its argument, the way callers write it; it has to denote the documented size
            size_t nb = A_PID_FUZZY_BFUZZ(ie.size() > iec.size() ? ie.size() : iec.size());
            {
                size_t na = N / 2, nbb = N - N / 2;
                size_t doc = sizeof(unsigned int) * N * 2 + sizeof(a_real) * N * (2 + N);
                VP_CHECK(cx, nb == doc && A_PID_FUZZY_BFUZZ(na + nbb) == doc && A_PID_FUZZY_BFUZZ(N | 0) == doc && A_PID_FUZZY_BFUZZ((N)) == doc, "infer:bfuzz_size_macro",
                         "A_PID_FUZZY_BFUZZ gives %zu / %zu / %zu bytes for expressions that evaluate to %zu; the documented size is %zu", nb, (size_t)A_PID_FUZZY_BFUZZ(na + nbb), (size_t)A_PID_FUZZY_BFUZZ(N | 0), N, doc);
            }
            fr.buf = malloc(nb ? nb : 1);
            memset(fr.buf, 0xA5, nb);
            a_pid_fuzzy_set_bfuzz(&ctx, fr.buf, N);
        }
        int mode = t.u8() % 3;
        cx.log("  step %u: e=%.17g ec=%.17g active %zu x %zu mode %d\n", s, e, ec, ie.size(), iec.size(), mode);
        if (mode == 0) { a_pid_fuzzy_pos(&ctx, set, fdb); }
        else if (mode == 1) { a_pid_fuzzy_inc(&ctx, set, fdb); }
        else { a_pid_fuzzy_run(&ctx, set, fdb); }
        cx.label(L_INFER);
        // reference: base + weighted mean of the consequents of the active rules
        LD sw = 0, skp = 0, ski = 0, skd = 0, lo[3] = {1e300L, 1e300L, 1e300L}, hi[3] = {-1e300L, -1e300L, -1e300L};
        LD aw = 0;
        for (size_t i = 0; i < ie.size(); ++i)
        {
            for (size_t j = 0; j < iec.size(); ++j)
            {
                LD w = ref_opr_d(f.opr, ve[i], vec[j]); /* documented formula, evaluated in R like the library */
                size_t at = size_t(ie[i]) * f.n + iec[j];
                sw += w;
                aw += fabsl(w);
                skp += w * f.kp[at];
                ski += w * f.ki[at];
                skd += w * f.kd[at];
                LD c3[3] = {f.kp[at], f.ki[at], f.kd[at]};
                for (int k = 0; k < 3; ++k)
                {
                    if (c3[k] < lo[k]) { lo[k] = c3[k]; }
                    if (c3[k] > hi[k]) { hi[k] = c3[k]; }
                }
            }
        }
        R got[3] = {ctx.pid.kp - bkp, ctx.pid.ki - bki, ctx.pid.kd - bkd};
        bool used[3] = {f.use_kp, f.use_ki, f.use_kd};
        static char const *const gn[3] = {"kp", "ki", "kd"};
        if (ie.size() >= 2 && iec.size() >= 2)
        {
            cx.label(L_INFER_2x2);
            cx.rep->nontrivial = true;
        }
        for (int k = 0; k < 3; ++k)
        {
            if (!(std::isfinite(ctx.pid.kp) && std::isfinite(ctx.pid.ki) && std::isfinite(ctx.pid.kd)))
            {
                cx.fail("infer:gain_not_finite", "step %u (e=%.17g, ec=%.17g, operator %u): derived gains (%.17g, %.17g, %.17g) are not finite; joint membership sum %.3Lg", s, e, ec, f.opr, ctx.pid.kp, ctx.pid.ki, ctx.pid.kd, sw);
            }
        }
        if (ie.empty() || iec.empty() || sw == 0)
        {
            cx.label(ie.empty() || iec.empty() ? L_INFER_NONE_ACTIVE : L_INFER_ZERO_JOINT);
            for (int k = 0; k < 3; ++k)
            {
                VP_CHECK(cx, got[k] == 0, "infer:gain_without_active_rule", "step %u: no active rule (active sets %zu x %zu, joint sum %.3Lg) but %s moved by %.17g from its base value", s, ie.size(), iec.size(), sw, gn[k], got[k]);
            }
            continue;
        }
        LD want[3] = {skp / sw, ski / sw, skd / sw};
        for (int k = 0; k < 3; ++k)
        {
            if (!used[k])
            {
                VP_CHECK(cx, got[k] == 0, "infer:gain_without_rule_base", "step %u: %s has no rule base but moved by %.17g", s, gn[k], got[k]);
                continue;
            }
            LD mag = fabsl(hi[k]) > fabsl(lo[k]) ? fabsl(hi[k]) : fabsl(lo[k]);
            LD base = k == 0 ? fabsl((LD)bkp) : k == 1 ? fabsl((LD)bki) : fabsl((LD)bkd);
            LD tol = 8 * (ie.size() * iec.size() + 4) * U_ * (mag + base) * (aw / fabsl(sw)) + 1e-300L;
            LD err = fabsl((LD)got[k] - want[k]);
            cx.metric(1, R(err / tol));
            if (!(err <= tol)) { cx.fail("infer:not_weighted_mean", "step %u (e=%.17g, ec=%.17g, operator %u, %zu x %zu active): %s - base = %.17g, weighted mean of the active consequents = %.17Lg", s, e, ec, f.opr, ie.size(), iec.size(), gn[k], got[k], want[k]); }
            if (!((LD)got[k] >= lo[k] - tol && (LD)got[k] <= hi[k] + tol)) { cx.fail("infer:outside_consequent_range", "step %u: %s - base = %.17g lies outside the consequents of the active rules [%.17Lg, %.17Lg]", s, gn[k], got[k], lo[k], hi[k]); }
        }
    }
}

static void run_case(Tape &t, Ctx &cx)
{
    switch (t.u8() % 4)
    {
    case 0: case 1: ++cx.rep->subcases; case_mf(t, cx); break;
    case 2: ++cx.rep->subcases; case_opr(t, cx); break;
    default: case_infer(t, cx); break;
    }
}
VP_DEFINE_RUN(run_case)
