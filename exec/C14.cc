// C14 — trapezoidal and bell-shaped (double-S) velocity profiles: boundary states, limits,
// continuity at every phase boundary, phase bookkeeping, hold outside [0,T], and
// vel = d pos/dt (acc = d vel/dt, jer = d acc/dt) so that the limits speak about the motion.
#include "../drv/enum.h"
#include "../drv/vp.h"
#include <algorithm>
#include <cmath>
#include <vector>
extern "C" {
#include "a/trajbell.h"
#include "a/trajtrap.h"
}
typedef long double LD;

enum { L_TRAP, L_BELL, L_REVERSED, L_CRUISE, L_NO_CRUISE, L_TA_ZERO, L_TD_ZERO, L_AM_REDUCED, L_OPPOSING_V0, L_CLAMPED, L_RETURN_NONPOS, L_V_ON_LIMIT, L_V1_REWRITTEN, L_UNEQUAL_ACC_DEC, L_REPAIRED, L_LATTICE, L_SEARCH_GRID, L_ZERO_LENGTH, L_REPLANNED };
static char const *const labels[] = {"trapezoid", "bell", "reversed_travel", "cruise_phase", "no_cruise_phase", "acceleration_phase_empty", "deceleration_phase_empty",
                                     "bell_acceleration_limit_not_reached", "initial_velocity_opposes_travel", "boundary_velocity_clamped", "generator_returned_nonpositive",
                                     "boundary_velocity_on_limit", "final_velocity_rewritten_by_planner", "trap_unequal_acc_dec_and_speeds", "bell_request_repaired_to_feasible", "all_quantities_on_a_coarse_lattice", "single_phase_switch_over_next_to_a_search_grid_value", "bell_move_of_length_zero_with_velocity_reversal", "context_re_planned_another_request_first", nullptr};
static char const *const metrics[] = {"max_limit_ratio_minus_1", "max_continuity_jump_over_tol", "max_derivative_mismatch_over_tol", nullptr};
static uint8_t const dict[] = {0, 255, 128, 127};
static vp_info const info = {"C14", "traj", "", labels, metrics, 64, dict, sizeof(dict)};
extern "C" vp_info const *vp_get_info(void) { return &info; }

static double loguni(Tape &t, double lo, double hi)
{
    double u = double(t.u16()) / 65535.0;
    return lo * std::pow(hi / lo, u);
}
static double gen_bv(Tape &t, Ctx &cx, double vm, int dir, bool &opposing)
{
    // boundary velocity: inside the limit (some exactly on it / zero), 30% opposing the travel, a few outside (clamped)
    uint8_t c = t.u8() % 10;
    double mag;
    switch (c)
    {
    case 0: mag = 0; break;
    case 1: mag = vm; cx.label(L_V_ON_LIMIT); break;
    case 2: mag = vm * (1.0 + double(t.u8()) / 64.0); cx.label(L_CLAMPED); break;
    default: mag = vm * double(t.u16()) / 65535.0; break;
    }
    opposing = (t.u8() % 10) < 3;
    return (opposing ? -dir : dir) * mag;
}
static double dn(double x) { return std::nextafter(x, -INFINITY); }

struct Tol
{
    double s; // position scale
    double v; // velocity scale
    double a;
    double j;
};

static void case_trap(Tape &t, Ctx &cx)
{
    double vm = loguni(t, 0.05, 200), am = loguni(t, 0.05, 200), dm = loguni(t, 0.05, 200);
    double dist = loguni(t, 1e-3, 1e4);
    int dir = t.coin() ? 1 : -1;
    double p0 = (double(t.u16()) / 65535.0 - 0.5) * 2000.0;
    if (t.u8() % 4 == 0) { p0 = 0; }
    double p1 = p0 + dir * dist;
    bool o0, o1;
    double v0 = gen_bv(t, cx, vm, dir, o0), v1 = gen_bv(t, cx, vm, dir, o1);
    if (o1) { v1 = -v1; } // a final velocity against the travel direction cannot be reached by a trapezoid: keep it aligned
    double ac = dir * am, de = -dir * dm; // signs match the direction of travel (the statement's feasibility condition)
    cx.label(L_TRAP);
    if (dir < 0) { cx.label(L_REVERSED); }
    if (o0 && v0 != 0) { cx.label(L_OPPOSING_V0); }
    cx.hash.add(1);
    for (double x : {vm, ac, de, p0, p1, v0, v1}) { cx.hash.addd(x); }
    cx.log("trap vm=%.17g ac=%.17g de=%.17g p0=%.17g p1=%.17g v0=%.17g v1=%.17g\n", vm, ac, de, p0, p1, v0, v1);
    a_trajtrap c;
    memset(&c, 0, sizeof(c));
    // a context is re-planned in ordinary use: in half of the cases another (derived) request is planned on the same object first;
    // nothing of it may show in the plan that is judged
    bool const replan = (cx.hash.h & 1) != 0;
    if (replan) { (void)a_trajtrap_gen(&c, vm * 2, ac * 3, de / 2, p1, p0 + 1, -v1 / 2, v0 / 3); cx.label(L_REPLANNED); }
    double T = a_trajtrap_gen(&c, vm, ac, de, p0, p1, v0, v1);
    {
        // C++ member interface of the same structure: same arguments, same object, same values
        a_trajtrap w;
        memset(&w, 0, sizeof(w));
        if (replan) { (void)w.gen(vm * 2, ac * 3, de / 2, p1, p0 + 1, -v1 / 2, v0 / 3); }
        double Tw = w.gen(vm, ac, de, p0, p1, v0, v1);
        VP_CHECK(cx, memcmp(&Tw, &T, 8) == 0 && memcmp(&w, &c, sizeof(c)) == 0, "trap:member_gen_differs", "the C++ member gen() and a_trajtrap_gen() disagree (durations %.17g / %.17g)", Tw, T);
        double xq = T > 0 ? T * 0.37 : 0.5;
        double g[3] = {w.pos(xq), w.vel(xq), w.acc(xq)}, h[3] = {a_trajtrap_pos(&c, xq), a_trajtrap_vel(&c, xq), a_trajtrap_acc(&c, xq)};
        VP_CHECK(cx, memcmp(g, h, sizeof(g)) == 0, "trap:member_eval_differs", "member pos/vel/acc differ from the C functions at x=%.17g", xq);
    }
    if (!(T > 0))
    {
        cx.label(L_RETURN_NONPOS);
        ++cx.rep->excluded;
        return;
    }
    VP_CHECK(cx, std::isfinite(T), "trap:duration_not_finite", "a_trajtrap_gen returned %.17g", T);
    double cv0 = std::fmin(std::fmax(v0, -vm), vm);
    double s = std::max({std::fabs(p0), std::fabs(p1), dist, vm * T, 1.0});
    double vs = std::max(vm, 1e-3);
    bool cruise = c.td > c.ta;
    cx.label(cruise ? L_CRUISE : L_NO_CRUISE);
    if (c.ta == 0) { cx.label(L_TA_ZERO); }
    if (c.td == c.t) { cx.label(L_TD_ZERO); }
    if (c.v1 != std::fmin(std::fmax(v1, -vm), vm)) { cx.label(L_V1_REWRITTEN); }
    if (am != dm && std::fabs(cv0) != std::fabs(c.v1)) { cx.label(L_UNEQUAL_ACC_DEC); }
    if (!cruise || dir < 0 || c.ta == 0 || c.td == c.t) { cx.rep->nontrivial = true; }
    // phase bookkeeping
    double slack = 1e-12 * T;
    VP_CHECK(cx, c.t == T, "trap:duration_field", "returned duration %.17g, context field t = %.17g", T, c.t);
    VP_CHECK(cx, c.ta >= -slack && c.td - c.ta >= -slack && c.t - c.td >= -slack, "trap:negative_phase", "phase durations ta=%.17g, cruise=%.17g, decel=%.17g (T=%.17g)", c.ta, c.td - c.ta, c.t - c.td, T);
    // boundary states
    // times carry a rounding error of a few ulp(T); a rate r turns it into r*ulp(T) in the value
    double et = 16 * (std::nextafter(T, INFINITY) - T);
    double amax = std::max(am, dm);
    double ptol = 1e-9 * s + vm * et, vtol = 1e-9 * vs + amax * et;
    VP_CHECK(cx, std::fabs(a_trajtrap_pos(&c, 0) - p0) <= ptol, "trap:start_position", "pos(0) = %.17g, p0 = %.17g", a_trajtrap_pos(&c, 0), p0);
    VP_CHECK(cx, std::fabs(a_trajtrap_vel(&c, 0) - cv0) <= vtol, "trap:start_velocity", "vel(0) = %.17g, clamped v0 = %.17g", a_trajtrap_vel(&c, 0), cv0);
    VP_CHECK(cx, std::fabs(a_trajtrap_pos(&c, T) - p1) <= ptol, "trap:end_position", "pos(T) = %.17g, p1 = %.17g", a_trajtrap_pos(&c, T), p1);
    VP_CHECK(cx, std::fabs(a_trajtrap_vel(&c, T) - c.v1) <= vtol, "trap:end_velocity", "vel(T) = %.17g, recorded v1 = %.17g", a_trajtrap_vel(&c, T), c.v1);
    VP_CHECK(cx, std::fabs(c.v1) <= vm * (1 + 1e-9), "trap:recorded_v1_exceeds_limit", "recorded final velocity %.17g exceeds vm %.17g", c.v1, vm);
    // hold outside [0, T]
    for (double x : {-1.0, -T, -1e-300, dn(0.0)})
    {
        VP_CHECK(cx, a_trajtrap_pos(&c, x) == p0 && a_trajtrap_vel(&c, x) == c.v0, "trap:before_start", "query at t=%.3g before the start does not hold the initial state", x);
    }
    for (double x : {T * (1 + 1e-15) + 1e-300, 2 * T, T + 1.0, 1e300})
    {
        if (!(x > T)) { continue; }
        VP_CHECK(cx, a_trajtrap_pos(&c, x) == p1 && a_trajtrap_vel(&c, x) == c.v1, "trap:after_end", "query at t=%.17g after the end (T=%.17g) does not hold the final state", x, T);
    }
    // continuity at ta, td, T : value just before vs at the boundary
    double jtp = 1e-7 * s + vm * et, jtv = 1e-7 * vs + amax * et;
    for (double tb : {c.ta, c.td, c.t})
    {
        if (!(tb > 0)) { continue; }
        double b = dn(tb);
        double jp = std::fabs(a_trajtrap_pos(&c, tb) - a_trajtrap_pos(&c, b)), jv = std::fabs(a_trajtrap_vel(&c, tb) - a_trajtrap_vel(&c, b));
        cx.metric(1, std::max(jp / jtp, jv / jtv));
        if (!(jp <= jtp)) { cx.fail("trap:position_jump", "position jumps by %.3g at the phase boundary t=%.17g (ta=%.17g td=%.17g T=%.17g)", jp, tb, c.ta, c.td, c.t); }
        if (!(jv <= jtv)) { cx.fail("trap:velocity_jump", "velocity jumps by %.3g at the phase boundary t=%.17g (ta=%.17g td=%.17g T=%.17g)", jv, tb, c.ta, c.td, c.t); }
    }
    // speed limit on a grid + boundaries
    std::vector<double> ts;
    for (int i = 0; i <= 200; ++i) { ts.push_back(T * i / 200.0); }
    for (double tb : {c.ta, c.td, c.t}) { ts.push_back(tb); ts.push_back(dn(tb)); ts.push_back(std::nextafter(tb, INFINITY)); }
    for (double x : ts)
    {
        double v = a_trajtrap_vel(&c, x);
        cx.metric(0, std::fabs(v) / vm - 1);
        if (!(std::fabs(v) <= vm * (1 + 1e-9) + amax * et)) { cx.fail("trap:speed_limit", "|vel(%.17g)| = %.17g exceeds vm = %.17g", x, std::fabs(v), vm); }
        double a = a_trajtrap_acc(&c, x);
        VP_CHECK(cx, a == 0 || a == c.ac || a == c.de, "trap:acc_value", "acc(%.17g) = %.17g is none of 0, ac, de", x, a);
    }
    // vel = d pos / dt inside each phase
    double ph[4] = {0, c.ta, c.td, c.t};
    for (int k = 0; k < 3; ++k)
    {
        double L = ph[k + 1] - ph[k];
        if (!(L > 1e-3 * T)) { continue; }
        for (double f : {0.25, 0.5, 0.8})
        {
            double x = ph[k] + f * L, h = 1e-4 * L;
            double d = (a_trajtrap_pos(&c, x + h) - a_trajtrap_pos(&c, x - h)) / (2 * h);
            double v = a_trajtrap_vel(&c, x);
            double tol = 1e-5 * vs + 64 * 2.2e-16 * s / h;
            cx.metric(2, std::fabs(d - v) / tol);
            if (!(std::fabs(d - v) <= tol)) { cx.fail("trap:vel_not_derivative_of_pos", "at t=%.17g: vel = %.17g but d pos/dt = %.17g (phase %d)", x, v, d, k); }
        }
    }
}

// standard double-S feasibility (Biagiotti & Melchiorri, Trajectory Planning for Automatic Machines and Robots, 3.4):
// after mirroring so that q > 0
static bool bell_feasible(LD jm, LD am, LD q, LD v0, LD v1)
{
    LD dv = fabsl(v1 - v0);
    LD tj1 = sqrtl(dv / jm), tj2 = am / jm;
    LD tj = tj1 < tj2 ? tj1 : tj2;
    if (tj1 < tj2) { return q > tj * (v0 + v1); }
    return q > 0.5L * (v0 + v1) * (tj + dv / am);
}

static void bell_oracle(Ctx &cx, double jm, double am, double vm, double p0, double p1, double v0, double v1, double dist, int dir, double cv0, double cv1)
{
    cx.hash.add(2);
    for (double x : {jm, am, vm, p0, p1, v0, v1}) { cx.hash.addd(x); }
    cx.log("bell jm=%.17g am=%.17g vm=%.17g p0=%.17g p1=%.17g v0=%.17g v1=%.17g\n", jm, am, vm, p0, p1, v0, v1);
    a_trajbell c;
    memset(&c, 0, sizeof(c));
    bool const replan = (cx.hash.h & 1) != 0; // (see the trapezoid: another request planned on the same object first)
    if (replan) { (void)a_trajbell_gen(&c, jm * 2, am / 2, vm * 3, p1, p0 + 1, -v1 / 2, v0 / 3); cx.label(L_REPLANNED); }
    double T = a_trajbell_gen(&c, jm, am, vm, p0, p1, v0, v1);
    {
        a_trajbell w;
        memset(&w, 0, sizeof(w));
        if (replan) { (void)w.gen(jm * 2, am / 2, vm * 3, p1, p0 + 1, -v1 / 2, v0 / 3); }
        double Tw = w.gen(jm, am, vm, p0, p1, v0, v1);
        VP_CHECK(cx, memcmp(&Tw, &T, 8) == 0 && memcmp(&w, &c, sizeof(c)) == 0, "bell:member_gen_differs", "the C++ member gen() and a_trajbell_gen() disagree (durations %.17g / %.17g)", Tw, T);
        double xq = T > 0 ? T * 0.37 : 0.5;
        double g[4] = {w.pos(xq), w.vel(xq), w.acc(xq), w.jer(xq)}, h[4] = {a_trajbell_pos(&c, xq), a_trajbell_vel(&c, xq), a_trajbell_acc(&c, xq), a_trajbell_jer(&c, xq)};
        VP_CHECK(cx, memcmp(g, h, sizeof(g)) == 0, "bell:member_eval_differs", "member pos/vel/acc/jer differ from the C functions at x=%.17g", xq);
    }
    if (!(T > 0))
    {
        cx.label(L_RETURN_NONPOS);
        ++cx.rep->excluded;
        return;
    }
    VP_CHECK(cx, std::isfinite(T), "bell:duration_not_finite", "a_trajbell_gen returned %.17g", T);
    double s = std::max({std::fabs(p0), std::fabs(p1), dist, vm * T, 1.0});
    double vs = std::max(vm, 1e-3), as = std::max(am, 1e-3), js = std::max(jm, 1e-3);
    bool cruise = c.tv > 0;
    cx.label(cruise ? L_CRUISE : L_NO_CRUISE);
    if (c.ta == 0) { cx.label(L_TA_ZERO); }
    if (c.td == 0) { cx.label(L_TD_ZERO); }
    if (std::fabs(c.am) < am * (1 - 1e-12) || std::fabs(c.dm) < am * (1 - 1e-12)) { cx.label(L_AM_REDUCED); }
    if (!cruise || dir < 0 || c.ta == 0 || c.td == 0 || std::fabs(c.am) < am * (1 - 1e-12)) { cx.rep->nontrivial = true; }
    cx.log("  T=%.17g ta=%.17g tv=%.17g td=%.17g taj=%.17g tdj=%.17g am=%.17g dm=%.17g vm=%.17g\n", T, c.ta, c.tv, c.td, c.taj, c.tdj, c.am, c.dm, c.vm);
    // phase bookkeeping: seven segments, non-negative, adding up
    double slack = 1e-12 * T;
    VP_CHECK(cx, c.t == T, "bell:duration_field", "returned duration %.17g, context field t = %.17g", T, c.t);
    VP_CHECK(cx, std::fabs(c.ta + c.tv + c.td - T) <= 1e-12 * T, "bell:phases_do_not_add_up", "ta + tv + td = %.17g, T = %.17g", c.ta + c.tv + c.td, T);
    VP_CHECK(cx, c.taj >= -slack && c.ta - 2 * c.taj >= -1e-9 * T && c.tv >= -slack && c.tdj >= -slack && c.td - 2 * c.tdj >= -1e-9 * T,
             "bell:negative_phase", "segment durations: taj=%.17g, ta-2taj=%.17g, tv=%.17g, td-2tdj=%.17g, tdj=%.17g", c.taj, c.ta - 2 * c.taj, c.tv, c.td - 2 * c.tdj, c.tdj);
    VP_CHECK(cx, std::fabs(c.vm) <= vm * (1 + 1e-9) && std::fabs(c.am) <= am * (1 + 1e-9) && std::fabs(c.dm) <= am * (1 + 1e-9), "bell:reached_limits_exceed_request", "reached vm=%.17g am=%.17g dm=%.17g exceed the requested limits", c.vm, c.am, c.dm);
    auto P = [&](double x) { return a_trajbell_pos(&c, x); };
    auto V = [&](double x) { return a_trajbell_vel(&c, x); };
    auto A = [&](double x) { return a_trajbell_acc(&c, x); };
    auto J = [&](double x) { return a_trajbell_jer(&c, x); };
    double et = 16 * (std::nextafter(T, INFINITY) - T);
    double ptol = 1e-9 * s + vm * et, vtol = 1e-9 * vs + am * et;
    VP_CHECK(cx, std::fabs(P(0) - p0) <= ptol, "bell:start_position", "pos(0) = %.17g, p0 = %.17g", P(0), p0);
    VP_CHECK(cx, std::fabs(V(0) - cv0) <= vtol, "bell:start_velocity", "vel(0) = %.17g, clamped v0 = %.17g", V(0), cv0);
    VP_CHECK(cx, std::fabs(P(T) - p1) <= ptol, "bell:end_position", "pos(T) = %.17g, p1 = %.17g", P(T), p1);
    VP_CHECK(cx, std::fabs(V(T) - c.v1) <= vtol, "bell:end_velocity", "vel(T) = %.17g, recorded v1 = %.17g", V(T), c.v1);
    VP_CHECK(cx, c.v1 == cv1, "bell:recorded_v1", "recorded final velocity %.17g is not the clamped request %.17g", c.v1, cv1);
    for (double x : {-1.0, -T, -1e-300})
    {
        VP_CHECK(cx, P(x) == p0 && V(x) == c.v0 && A(x) == 0, "bell:before_start", "query at t=%.3g before the start does not hold the initial state", x);
    }
    for (double x : {std::nextafter(T, INFINITY), T * 1.0000001, T + 0.3 * (c.tdj > 0 ? c.tdj : 1), 2 * T, T + 1.0, 1e300})
    {
        if (!(x > T)) { continue; }
        if (!(P(x) == p1 && V(x) == c.v1 && A(x) == 0 && J(x) == 0)) { cx.fail("bell:after_end", "query at t=%.17g after the end (T=%.17g): pos %.17g vel %.17g acc %.17g jer %.17g instead of (%.17g, %.17g, 0, 0)", x, T, P(x), V(x), A(x), J(x), p1, c.v1); }
    }
    // the seven segment ends
    double tb[7] = {c.taj, c.ta - c.taj, c.ta, c.ta + c.tv, c.t - c.td + c.tdj, c.t - c.tdj, c.t};
    double jtp = 1e-7 * s + vm * et, jtv = 1e-7 * vs + am * et, jta = 1e-7 * as + jm * et;
    for (double b : tb)
    {
        if (!(b > 0) || !(b <= T)) { continue; }
        double a = dn(b);
        double jp = std::fabs(P(b) - P(a)), jv = std::fabs(V(b) - V(a)), ja = std::fabs(A(b) - A(a));
        cx.metric(1, std::max({jp / jtp, jv / jtv, ja / jta}));
        if (!(jp <= jtp)) { cx.fail("bell:position_jump", "position jumps by %.3g at the segment boundary t=%.17g (T=%.17g)", jp, b, T); }
        if (!(jv <= jtv)) { cx.fail("bell:velocity_jump", "velocity jumps by %.3g at the segment boundary t=%.17g (T=%.17g)", jv, b, T); }
        if (!(ja <= jta)) { cx.fail("bell:acceleration_jump", "acceleration jumps by %.3g at the segment boundary t=%.17g (T=%.17g)", ja, b, T); }
    }
    // limits: grid + boundaries +- ulp + segment midpoints (interior extrema of vel lie at acc zero crossings = boundaries)
    std::vector<double> ts;
    for (int i = 0; i <= 200; ++i) { ts.push_back(T * i / 200.0); }
    double prev = 0;
    for (double b : tb)
    {
        ts.push_back(b); ts.push_back(dn(b)); ts.push_back(std::nextafter(b, INFINITY));
        ts.push_back(0.5 * (prev + b));
        prev = b;
    }
    for (double x : ts)
    {
        if (!(x >= 0 && x <= T)) { continue; }
        double v = std::fabs(V(x)), a = std::fabs(A(x)), j = std::fabs(J(x));
        cx.metric(0, std::max({v / vm, a / am, j / jm}) - 1);
        if (!(v <= vm * (1 + 1e-9) + am * et)) { cx.fail("bell:speed_limit", "|vel(%.17g)| = %.17g exceeds vm = %.17g", x, v, vm); }
        if (!(a <= am * (1 + 1e-9) + jm * et)) { cx.fail("bell:acceleration_limit", "|acc(%.17g)| = %.17g exceeds am = %.17g", x, a, am); }
        if (!(j <= jm * (1 + 1e-9))) { cx.fail("bell:jerk_limit", "|jer(%.17g)| = %.17g exceeds jm = %.17g", x, j, jm); }
    }
    // derivative links inside each segment
    prev = 0;
    for (int k = 0; k < 7; ++k)
    {
        double L = tb[k] - prev;
        if (L > 1e-3 * T)
        {
            for (double f : {0.3, 0.6})
            {
                double x = prev + f * L, h = 1e-4 * L;
                double dp = (P(x + h) - P(x - h)) / (2 * h), dv = (V(x + h) - V(x - h)) / (2 * h), da = (A(x + h) - A(x - h)) / (2 * h);
                double t1 = 1e-5 * vs + 64 * 2.2e-16 * s / h + js * h * h;       // cubic segments: central difference error jm h^2 / 6
                double t2 = 1e-5 * as + 64 * 2.2e-16 * vs / h;
                double t3 = 1e-5 * js + 64 * 2.2e-16 * as / h;
                cx.metric(2, std::max({std::fabs(dp - V(x)) / t1, std::fabs(dv - A(x)) / t2, std::fabs(da - J(x)) / t3}));
                if (!(std::fabs(dp - V(x)) <= t1)) { cx.fail("bell:vel_not_derivative_of_pos", "at t=%.17g (segment %d): vel = %.17g but d pos/dt = %.17g", x, k, V(x), dp); }
                if (!(std::fabs(dv - A(x)) <= t2)) { cx.fail("bell:acc_not_derivative_of_vel", "at t=%.17g (segment %d): acc = %.17g but d vel/dt = %.17g", x, k, A(x), dv); }
                if (!(std::fabs(da - J(x)) <= t3)) { cx.fail("bell:jer_not_derivative_of_acc", "at t=%.17g (segment %d): jer = %.17g but d acc/dt = %.17g", x, k, J(x), da); }
            }
        }
        prev = tb[k];
    }
}

static void case_bell(Tape &t, Ctx &cx)
{
    double vm = loguni(t, 0.05, 200), am = loguni(t, 0.05, 200), jm = loguni(t, 0.05, 200);
    double dist = loguni(t, 1e-3, 1e4);
    int dir = t.coin() ? 1 : -1;
    double p0 = (double(t.u16()) / 65535.0 - 0.5) * 2000.0;
    if (t.u8() % 4 == 0) { p0 = 0; }
    bool o0, o1;
    double v0 = gen_bv(t, cx, vm, dir, o0), v1 = gen_bv(t, cx, vm, dir, o1);
    uint8_t lsel = t.u8();
    if (lsel % 3 == 1 && (lsel / 3) % 3 != 2)
    {
        // grey-box class: the planner's no-cruise search tries accelerations am * k / 2^n; a single-phase request (acceleration
        // or deceleration only) whose switch-over acceleration a1 - where the other phase just vanishes,
        // |p1 - p0| = (vf - vs)(vf + vs - a1^2/jm) / (2 a1) - sits within 1e-9 .. 1e-15 of such a value is where the search and
        // the closed form hand over to each other. Steers the generator only.
        jm = loguni(t, 0.05, 200);
        am = loguni(t, 0.05, 200);
        unsigned nb = 1 + t.u8() % 5, kk = 1 + t.u8() % ((1u << nb) - 0);
        if (kk > (1u << nb)) { kk = 1u << nb; }
        uint8_t eb = t.u8();
        long double eps = powl(10.0L, -9.0L - (long double)(eb % 7)) * (1 + (eb / 7) % 8); // 1e-9 .. 8e-15, mostly just above the grid value
        if ((eb >> 6) == 0) { eps = -eps; }
        long double a1 = (long double)am * kk / (long double)(1u << nb) * (1 + eps);
        long double vlo = a1 * a1 / jm; // vs + vf has to exceed this
        long double vs = vlo * (0.05L + 0.9L * t.u8() / 255.0L), vf = vlo * (1.0L + 0.05L + 2.0L * t.u8() / 255.0L) - vs;
        if (vf < vs) { std::swap(vs, vf); }
        long double pp = (vf - vs) * (vf + vs - a1 * a1 / jm) / (2 * a1);
        vm = double(vf * (1.0L + t.u8() / 64.0L)) + 1e-3;
        bool accel_only = t.coin();
        v0 = double(accel_only ? vs : vf) * dir;
        v1 = double(accel_only ? vf : vs) * dir;
        dist = double(pp);
        p0 = 0; // p1 - p0 has to carry the constructed distance to the last bit
        o0 = o1 = false;
        cx.label(L_SEARCH_GRID);
        if (!(dist > 0) || !std::isfinite(dist)) { dist = 1; }
    }
    if (lsel % 3 == 0)
    {
        // lattice class: every quantity a small multiple of one step (1, 1/10, 1/8, 1/4). Continuous draws never produce the exact
        // coincidences between internal quantities (a bisection value hitting a switch-over point, two phase times being equal)
        // that such round numbers produce all the time
        static double const steps[] = {1.0, 0.1, 0.125, 0.25, 0.5, 0.2, 1.0, 0.5};
        uint8_t sb = t.u8();
        double q = steps[sb % 8];
        unsigned span = (sb & 8) ? 60 : 8; // mostly single digits: coincidences are far more frequent on a coarse lattice
        jm = q * (1 + t.u8() % span);
        am = q * (1 + t.u8() % span);
        vm = q * (1 + t.u8() % span);
        dist = q * (1 + t.u8() % (2 * span));
        p0 = t.coin() ? 0.0 : q * (int(t.u8()) - 128);
        int nv = int(vm / q + 0.5);
        v0 = q * (int(t.u8() % unsigned(2 * nv + 1)) - nv);
        v1 = q * (int(t.u8() % unsigned(2 * nv + 1)) - nv);
        if (t.u8() % 3 == 0) { v0 = 0; }
        if (t.u8() % 3 == 0) { v1 = 0; }
        if ((sb >> 4) % 4 == 3)
        {
            // a move of length zero (p1 == p0, the library plans it in the forward frame) that has to turn its velocity around:
            // feasible by the standard condition whenever v0 + v1 < 0
            dist = 0;
            dir = 1;
            if (v0 + v1 >= 0) { v0 = -std::fabs(v0); v1 = -std::fabs(v1); }
            if (v0 + v1 == 0) { v0 = -q; }
            cx.label(L_ZERO_LENGTH);
        }
        o0 = v0 * dir < 0;
        o1 = v1 * dir < 0;
        cx.label(L_LATTICE);
    }
    double cv0 = std::fmin(std::fmax(v0, -vm), vm), cv1 = std::fmin(std::fmax(v1, -vm), vm);
    // repair infeasible draws by enlarging the distance (construction, not rejection)
    {
        LD m0 = dir * (LD)cv0, m1 = dir * (LD)cv1;
        int guard = 0;
        while (!bell_feasible(jm, am, dist, m0, m1) && guard++ < 60)
        {
            dist *= 2;
            cx.label(L_REPAIRED);
        }
        // stay clear of the feasibility boundary itself
        if (guard) { dist *= 1.5; }
    }
    double p1 = p0 + dir * dist;
    cx.label(L_BELL);
    if (dir < 0) { cx.label(L_REVERSED); }
    if ((o0 && v0 != 0) || (o1 && v1 != 0)) { cx.label(L_OPPOSING_V0); }
    bell_oracle(cx, jm, am, vm, p0, p1, v0, v1, dist, dir, cv0, cv1);
}

static void run_case(Tape &t, Ctx &cx)
{
    ++cx.rep->subcases;
    if (t.u8() % 2 == 0) { case_trap(t, cx); }
    else { case_bell(t, cx); }
}
VP_DEFINE_RUN(run_case)

// ---------------------------------------------------------------------------------------
// Exhaustive lattice: every bell request whose seven quantities are small multiples of one step. Round numbers make internal
// quantities coincide exactly (a search value with a switch-over point, two phase times) - measure-zero events for the
// continuous generator, everyday inputs for users. Only feasible requests are judged, and only when a positive duration is
// reported (the statement's premise).
extern "C" int vp_enum(unsigned shard, unsigned nshards, int tier, vp_enum_stats *st)
{
    static double const steps0[] = {1.0, 0.5}, steps1[] = {1.0, 0.5, 0.25, 0.1};
    double const *steps = tier ? steps1 : steps0;
    unsigned nsteps = tier ? 4 : 2;
    int const K = tier ? 6 : 5, KV = tier ? 10 : 8, KD = tier ? 12 : 8;
    uint64_t cnt = 0, judged = 0, idx = 0;
    int bad = 0;
    for (unsigned si = 0; si < nsteps; ++si)
    {
        double q = steps[si];
        for (int ij = 1; ij <= K; ++ij) { for (int ia = 1; ia <= K; ++ia) { for (int iv = 1; iv <= KV; ++iv) { for (int id = 1; id <= KD; ++id)
        {
            if (idx++ % nshards != shard) { continue; }
            double jm = q * ij, am = q * ia, vm = q * iv, dist = q * id;
            for (int i0 = -iv; i0 <= iv; ++i0) { for (int i1 = -iv; i1 <= iv; ++i1) { for (int dir = 1; dir >= -1; dir -= 2)
            {
                double v0 = q * i0, v1 = q * i1, p0 = (i0 + i1) & 1 ? q * 3 : 0.0, p1 = p0 + dir * dist;
                ++cnt;
                if (!bell_feasible(jm, am, dist, dir * (LD)v0, dir * (LD)v1)) { continue; }
                vp_report rep;
                Ctx cx(&rep);
                try
                {
                    bell_oracle(cx, jm, am, vm, p0, p1, v0, v1, dist, dir, v0, v1);
                    if (!rep.excluded) { ++judged; }
                }
                catch (vp_fail const &)
                {
                    char msg[400];
                    snprintf(msg, sizeof(msg), "%s: %s (jm=%g am=%g vm=%g p0=%g p1=%g v0=%g v1=%g)", rep.sig.c_str(), rep.msg.c_str(), jm, am, vm, p0, p1, v0, v1);
                    st->violation(msg);
                    if (++bad >= 5) { goto done; }
                }
            } } }
        } } } }
    }
done:
    st->domain(tier ? "bell requests on the lattices jm, am in q*{1..6}, vm in q*{1..10}, distance q*{1..12}, boundary speeds q*{-vm..vm}, both directions, q in {1, 1/2, 1/4, 1/10} (this shard)"
                    : "bell requests on the lattices jm, am in q*{1..5}, vm in q*{1..8}, distance q*{1..8}, boundary speeds q*{-vm..vm}, both directions, q in {1, 1/2} (this shard)", cnt, bad == 0);
    st->s.evaluations = cnt;
    st->s.nontrivial = judged;
    return bad;
}
