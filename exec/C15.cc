// C15 — cubic / quintic / septic trajectories and Horner evaluation, judged with exact
// rational arithmetic (GMP mpq): doubles convert exactly, the boundary-value problem is solved
// exactly by the reference, derivatives of the STORED polynomial are exact.
#include "../drv/vp.h"
#include <cmath>
#include <gmpxx.h>
#include <vector>
extern "C" {
#include "a/poly.h"
#include "a/trajpoly3.h"
#include "a/trajpoly5.h"
#include "a/trajpoly7.h"
}
#include <limits>
typedef mpq_class Q;
typedef a_real R; // float or double build of the library
static double const U_ = double(std::numeric_limits<R>::epsilon()) / 2;
// results in the subnormal range of a_real carry absolute, not relative precision
static double const FLOOR_ = sizeof(R) == 8 ? 1e-300 : 4 * double(std::numeric_limits<R>::denorm_min());

enum { L_P3, L_P5, L_P7, L_ALL_NONZERO, L_T_POW2, L_T_REAL, L_T_SMALL, L_T_LARGE, L_INT_DATA, L_REAL_DATA, L_POLY, L_POLY_N0, L_POLY_N1, L_QUERY_OUTSIDE, L_J0_NE_J1, L_NEAR_DEGENERATE, L_RELATED_DATA, L_REPLANNED };
static char const *const labels[] = {"cubic", "quintic", "septic", "all_boundary_derivatives_nonzero", "duration_power_of_two", "duration_real", "duration_lt_1/16", "duration_gt_16",
                                     "integer_boundary_data", "real_boundary_data", "poly_eval_evar_swap", "poly_n_0", "poly_n_1", "query_outside_0_T", "j0_ne_j1", "boundary_data_of_a_lower_degree_motion_perturbed", "end_data_equal_negated_or_mirrored_start_data", "context_planned_before_with_another_request", nullptr};
static char const *const metrics[] = {"max_end_value_error_over_u_scale", "max_coefficient_error_over_u_scale", "max_horner_error_over_bound", nullptr};
static uint8_t const dict[] = {3, 5, 7, 10, 20};
static vp_info const info = {"C15", "poly", "", labels, metrics, 128, dict, sizeof(dict)};
extern "C" vp_info const *vp_get_info(void) { return &info; }

static double qabs_d(Q const &q)
{
    Q a = abs(q);
    return a.get_d();
}
static Q qpow(Q const &x, unsigned k)
{
    Q r = 1;
    for (unsigned i = 0; i < k; ++i) { r *= x; }
    return r;
}
// exact value of the k-th derivative of sum c_i x^i at x; also sum |c_i| * falling(i,k) * |x|^(i-k)
static Q deriv_at(std::vector<Q> const &c, unsigned k, Q const &x, Q *absum)
{
    Q s = 0, sa = 0;
    for (unsigned i = k; i < c.size(); ++i)
    {
        Q f = 1;
        for (unsigned j = 0; j < k; ++j) { f *= (i - j); }
        Q term = c[i] * f * qpow(x, i - k);
        s += term;
        sa += abs(term);
    }
    if (absum) { *absum = sa; }
    return s;
}

static R gen_T(Tape &t, Ctx &cx)
{
    R T;
    if (t.coin())
    {
        int k = int(t.u8() % 21) - 10;
        T = std::ldexp(1.0, k);
        cx.label(L_T_POW2);
    }
    else
    {
        // log-uniform in [1e-3, 1e3]
        R e = (R(t.u16()) / 65535.0) * 6.0 - 3.0;
        T = std::pow(10.0, e);
        cx.label(L_T_REAL);
    }
    if (T < 1.0 / 16) { cx.label(L_T_SMALL); }
    if (T > 16) { cx.label(L_T_LARGE); }
    return T;
}
static R gen_val(Tape &t, bool ints, bool force_nonzero)
{
    R v;
    if (ints)
    {
        v = R(int(t.u16() % 2001) - 1000);
        if (force_nonzero && v == 0) { v = 7; }
    }
    else
    {
        v = std::ldexp(R(int32_t(t.u32() | 1)) / 2147483648.0, int(t.u8() % 21) - 10);
    }
    return v;
}

// solve the boundary value problem exactly: polynomial of degree 2m-1 with m conditions at 0 and m at T
static std::vector<Q> solve_bvp(unsigned m, Q const &T, std::vector<Q> const &at0, std::vector<Q> const &atT)
{
    unsigned n = 2 * m;
    std::vector<std::vector<Q>> A(n, std::vector<Q>(n + 1, 0));
    for (unsigned k = 0; k < m; ++k)
    {
        // k-th derivative at 0: k! c_k
        Q f = 1;
        for (unsigned j = 2; j <= k; ++j) { f *= j; }
        A[k][k] = f;
        A[k][n] = at0[k];
        for (unsigned i = k; i < n; ++i)
        {
            Q g = 1;
            for (unsigned j = 0; j < k; ++j) { g *= (i - j); }
            A[m + k][i] = g * qpow(T, i - k);
        }
        A[m + k][n] = atT[k];
    }
    for (unsigned c = 0; c < n; ++c)
    {
        unsigned p = c;
        while (p < n && A[p][c] == 0) { ++p; }
        std::swap(A[p], A[c]);
        for (unsigned r = 0; r < n; ++r)
        {
            if (r == c || A[r][c] == 0) { continue; }
            Q f = A[r][c] / A[c][c];
            for (unsigned j = c; j <= n; ++j) { A[r][j] -= f * A[c][j]; }
        }
    }
    std::vector<Q> x(n);
    for (unsigned i = 0; i < n; ++i) { x[i] = A[i][n] / A[i][i]; }
    return x;
}

static void case_traj(Tape &t, Ctx &cx, unsigned m)
{
    R T = gen_T(t, cx);
    bool ints = t.coin();
    uint8_t ab = t.u8();
    bool allnz = (ab % 4) != 0;
    bool neardeg = (ab / 4) % 4 == 0;
    R d0[4] = {0, 0, 0, 0}, d1[4] = {0, 0, 0, 0};
    for (unsigned k = 0; k < m; ++k)
    {
        d0[k] = gen_val(t, ints, allnz);
        d1[k] = gen_val(t, ints, allnz);
        if (!allnz && t.u8() % 3 == 0) { d0[k] = 0; }
        if (!allnz && t.u8() % 3 == 0) { d1[k] = 0; }
    }
    if (!neardeg && (ab / 16) % 4 == 0)
    {
        // related boundary data: every end datum is plus or minus the start datum, by pattern - equal, negated, time-mirrored
        // (an out-and-back stroke: d1[k] = (-1)^k d0[k]), anti-mirrored - sometimes on the position only
        uint8_t pat = t.u8() % 4;
        for (unsigned k = 0; k < m; ++k)
        {
            R sgn = pat == 0 ? R(1) : pat == 1 ? R(-1) : ((k & 1) == (pat == 2 ? 1u : 0u) ? R(-1) : R(1));
            d1[k] = sgn * d0[k];
        }
        if (t.coin()) { d1[0] = d0[0]; }
        cx.label(L_RELATED_DATA);
    }
    if (neardeg)
    {
        // nearly degenerate request: the boundary data of a motion of lower degree q (rest, uniform motion, constant acceleration,
        // constant jerk), one datum then moved by a relative 10^-1 .. 10^-15 - or not at all
        unsigned q = t.u8() % 4;
        long double cq[4] = {0, 0, 0, 0};
        for (unsigned i = 0; i <= q; ++i) { cq[i] = (i == 0 && t.coin()) ? 0.0L : (long double)gen_val(t, ints, true); }
        long double TT = (long double)T;
        long double at0[4] = {cq[0], cq[1], 2 * cq[2], 6 * cq[3]};
        long double atT[4] = {cq[0] + TT * (cq[1] + TT * (cq[2] + TT * cq[3])), cq[1] + TT * (2 * cq[2] + TT * 3 * cq[3]), 2 * cq[2] + TT * 6 * cq[3], 6 * cq[3]};
        for (unsigned k = 0; k < m; ++k) { d0[k] = R(at0[k]); d1[k] = R(atT[k]); }
        uint8_t pb = t.u8();
        if (pb % 4)
        {
            unsigned k = (pb / 4) % m;
            R &d = (pb & 128) ? d0[k] : d1[k];
            long double rel = powl(10.0L, -1.0L - (long double)(t.u8() % 15));
            d = R((long double)d * (1 + (t.coin() ? rel : -rel)));
        }
        cx.label(L_NEAR_DEGENERATE);
    }
    cx.label(ints ? L_INT_DATA : L_REAL_DATA);
    cx.label(m == 2 ? L_P3 : m == 3 ? L_P5 : L_P7);
    bool nz = true;
    for (unsigned k = 1; k < m; ++k) { if (d0[k] == 0 || d1[k] == 0) { nz = false; } }
    if (nz) { cx.label(L_ALL_NONZERO); }
    if (nz && T != 1) { cx.rep->nontrivial = true; }
    if (m == 4 && d0[3] != d1[3]) { cx.label(L_J0_NE_J1); }
    cx.hash.add(m);
    cx.hash.addd(T);
    for (unsigned k = 0; k < m; ++k) { cx.hash.addd(d0[k]); cx.hash.addd(d1[k]); }
    cx.log("trajpoly%u T=%.17g p=(%.17g,%.17g) v=(%.17g,%.17g) a=(%.17g,%.17g) j=(%.17g,%.17g)\n", 2 * m - 1, T, d0[0], d1[0], d0[1], d1[1], d0[2], d1[2], d0[3], d1[3]);
    unsigned n = 2 * m;
    a_trajpoly3 c3;
    a_trajpoly5 c5;
    a_trajpoly7 c7;
    R *cc;
    // the context objects start with arbitrary contents or with an earlier plan: half of the cases plan another request on the
    // same object first (an early-out that "keeps" part of the object shows here)
    memset(&c3, 0x5A, sizeof(c3));
    memset(&c5, 0x5A, sizeof(c5));
    memset(&c7, 0x5A, sizeof(c7));
    if (cx.hash.h & 1)
    {
        if (m == 2) { a_trajpoly3_gen(&c3, T * 2, d1[0], d0[0] + 1, R(3), R(-2)); }
        else if (m == 3) { a_trajpoly5_gen(&c5, T * 2, d1[0], d0[0] + 1, R(3), R(-2), R(1), R(4)); }
        else { a_trajpoly7_gen(&c7, T * 2, d1[0], d0[0] + 1, R(3), R(-2), R(1), R(4), R(-5), R(6)); }
        cx.label(L_REPLANNED);
    }
    if (m == 2) { a_trajpoly3_gen(&c3, T, d0[0], d1[0], d0[1], d1[1]); cc = c3.c; }
    else if (m == 3) { a_trajpoly5_gen(&c5, T, d0[0], d1[0], d0[1], d1[1], d0[2], d1[2]); cc = c5.c; }
    else { a_trajpoly7_gen(&c7, T, d0[0], d1[0], d0[1], d1[1], d0[2], d1[2], d0[3], d1[3]); cc = c7.c; }
    // the member functions the headers give these structures in C++ are part of the interface: same arguments, same object
    {
        a_trajpoly3 w3;
        a_trajpoly5 w5;
        a_trajpoly7 w7;
        R xq = T / 3, *wc;
        R g[4] = {0, 0, 0, 0}, h[4] = {0, 0, 0, 0}, gb[4][8], hb[4][8];
        memset(gb, 0, sizeof(gb));
        memset(hb, 0, sizeof(hb));
        if (m == 2)
        {
            w3.gen(T, d0[0], d1[0], d0[1], d1[1]); wc = w3.c;
            g[0] = w3.pos(xq); g[1] = w3.vel(xq); g[2] = w3.acc(xq);
            h[0] = a_trajpoly3_pos(&c3, xq); h[1] = a_trajpoly3_vel(&c3, xq); h[2] = a_trajpoly3_acc(&c3, xq);
            w3.c0(gb[0]); w3.c1(gb[1]); w3.c2(gb[2]);
            a_trajpoly3_c0(&c3, hb[0]); a_trajpoly3_c1(&c3, hb[1]); a_trajpoly3_c2(&c3, hb[2]);
        }
        else if (m == 3)
        {
            w5.gen(T, d0[0], d1[0], d0[1], d1[1], d0[2], d1[2]); wc = w5.c;
            g[0] = w5.pos(xq); g[1] = w5.vel(xq); g[2] = w5.acc(xq);
            h[0] = a_trajpoly5_pos(&c5, xq); h[1] = a_trajpoly5_vel(&c5, xq); h[2] = a_trajpoly5_acc(&c5, xq);
            w5.c0(gb[0]); w5.c1(gb[1]); w5.c2(gb[2]);
            a_trajpoly5_c0(&c5, hb[0]); a_trajpoly5_c1(&c5, hb[1]); a_trajpoly5_c2(&c5, hb[2]);
        }
        else
        {
            w7.gen(T, d0[0], d1[0], d0[1], d1[1], d0[2], d1[2], d0[3], d1[3]); wc = w7.c;
            g[0] = w7.pos(xq); g[1] = w7.vel(xq); g[2] = w7.acc(xq); g[3] = w7.jer(xq);
            h[0] = a_trajpoly7_pos(&c7, xq); h[1] = a_trajpoly7_vel(&c7, xq); h[2] = a_trajpoly7_acc(&c7, xq); h[3] = a_trajpoly7_jer(&c7, xq);
            w7.c0(gb[0]); w7.c1(gb[1]); w7.c2(gb[2]); w7.c3(gb[3]);
            a_trajpoly7_c0(&c7, hb[0]); a_trajpoly7_c1(&c7, hb[1]); a_trajpoly7_c2(&c7, hb[2]); a_trajpoly7_c3(&c7, hb[3]);
        }
        VP_CHECK(cx, memcmp(wc, cc, sizeof(R) * n) == 0, "traj:member_gen_differs", "trajpoly%u: the C++ member gen() and a_trajpoly%u_gen() give different coefficients for the same arguments", 2 * m - 1, 2 * m - 1);
        VP_CHECK(cx, memcmp(g, h, sizeof(g)) == 0, "traj:member_eval_differs", "trajpoly%u: member pos/vel/acc/jer differ from the C functions at x=%.17g", 2 * m - 1, xq);
        VP_CHECK(cx, memcmp(gb, hb, sizeof(gb)) == 0, "traj:member_accessor_differs", "trajpoly%u: member c0..c3 differ from the C functions", 2 * m - 1);
    }
    for (unsigned i = 0; i < n; ++i)
    {
        if (!std::isfinite(cc[i]))
        {
            cx.fail("traj:nonfinite_coefficient", "coefficient %u is not finite for moderate data (T=%.17g)", i, T);
        }
    }
    auto ev = [&](unsigned k, R x) -> R {
        if (m == 2) { return k == 0 ? a_trajpoly3_pos(&c3, x) : k == 1 ? a_trajpoly3_vel(&c3, x) : a_trajpoly3_acc(&c3, x); }
        if (m == 3) { return k == 0 ? a_trajpoly5_pos(&c5, x) : k == 1 ? a_trajpoly5_vel(&c5, x) : a_trajpoly5_acc(&c5, x); }
        return k == 0 ? a_trajpoly7_pos(&c7, x) : k == 1 ? a_trajpoly7_vel(&c7, x) : k == 2 ? a_trajpoly7_acc(&c7, x) : a_trajpoly7_jer(&c7, x);
    };
    unsigned nder = m == 4 ? 4 : 3; // outputs available: pos, vel, acc (+ jer for the septic)
    // size of the boundary data, in position units
    Q QT(T);
    double S0 = 0;
    {
        double Tk = 1;
        for (unsigned k = 0; k < m; ++k)
        {
            S0 += (std::fabs(d0[k]) + std::fabs(d1[k])) * Tk;
            Tk *= T;
        }
    }
    // (1) start conditions at time zero
    VP_CHECK(cx, ev(0, 0.0) == d0[0], "traj:start_position", "pos(0) = %.17g, requested %.17g", ev(0, 0.0), d0[0]);
    VP_CHECK(cx, ev(1, 0.0) == d0[1], "traj:start_velocity", "vel(0) = %.17g, requested %.17g", ev(1, 0.0), d0[1]);
    if (m >= 3)
    {
        R a = ev(2, 0.0);
        VP_CHECK(cx, std::fabs(a - d0[2]) <= 2 * U_ * 2 * std::fabs(d0[2]), "traj:start_acceleration", "acc(0) = %.17g, requested %.17g", a, d0[2]);
    }
    if (m >= 4)
    {
        R j = ev(3, 0.0);
        VP_CHECK(cx, std::fabs(j - d0[3]) <= 2 * U_ * 4 * std::fabs(d0[3]), "traj:start_jerk", "jer(0) = %.17g, requested %.17g", j, d0[3]);
    }
    // stored polynomial, exactly
    std::vector<Q> c(n);
    for (unsigned i = 0; i < n; ++i) { c[i] = Q(cc[i]); }
    // (2) coefficients against the exact solution of the boundary value problem
    {
        std::vector<Q> at0(m), atT(m);
        for (unsigned k = 0; k < m; ++k) { at0[k] = Q(d0[k]); atT[k] = Q(d1[k]); }
        std::vector<Q> ideal = solve_bvp(m, QT, at0, atT);
        double Ti = 1;
        for (unsigned i = 0; i < n; ++i)
        {
            double err = qabs_d(c[i] - ideal[i]);
            double scale = U_ * S0 / Ti + FLOOR_;
            cx.metric(1, err / scale);
            if (!(err <= 16384 * scale))
            {
                cx.fail("traj:coefficient", "trajpoly%u coefficient %u is %.17g, the exact boundary-value solution is %.17g (error %.3g = %.3g u*scale)", 2 * m - 1, i, cc[i], ideal[i].get_d(), err, err / scale);
            }
            Ti *= T;
        }
    }
    // (3) end conditions at time T, from the functions and exactly from the stored polynomial
    {
        double Tk = 1;
        for (unsigned k = 0; k < m; ++k)
        {
            Q exact = deriv_at(c, k, QT, nullptr);
            // the k-th derivative weights coefficient i by i(i-1)..(i-k+1) <= falling(2m-1, k)
            double fall = 1;
            for (unsigned j = 0; j < k; ++j) { fall *= double(n - 1 - j); }
            double scale = U_ * S0 / Tk * fall + FLOOR_;
            double e1 = qabs_d(exact - Q(d1[k]));
            cx.metric(0, e1 / scale);
            static char const *const nm[] = {"position", "velocity", "acceleration", "jerk"};
            if (!(e1 <= 16384 * scale)) { cx.fail("traj:end_condition", "trajpoly%u: final %s of the stored polynomial is %.17g, requested %.17g (error %.3g u*scale)", 2 * m - 1, nm[k], exact.get_d(), d1[k], e1 / scale); }
            if (k < nder)
            {
                R g = ev(k, T);
                double e2 = std::fabs(g - d1[k]);
                if (!(e2 <= 32768 * scale)) { cx.fail("traj:end_value", "trajpoly%u: %s(T) = %.17g, requested %.17g (error %.3g u*scale)", 2 * m - 1, nm[k], g, d1[k], e2 / scale); }
            }
            Tk *= T;
        }
    }
    // (4) accessors = exact successive derivative coefficients of the stored polynomial (<= 2 ulp)
    {
        R buf[8];
        for (unsigned k = 0; k <= (m == 4 ? 3u : 2u); ++k)
        {
            for (R &b : buf) { b = 777.25; }
            if (m == 2) { k == 0 ? a_trajpoly3_c0(&c3, buf) : k == 1 ? a_trajpoly3_c1(&c3, buf) : a_trajpoly3_c2(&c3, buf); }
            else if (m == 3) { k == 0 ? a_trajpoly5_c0(&c5, buf) : k == 1 ? a_trajpoly5_c1(&c5, buf) : a_trajpoly5_c2(&c5, buf); }
            else { k == 0 ? a_trajpoly7_c0(&c7, buf) : k == 1 ? a_trajpoly7_c1(&c7, buf) : k == 2 ? a_trajpoly7_c2(&c7, buf) : a_trajpoly7_c3(&c7, buf); }
            for (unsigned i = 0; i + k < n; ++i)
            {
                Q f = 1;
                for (unsigned j = 0; j < k; ++j) { f *= (i + k - j); }
                Q want = c[i + k] * f;
                double err = qabs_d(Q(buf[i]) - want);
                if (!(err <= 2 * 2 * U_ * qabs_d(want) + FLOOR_)) { cx.fail("traj:accessor", "trajpoly%u c%u[%u] = %.17g, exact derivative coefficient %.17g", 2 * m - 1, k, i, buf[i], want.get_d()); }
            }
            if (n - k < 8) { VP_CHECK(cx, buf[n - k] == 777.25, "traj:accessor_overrun", "c%u wrote more than %u coefficients", k, n - k); }
        }
    }
    // (5) pos/vel/acc/jer(x) = exact derivatives of the stored polynomial within the Horner bound
    for (unsigned q = 0; q < 4; ++q)
    {
        R x;
        switch (t.u8() % 6)
        {
        case 0: x = T / 2; break;
        case 1: x = T; break;
        case 2: x = T * (R(t.u16()) / 65535.0); break;
        case 3: x = -T * (R(t.u8()) / 255.0); cx.label(L_QUERY_OUTSIDE); break;
        case 4: x = T * (1 + R(t.u8()) / 255.0); cx.label(L_QUERY_OUTSIDE); break;
        default: x = std::ldexp(T, -int(t.u8() % 30)); break;
        }
        Q qx(x);
        for (unsigned k = 0; k < nder; ++k)
        {
            Q sa;
            Q exact = deriv_at(c, k, qx, &sa);
            R g = ev(k, x);
            double err = qabs_d(Q(g) - exact);
            double bound = (2.0 * n + 6) * U_ * qabs_d(sa) * 4 + FLOOR_;
            cx.metric(2, err / bound);
            static char const *const nm[] = {"pos", "vel", "acc", "jer"};
            if (!(err <= bound)) { cx.fail("traj:not_derivative", "trajpoly%u %s(%.17g) = %.17g, exact %u-th derivative of the stored position polynomial is %.17g (error %.3g, Horner bound %.3g)", 2 * m - 1, nm[k], x, g, k, exact.get_d(), err, bound); }
        }
    }
}

static void case_poly(Tape &t, Ctx &cx)
{
    unsigned n = t.u8() % 14;
    bool ints = t.coin();
    std::vector<R> a(n);
    for (auto &v : a) { v = ints ? R(int(t.u8()) - 128) : std::ldexp(R(int32_t(t.u32())) / 2147483648.0, int(t.u8() % 21) - 10); }
    R x = ints ? R(int(t.u8() % 21) - 10) : std::ldexp(R(int32_t(t.u32())) / 2147483648.0, int(t.u8() % 9) - 4);
    cx.label(L_POLY);
    if (n == 0) { cx.label(L_POLY_N0); }
    if (n == 1) { cx.label(L_POLY_N1); }
    cx.hash.add(1000 + n);
    for (R v : a) { cx.hash.addd(v); }
    cx.hash.addd(x);
    if (n >= 1) { cx.rep->nontrivial = true; }
    cx.log("poly n=%u x=%.17g\n", n, x);
    // exact-size heap copy
    R *p = (R *)malloc(sizeof(R) * (n ? n : 1));
    struct F { R *p; ~F() { free(p); } } fr{p};
    memcpy(p, a.data(), sizeof(R) * n);
    Q qx(x), up = 0, down = 0, sa = 0;
    for (unsigned i = 0; i < n; ++i)
    {
        up += Q(a[i]) * qpow(qx, i);
        down += Q(a[i]) * qpow(qx, n - 1 - i);
        sa += abs(Q(a[i]) * qpow(qx, i));
    }
    Q sd = 0;
    for (unsigned i = 0; i < n; ++i) { sd += abs(Q(a[i]) * qpow(qx, n - 1 - i)); }
    R e1 = a_poly_eval(p, n, x), e2 = a_poly_evar(p, n, x);
    {
        // the coefficient vector is a const input: the same calls on a copy in read-only memory give the same bits
        RoBlock ro(a.data(), sizeof(R) * n, sizeof(R));
        R const *rp = (R const *)ro.p;
        if (rp)
        {
            R r1 = a_poly_eval(rp, n, x), r2 = a_poly_evar(rp, n, x);
            VP_CHECK(cx, memcmp(&r1, &e1, sizeof(R)) == 0 && memcmp(&r2, &e2, sizeof(R)) == 0, "poly:readonly_input_differs", "a_poly_eval / a_poly_evar on a read-only copy of the coefficients give %.17g / %.17g instead of %.17g / %.17g", r1, r2, e1, e2);
            if (n)
            {
                R r3 = a_poly_eval_(rp, rp + n, x), r4 = a_poly_evar_(rp, rp + n, x);
                VP_CHECK(cx, memcmp(&r3, &e1, sizeof(R)) == 0 && memcmp(&r4, &e2, sizeof(R)) == 0, "poly:readonly_input_differs", "a_poly_eval_ / a_poly_evar_ on a read-only copy give %.17g / %.17g instead of %.17g / %.17g", r3, r4, e1, e2);
            }
        }
    }
    double b1 = (2.0 * n + 2) * U_ * qabs_d(sa) * 2 + FLOOR_, b2 = (2.0 * n + 2) * U_ * qabs_d(sd) * 2 + FLOOR_;
    VP_CHECK(cx, qabs_d(Q(e1) - up) <= b1, "poly:eval", "a_poly_eval(n=%u, x=%.17g) = %.17g, exact ascending-order value %.17g", n, x, e1, up.get_d());
    VP_CHECK(cx, qabs_d(Q(e2) - down) <= b2, "poly:evar", "a_poly_evar(n=%u, x=%.17g) = %.17g, exact descending-order value %.17g", n, x, e2, down.get_d());
    if (n)
    {
        R f1 = a_poly_eval_(p, p + n, x), f2 = a_poly_evar_(p, p + n, x);
        VP_CHECK(cx, f1 == e1 && f2 == e2, "poly:pointer_form", "pointer-pair forms disagree with the counted forms");
    }
    // order reversal: involution, and evar(swap(a)) == eval(a) bit for bit
    a_poly_swap(p, n);
    for (unsigned i = 0; i < n; ++i) { VP_CHECK(cx, memcmp(&p[i], &a[n - 1 - i], sizeof(R)) == 0, "poly:swap", "a_poly_swap: element %u of %u is wrong", i, n); }
    R e3 = a_poly_evar(p, n, x), e4 = a_poly_eval(p, n, x);
    VP_CHECK(cx, memcmp(&e3, &e1, sizeof(R)) == 0, "poly:evar_of_swap", "a_poly_evar(swap(a)) = %.17g but a_poly_eval(a) = %.17g (n=%u)", e3, e1, n);
    VP_CHECK(cx, memcmp(&e4, &e2, sizeof(R)) == 0, "poly:eval_of_swap", "a_poly_eval(swap(a)) = %.17g but a_poly_evar(a) = %.17g (n=%u)", e4, e2, n);
    a_poly_swap(p, n);
    VP_CHECK(cx, n == 0 || memcmp(p, a.data(), sizeof(R) * n) == 0, "poly:swap_involution", "a_poly_swap twice is not the identity (n=%u)", n);
}

static void run_case(Tape &t, Ctx &cx)
{
    ++cx.rep->subcases;
    switch (t.u8() % 4)
    {
    case 0: case_traj(t, cx, 2); break;
    case 1: case_traj(t, cx, 3); break;
    case 2: case_traj(t, cx, 4); break;
    default: case_poly(t, cx); break;
    }
}
VP_DEFINE_RUN(run_case)
