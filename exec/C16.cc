// C16 — discrete transfer function (exact integer reference, linearity, time invariance, zero),
// first-order low/high-pass filters and their coefficient generators.
#include "../drv/vp.h"
#include <memory>
#include <cmath>
#include <vector>
extern "C" {
#include "a/hpf.h"
#include "a/lpf.h"
#include "a/tf.h"
}
typedef __int128 i128;
typedef long double LD;
#include <limits>
typedef a_real R; // float or double build of the library
static int const MANT = std::numeric_limits<R>::digits - 1;   // 52 / 23: integers below 2^MANT are exact with room for one more bit
static int const EN = -std::numeric_limits<R>::min_exponent + 1; // 1022 / 126
static R const EXACT_MAX = R(std::ldexp(1.0, MANT));
// the strict-interior clause of the statement (1e-12 <= fc*ts <= 1e12) presupposes that 1 - 6e-12 and 1 + 6e12 are distinguishable
// from 1 resp. infinity/zero in a_real; in the float build the window in which that is representable is asserted instead
static LD const WIN_LO = sizeof(R) == 4 ? 1e-6L : 1e-12L, WIN_HI = sizeof(R) == 4 ? 1e5L : 1e12L;

enum { L_TF, L_TF_ORDER2, L_TF_DEN_GT_NUM, L_TF_NUM_GT_DEN, L_TF_ORDER0, L_TF_ZERO_MID, L_TF_LINEAR, L_TF_DELAY, L_LPF, L_HPF, L_GEN, L_GEN_EXTREME_OPERAND, L_GEN_SATURATING, L_DYADIC, L_TF_STOPPED_MAGNITUDE, L_WIDE, L_TF_RECONFIGURED, L_TF_SUBNORMAL_SCALE };
static char const *const labels[] = {"tf", "tf_num_ge_2_and_den_ge_2", "tf_den_gt_num", "tf_num_gt_den", "tf_order_0_side", "tf_zero_mid_history", "tf_linearity", "tf_time_invariance",
                                     "lpf", "hpf", "coefficient_generators", "generator_operand_beyond_1e+-150", "generator_product_outside_1e+-12", "dyadic_alpha_exact_class", "tf_history_cut_at_2^52", "inputs_over_whole_exponent_range", "tf_numerator_or_denominator_replaced_mid_history", "tf_inputs_scaled_into_the_subnormal_range", nullptr};
static char const *const metrics[] = {"max_lpf_range_excess_ulps", "max_gen_error_ulps", nullptr};
static uint8_t const dict[] = {2, 3, 8, 24};
static vp_info const info = {"C16", "filters", "", labels, metrics, 160, dict, sizeof(dict)};
extern "C" vp_info const *vp_get_info(void) { return &info; }

struct Blk
{
    R *p;
    size_t n;
    explicit Blk(size_t n_) : n(n_)
    {
        p = (R *)malloc(sizeof(R) * (n ? n : 1)); // exact-size when n > 0 ; n == 0: a 1-R dummy never touched
        for (size_t i = 0; i < n; ++i) { p[i] = 12345.5; }
    }
    ~Blk() { free(p); }
    Blk(Blk const &) = delete;
};

struct Ref
{
    std::vector<i128> in, out; // most recent first
    std::vector<int> b, a;
    i128 step(i128 x, bool &ok)
    {
        if (!in.empty())
        {
            in.insert(in.begin(), x);
            in.pop_back();
        }
        i128 y = 0, mag = 0;
        for (size_t i = 0; i < b.size(); ++i)
        {
            y += i128(b[i]) * in[i];
            mag += (b[i] < 0 ? -i128(b[i]) : i128(b[i])) * (in[i] < 0 ? -in[i] : in[i]);
        }
        for (size_t i = 0; i < a.size(); ++i)
        {
            y -= i128(a[i]) * out[i];
            mag += (a[i] < 0 ? -i128(a[i]) : i128(a[i])) * (out[i] < 0 ? -out[i] : out[i]);
        }
        if (mag >= (i128(1) << MANT)) { ok = false; }
        if (!out.empty())
        {
            out.insert(out.begin(), y);
            out.pop_back();
        }
        return y;
    }
    void zero()
    {
        for (auto &v : in) { v = 0; }
        for (auto &v : out) { v = 0; }
    }
};

struct TF
{
    Blk num, den, input, output;
    std::unique_ptr<RoBlock> ro_num, ro_den;
    a_tf ctx;
    TF(std::vector<int> const &b, std::vector<int> const &a, bool member = false, bool ro = false) : num(b.size()), den(a.size()), input(b.size()), output(a.size())
    {
        for (size_t i = 0; i < b.size(); ++i) { num.p[i] = b[i]; }
        for (size_t i = 0; i < a.size(); ++i) { den.p[i] = a[i]; }
        // the history blocks arrive dirty: init has to clear them
        for (size_t i = 0; i < b.size(); ++i) { input.p[i] = 7.5; }
        for (size_t i = 0; i < a.size(); ++i) { output.p[i] = -3.25; }
        // the coefficient vectors are const inputs of the filter: on request they are read from read-only memory
        R const *np = num.p, *dp = den.p;
        if (ro)
        {
            ro_num.reset(new RoBlock(num.p, sizeof(R) * b.size(), sizeof(R)));
            ro_den.reset(new RoBlock(den.p, sizeof(R) * a.size(), sizeof(R)));
            if (ro_num->p && ro_den->p) { np = (R const *)ro_num->p; dp = (R const *)ro_den->p; }
        }
        if (member) { ctx.init(unsigned(b.size()), np, input.p, unsigned(a.size()), dp, output.p); }
        else { a_tf_init(&ctx, unsigned(b.size()), np, input.p, unsigned(a.size()), dp, output.p); }
    }
};

static void case_tf(Tape &t, Ctx &cx)
{
    unsigned nn = t.u8() % 9, dn = t.u8() % 9;
    std::vector<int> b(nn), a(dn);
    for (auto &v : b) { v = int(t.u8() % 7) - 3; }
    for (auto &v : a) { v = int(t.u8() % 7) - 3; }
    unsigned len = 1 + t.u8() % 24;
    std::vector<int> x1(len), x2(len);
    for (auto &v : x1) { v = int(t.u8() % 11) - 5; }
    for (auto &v : x2) { v = int(t.u8() % 11) - 5; }
    int al = int(t.u8() % 7) - 3, be = int(t.u8() % 7) - 3;
    unsigned delay = t.u8() % 5;
    unsigned zero_at = t.u8() % (len + 4);
    cx.hash.add(nn | (dn << 8) | (len << 16));
    for (int v : b) { cx.hash.add(uint64_t(v + 8)); }
    for (int v : a) { cx.hash.add(uint64_t(v + 8)); }
    for (int v : x1) { cx.hash.add(uint64_t(v + 8)); }
    cx.label(L_TF);
    if (nn >= 2 && dn >= 2) { cx.label(L_TF_ORDER2); }
    if (dn > nn) { cx.label(L_TF_DEN_GT_NUM); }
    if (nn > dn) { cx.label(L_TF_NUM_GT_DEN); }
    if (!nn || !dn) { cx.label(L_TF_ORDER0); }
    cx.log("tf num_n=%u den_n=%u len=%u zero_at=%u delay=%u\n", nn, dn, len, zero_at, delay);
    {
        unsigned distinct3 = 0;
        for (unsigned i = 2; i < len; ++i) { if (x1[i] != x1[i - 1] && x1[i - 1] != x1[i - 2] && x1[i] != x1[i - 2]) { distinct3 = 1; } }
        if (nn >= 2 && dn >= 2 && distinct3) { cx.rep->nontrivial = true; }
    }
    TF f(b, a, false, true);
    TF fm(b, a, true); // configured and driven through the C++ member functions of a_tf
    Ref r;
    r.b = b;
    r.a = a;
    r.in.assign(nn, 0);
    r.out.assign(dn, 0);
    // (1) difference equation from zero state, with a zero() in the middle: afterwards the fresh response
    std::vector<i128> y1(len);
    bool ok = true;
    for (unsigned k = 0; k < len; ++k)
    {
        if (k == zero_at && k > 0)
        {
            a_tf_zero(&f.ctx);
            fm.ctx.zero();
            r.zero();
            cx.label(L_TF_ZERO_MID);
            if (dn != nn) { cx.rep->nontrivial = true; }
        }
        i128 want = r.step(x1[k], ok);
        if (!ok)
        {
            cx.label(L_TF_STOPPED_MAGNITUDE);
            ++cx.rep->excluded;
            return;
        }
        R got = a_tf_iter(&f.ctx, R(x1[k]));
        R gotm = fm.ctx(R(x1[k]));
        VP_CHECK(cx, memcmp(&got, &gotm, sizeof(R)) == 0, "tf:member_differs", "step %u: the member call operator returns %.17g, a_tf_iter %.17g", k, gotm, got);
        y1[k] = want;
        if (!(got == R(want)))
        {
            cx.fail("tf:difference_equation", "step %u: a_tf_iter returned %.17g, the difference equation gives %.17g (num_n=%u den_n=%u%s)", k, got, R(want), nn, dn, (zero_at > 0 && k >= zero_at) ? ", after a_tf_zero" : "");
        }
    }
    // (2) zero, then the same inputs again: must reproduce the response of a fresh filter
    {
        a_tf_zero(&f.ctx);
        TF fresh(b, a);
        for (unsigned k = 0; k < len; ++k)
        {
            R g1 = a_tf_iter(&f.ctx, R(x2[k])), g2 = a_tf_iter(&fresh.ctx, R(x2[k]));
            if (!std::isfinite(g2) || std::fabs(g2) > EXACT_MAX) { break; }
            if (!(g1 == g2)) { cx.fail("tf:zero_not_fresh", "after a_tf_zero step %u returns %.17g, a freshly initialised filter returns %.17g (num_n=%u den_n=%u)", k, g1, g2, nn, dn); }
        }
    }
    // (3) linearity and time invariance on integers (exact)
    {
        TF f1(b, a), f2(b, a), f3(b, a), fd(b, a);
        Ref r1, r2;
        r1.b = r2.b = b;
        r1.a = r2.a = a;
        r1.in.assign(nn, 0); r1.out.assign(dn, 0);
        r2.in.assign(nn, 0); r2.out.assign(dn, 0);
        std::vector<R> yd;
        for (unsigned k = 0; k < delay; ++k)
        {
            R g = a_tf_iter(&fd.ctx, 0.0);
            VP_CHECK(cx, g == 0.0, "tf:nonzero_response_to_zero", "zero input from zero state gives %.17g", g);
        }
        bool ok2 = true;
        for (unsigned k = 0; k < len; ++k)
        {
            i128 w1 = r1.step(x1[k], ok2), w2 = r2.step(x2[k], ok2);
            i128 comb = i128(al) * w1 + i128(be) * w2;
            i128 cmag = (comb < 0 ? -comb : comb);
            if (!ok2 || cmag >= (i128(1) << (MANT - 2))) { break; }
            R g1 = a_tf_iter(&f1.ctx, R(x1[k]));
            R g2 = a_tf_iter(&f2.ctx, R(x2[k]));
            R g3 = a_tf_iter(&f3.ctx, R(al * x1[k] + be * x2[k]));
            R gd = a_tf_iter(&fd.ctx, R(x1[k]));
            (void)g2;
            // the magnitude check above is on the references; the combined filter may exceed it a little earlier: stop when inexact
            if (std::fabs(g3) > EXACT_MAX) { break; }
            if (!(g3 == R(comb))) { cx.fail("tf:not_linear", "step %u: tf(%d*x1+%d*x2) = %.17g but %d*tf(x1)+%d*tf(x2) = %.17g", k, al, be, g3, al, be, R(comb)); }
            if (!(gd == g1)) { cx.fail("tf:not_time_invariant", "step %u: input delayed by %u samples gives %.17g, undelayed response is %.17g", k, delay, gd, g1); }
            cx.label(L_TF_LINEAR);
            if (delay) { cx.label(L_TF_DELAY); }
        }
    }
    // (4) a new numerator or denominator on a live filter (a_tf_set_num / a_tf_set_den, C and member forms): the replaced side's
    //     history starts from zero, the other side's history is kept; the new blocks are exact-size and arrive dirty
    if (t.u8() % 3 == 0)
    {
        TF g(b, a), gm(b, a, true);
        Ref rr;
        rr.b = b; rr.a = a;
        rr.in.assign(nn, 0); rr.out.assign(dn, 0);
        unsigned at = t.u8() % (len + 1);
        bool which_den = t.coin();
        unsigned nk = t.u8() % 9;
        std::vector<int> nc(nk);
        for (auto &v : nc) { v = int(t.u8() % 7) - 3; }
        Blk coef(nk), hist(nk), coefm(nk), histm(nk);
        for (unsigned i = 0; i < nk; ++i) { coef.p[i] = coefm.p[i] = nc[i]; hist.p[i] = histm.p[i] = 11.5; }
        bool ok4 = true;
        cx.label(L_TF_RECONFIGURED);
        cx.hash.add(at | (nk << 8) | (unsigned(which_den) << 16));
        cx.log("  reconfigure at step %u: new %s of %u coefficients\n", at, which_den ? "denominator" : "numerator", nk);
        for (unsigned k = 0; k < len; ++k)
        {
            if (k == at)
            {
                if (which_den)
                {
                    a_tf_set_den(&g.ctx, nk, coef.p, hist.p);
                    gm.ctx.set_den(nk, coefm.p, histm.p);
                    rr.a = nc; rr.out.assign(nk, 0);
                }
                else
                {
                    a_tf_set_num(&g.ctx, nk, coef.p, hist.p);
                    gm.ctx.set_num(nk, coefm.p, histm.p);
                    rr.b = nc; rr.in.assign(nk, 0);
                }
            }
            i128 want = rr.step(x2[k], ok4);
            if (!ok4) { break; }
            R got = a_tf_iter(&g.ctx, R(x2[k])), gotm = gm.ctx(R(x2[k]));
            if (!(got == R(want))) { cx.fail("tf:set_num_den", "step %u (new %s of %u coefficients installed at step %u): a_tf_iter returned %.17g, the difference equation gives %.17g", k, which_den ? "denominator" : "numerator", nk, at, got, R(want)); }
            VP_CHECK(cx, memcmp(&got, &gotm, sizeof(R)) == 0, "tf:member_differs", "step %u after member set_%s: member path returns %.17g, C path %.17g", k, which_den ? "den" : "num", gotm, got);
        }
    }
    // (5) homogeneity across the exponent range: the inputs times 2^s give the integer response times 2^s, exactly - all products
    //     and sums are integer multiples of 2^s below 2^(MANT+s), representable down to the smallest subnormal and up to the
    //     largest binade; s from the whole range, preferably at its ends. The stored output history is compared as well.
    {
        int const smin = std::numeric_limits<R>::min_exponent - std::numeric_limits<R>::digits; // 2^smin = smallest subnormal
        int const smax = std::numeric_limits<R>::max_exponent - 2 - MANT;
        uint16_t sb = t.u16();
        int s2;
        switch (sb % 4)
        {
        case 0: s2 = smin + int(sb / 4) % 80; break;
        case 1: s2 = smax - int(sb / 4) % 80; break;
        case 2: s2 = smin + int(sb / 4) % (smax - smin + 1); break;
        default: s2 = int(sb / 4) % 81 - 40; break;
        }
        TF fs(b, a);
        Ref rs;
        rs.b = b; rs.a = a;
        rs.in.assign(nn, 0); rs.out.assign(dn, 0);
        bool ok5 = true;
        cx.hash.add(uint64_t(s2 + 100000));
        if (s2 < std::numeric_limits<R>::min_exponent - 1 + 8) { cx.label(L_TF_SUBNORMAL_SCALE); }
        for (unsigned k = 0; k < len; ++k)
        {
            i128 want = rs.step(x1[k], ok5);
            if (!ok5) { break; }
            R xs = std::ldexp(R(x1[k]), s2), ws = std::ldexp(R(want), s2);
            R got = a_tf_iter(&fs.ctx, xs);
            if (!(got == ws)) { cx.fail("tf:not_homogeneous", "step %u: inputs scaled by 2^%d: a_tf_iter returned %.17g, 2^%d times the integer response is %.17g (num_n=%u den_n=%u)", k, s2, double(got), s2, double(ws), nn, dn); }
            if (dn) { VP_CHECK(cx, fs.ctx.output[0] == got, "tf:stored_output_differs", "step %u (scale 2^%d): the output history holds %.17g, the value returned was %.17g", k, s2, double(fs.ctx.output[0]), double(got)); }
        }
    }
    // (6) the ways callers actually drive a filter: priming samples whose results are discarded, then a run of one constant
    //     sample in a loop (a step response). Every call advances the filter, whether or not its result is used and whether or not
    //     its arguments changed since the last call.
    {
        TF fp(b, a);
        Ref rp;
        rp.b = b; rp.a = a;
        rp.in.assign(nn, 0); rp.out.assign(dn, 0);
        bool ok6 = true;
        unsigned prime = len < 3 ? len : 3;
        for (unsigned k = 0; k < prime; ++k)
        {
            (void)rp.step(x1[k], ok6);
            (void)a_tf_iter(&fp.ctx, R(x1[k])); // result not used
        }
        R const c = R(x2[0] ? x2[0] : 1);
        unsigned m = 1 + len % 7;
        R y = 0;
        i128 want = 0;
        for (unsigned k = 0; k < m && ok6; ++k) { want = rp.step(int(c), ok6); }
        if (ok6)
        {
            for (unsigned k = 0; k < m; ++k) { y = a_tf_iter(&fp.ctx, c); }
            if (!(y == R(want))) { cx.fail("tf:call_not_counted", "%u primed samples (results discarded) then %u times the constant sample %.17g: the last call returned %.17g, the difference equation gives %.17g (num_n=%u den_n=%u)", prime, m, double(c), double(y), double(R(want)), nn, dn); }
        }
    }
}

static R gen_alpha(Tape &t, Ctx &cx, bool &dyadic)
{
    uint8_t c = t.u8() % 8;
    dyadic = false;
    switch (c)
    {
    case 0: return 0.0;
    case 1: return 1.0;
    case 2: case 3: {
        unsigned m = 1 + t.u8() % 3;
        dyadic = true;
        cx.label(L_DYADIC);
        return R(t.u8() % ((1u << m) + 1)) / R(1u << m); }
    case 4: return std::ldexp(1.0, -int(t.u8() % 60));
    case 5: return 1.0 - std::ldexp(1.0, -int(1 + t.u8() % 52));
    default: return R(t.u32()) / 4294967296.0;
    }
}

static R ulp_of(R x)
{
    x = std::fabs(x);
    if (x < std::numeric_limits<R>::min()) { return std::numeric_limits<R>::denorm_min(); }
    return std::nextafter(x, std::numeric_limits<R>::infinity()) - x;
}

static void case_lpf(Tape &t, Ctx &cx)
{
    bool dy;
    R alpha = gen_alpha(t, cx, dy);
    unsigned len = 1 + t.u8() % 24;
    bool ints = dy || t.coin();
    bool wide = !ints && t.coin(); // magnitudes from 1e-307 to 1e307, both signs
    if (wide) { cx.label(L_WIDE); }
    a_lpf f;
    a_lpf_init(&f, alpha);
    a_lpf fm = f; // driven through the C++ member functions
    cx.hash.addd(alpha);
    cx.label(L_LPF);
    cx.log("lpf alpha=%.17g len=%u %s\n", alpha, len, ints ? "integer inputs" : "real inputs");
    R lo = 0, hi = 0;
    cx.rep->nontrivial = alpha > 0 && alpha < 1;
    for (unsigned k = 0; k < len; ++k)
    {
        R x = ints ? R(int(t.u16() % 2001) - 1000) : std::ldexp(R(int32_t(t.u32())) / 2147483648.0, wide ? int(t.u16() % unsigned(2 * EN - 3)) - (EN - 2) : int(t.u8() % 41) - 20);
        cx.hash.addd(x);
        if (x < lo) { lo = x; }
        if (x > hi) { hi = x; }
        R before = f.output;
        R y = a_lpf_iter(&f, x);
        {
            R ym = fm(x);
            VP_CHECK(cx, memcmp(&y, &ym, sizeof(R)) == 0 && memcmp(&f, &fm, sizeof(f)) == 0, "lpf:member_differs", "step %u: member call operator gives %.17g, a_lpf_iter %.17g", k, ym, y);
        }
        {
            // the documented difference equation, one step, evaluated in long double on the filter's own previous output
            LD want = (1 - (LD)alpha) * (LD)before + (LD)alpha * (LD)x;
            R eqtol = 4 * ulp_of(std::fmax(std::fabs(before), std::fabs(x)));
            if (!(fabsl((LD)y - want) <= eqtol)) { cx.fail("lpf:difference_equation", "step %u: output %.17g, (1-alpha)*%.17g + alpha*%.17g = %.17Lg (alpha %.17g)", k, y, before, x, want, alpha); }
            if (alpha == 1.0) { VP_CHECK(cx, y == x, "lpf:alpha_one", "alpha = 1: output %.17g is not the newest sample %.17g", y, x); }
            if (alpha == 0.0) { VP_CHECK(cx, y == 0.0, "lpf:alpha_zero", "alpha = 0: output %.17g moved away from 0", y); }
        }
        R scale = std::fmax(std::fabs(lo), std::fabs(hi));
        // each step rounds three times (1 - alpha, the two products, the sum: <= 2.5 ulp of the larger operand) and the recurrence damps
        // earlier errors by (1 - alpha): after k steps the output may leave the range of the inputs by at most 2.5 ulp * min(k, 1/alpha).
        // (A 1 - alpha that is not exactly representable - the usual case in the float build - makes the fixed point c / (1 - delta/alpha).)
        R acc = alpha > 0 ? std::fmin(R(k + 1), 1 / alpha) : R(1);
        R tol = (dy && ints && len <= 8) ? 0.0 : 4 * ulp_of(scale) * acc;
        R excess = y < lo ? lo - y : y > hi ? y - hi : 0;
        if (scale > 0) { cx.metric(0, excess / ulp_of(scale)); }
        if (!(y >= lo - tol && y <= hi + tol))
        {
            cx.fail("lpf:outside_range_of_inputs", "step %u: output %.17g outside the range [%.17g, %.17g] of {0, inputs so far} (alpha %.17g)", k, y, lo, hi, alpha);
        }
        VP_CHECK(cx, y == f.output, "lpf:state", "returned value differs from the stored output");
    }
    // constant input: monotone convergence, and it settles
    {
        R c = ints ? R(int(t.u16() % 2001) - 1000) : std::ldexp(R(int32_t(t.u32() | 1)) / 2147483648.0, int(t.u8() % 41) - 20);
        a_lpf_zero(&f);
        VP_CHECK(cx, f.output == 0, "lpf:zero", "a_lpf_zero left output %.17g", f.output);
        fm.zero();
        VP_CHECK(cx, memcmp(&f, &fm, sizeof(f)) == 0, "lpf:member_differs", "member zero() and a_lpf_zero leave different states");
        R prev = std::fabs(c);
        R tol = 4 * ulp_of(c);
        LD remain = fabsl((LD)c);
        for (unsigned k = 0; k < 200; ++k)
        {
            R y = a_lpf_iter(&f, c);
            R d = std::fabs(c - y);
            remain *= (1 - (LD)alpha);
            if (!(d <= prev + tol)) { cx.fail("lpf:not_monotone", "constant input %.17g: |x - output| grew from %.17g to %.17g at step %u (alpha %.17g)", c, prev, d, k, alpha); }
            if (!(d <= R(remain) + 2 * ulp_of(c) * (k + 2) + tol)) /* each step adds at most two roundings of size ulp(x)/2 */ { cx.fail("lpf:does_not_settle", "constant input %.17g: after %u steps |x - output| = %.17g, the recurrence gives %.17Lg (alpha %.17g)", c, k + 1, d, remain, alpha); }
            R rtol = tol * (alpha > 0 ? std::fmin(R(k + 1), 1 / alpha) : R(1)); // accumulated rounding, see above
            VP_CHECK(cx, (y >= std::fmin(R(0), c) - rtol) && (y <= std::fmax(R(0), c) + rtol), "lpf:outside_range_of_inputs", "constant input %.17g: output %.17g leaves [0, x]", c, y);
            prev = d;
        }
    }
}

static void case_hpf(Tape &t, Ctx &cx)
{
    bool dy;
    R alpha = gen_alpha(t, cx, dy);
    a_hpf f;
    a_hpf_init(&f, alpha);
    a_hpf fm = f; // driven through the C++ member functions
    cx.hash.addd(alpha);
    cx.label(L_HPF);
    bool ints = dy || t.coin();
    // a short arbitrary prefix, then a constant input
    unsigned pre = t.u8() % 6;
    R last = 0, maxin = 0;
    for (unsigned k = 0; k < pre; ++k)
    {
        R x = ints ? R(int(t.u16() % 2001) - 1000) : std::ldexp(R(int32_t(t.u32())) / 2147483648.0, int(t.u8() % 21) - 10);
        cx.hash.addd(x);
        R ob = f.output, ib = f.input;
        R y = a_hpf_iter(&f, x);
        {
            R ym = fm(x);
            VP_CHECK(cx, memcmp(&y, &ym, sizeof(R)) == 0 && memcmp(&f, &fm, sizeof(f)) == 0, "hpf:member_differs", "prefix step %u: member call operator gives %.17g, a_hpf_iter %.17g", k, ym, y);
        }
        {
            LD want = (LD)alpha * ((LD)ob + (LD)x - (LD)ib);
            R eqtol = 4 * ulp_of(std::fabs(ob) + std::fabs(x) + std::fabs(ib));
            if (!(fabsl((LD)y - want) <= eqtol)) { cx.fail("hpf:difference_equation", "prefix step %u: output %.17g, alpha*(%.17g + %.17g - %.17g) = %.17Lg (alpha %.17g)", k, y, ob, x, ib, want, alpha); }
        }
        last = x;
        if (std::fabs(x) > maxin) { maxin = std::fabs(x); }
    }
    R c = ints ? R(int(t.u16() % 2001) - 1000) : std::ldexp(R(int32_t(t.u32() | 1)) / 2147483648.0, int(t.u8() % 21) - 10);
    cx.hash.addd(c);
    if (std::fabs(c) > maxin) { maxin = std::fabs(c); }
    cx.log("hpf alpha=%.17g prefix %u then constant %.17g\n", alpha, pre, c);
    cx.rep->nontrivial = alpha > 0 && alpha < 1 && c != last;
    // rounding of (output + x) - input is relative to the magnitude of the inputs
    R prevout = std::fabs(f.output);
    R tol = 8 * ulp_of(std::fmax(maxin, prevout) * 4 + std::numeric_limits<R>::min());
    R y0 = a_hpf_iter(&f, c);
    LD bound = fabsl((LD)y0);
    R prev = std::fabs(y0);
    for (unsigned k = 0; k < 300; ++k)
    {
        R y = a_hpf_iter(&f, c);
        R ay = std::fabs(y);
        bound *= (LD)alpha;
        if (!(ay <= prev + tol)) { cx.fail("hpf:not_decaying", "constant input %.17g: |output| grew from %.17g to %.17g at step %u (alpha %.17g)", c, prev, ay, k, alpha); }
        if (alpha < 1 && !(ay <= R(bound) + tol / (1 - alpha) + tol)) { cx.fail("hpf:does_not_decay", "constant input %.17g: after %u steps |output| = %.17g, the recurrence gives %.17Lg (alpha %.17g)", c, k + 2, ay, bound, alpha); }
        prev = ay;
    }
    // zero: afterwards the filter answers like a freshly initialised one (C and member forms)
    {
        R z1 = 0.0;
        for (unsigned k = 0; k < 2; ++k) { z1 = fm(c); }
        (void)z1;
        a_hpf_zero(&f);
        fm.zero();
        a_hpf fresh;
        a_hpf_init(&fresh, alpha);
        VP_CHECK(cx, memcmp(&f, &fresh, sizeof(f)) == 0, "hpf:zero_not_fresh", "a_hpf_zero leaves (output %.17g, input %.17g), a freshly initialised filter has (%.17g, %.17g)", f.output, f.input, fresh.output, fresh.input);
        VP_CHECK(cx, memcmp(&fm, &fresh, sizeof(f)) == 0, "hpf:member_differs", "member zero() leaves (output %.17g, input %.17g)", fm.output, fm.input);
        R a1 = a_hpf_iter(&f, c), a2 = a_hpf_iter(&fresh, c);
        VP_CHECK(cx, memcmp(&a1, &a2, sizeof(R)) == 0, "hpf:zero_not_fresh", "first output after a_hpf_zero %.17g, fresh filter %.17g", a1, a2);
    }
}

static R gen_pos(Tape &t, Ctx &cx)
{
    // positive doubles over the whole exponent range, incl. subnormals and near-max
    uint8_t c = t.u8() % 8;
    R m = 1.0 + R(t.u32()) / 4294967296.0;
    switch (c)
    {
    case 0: return std::ldexp(m, int(t.u8() % 41) - 20);
    case 1: return std::ldexp(m, int(t.u16() % unsigned(2 * EN + 2)) - EN);
    case 2: cx.label(L_GEN_EXTREME_OPERAND); return std::ldexp(m, -EN - int(t.u8() % unsigned(MANT)));
    case 3: cx.label(L_GEN_EXTREME_OPERAND); return std::ldexp(m, EN - int(t.u8() % 40));
    case 4: return R(1 + t.u16());
    case 5: return 1.0 / R(1 + t.u16());
    default: return std::ldexp(m, int(t.u16() % unsigned(EN / 2 + 1)) - EN / 4);
    }
}

static void case_gen(Tape &t, Ctx &cx)
{
    R fc = gen_pos(t, cx), ts;
    if (t.coin())
    {
        // choose ts so that the product lands in the asserted window 1e-12 .. 1e12
        LD target = powl(10.0L, LD(int(t.u8() % 241) - 120) / (sizeof(R) == 4 ? 20.0L : 10.0L));
        LD q = target / (LD)fc;
        ts = R(q);
        if (!(ts > 0) || !std::isfinite(ts)) { ts = gen_pos(t, cx); }
    }
    else { ts = gen_pos(t, cx); }
    if (std::fabs(std::log10(fc)) > EN * 0.147 || std::fabs(std::log10(ts)) > EN * 0.147) { cx.label(L_GEN_EXTREME_OPERAND); }
    cx.hash.addd(fc);
    cx.hash.addd(ts);
    cx.label(L_GEN);
    cx.rep->nontrivial = true;
    LD prod = (LD)fc * (LD)ts; // long double has the exponent range for every pair of doubles
    R al = a_lpf_gen(fc, ts), ah = a_hpf_gen(fc, ts);
    {
        a_lpf ml;
        a_hpf mh;
        memset(&ml, 0, sizeof(ml));
        memset(&mh, 0, sizeof(mh));
        ml.gen(fc, ts);
        mh.gen(fc, ts);
        VP_CHECK(cx, memcmp(&ml.alpha, &al, sizeof(R)) == 0, "lpf_gen:member_differs", "member gen(%.17g, %.17g) sets alpha %.17g, a_lpf_gen gives %.17g", fc, ts, ml.alpha, al);
        VP_CHECK(cx, memcmp(&mh.alpha, &ah, sizeof(R)) == 0, "hpf_gen:member_differs", "member gen(%.17g, %.17g) sets alpha %.17g, a_hpf_gen gives %.17g", fc, ts, mh.alpha, ah);
    }
    {
        // the macro forms (also behind the static initialisers), with expressions as arguments the way callers write them:
        // fc = fa + fb and ts = ta - tb, both exact
        R fa = fc / 2, fb = fc - fa, ta = ts * 2, tb = ts;
        if (fa + fb == fc && std::isfinite(ta) && ta - tb == ts)
        {
            R ml = A_LPF_GEN(fa + fb, ta - tb), mh = A_HPF_GEN(fa + fb, ta - tb);
            a_lpf il = A_LPF_2(fa + fb, ta - tb);
            a_hpf ih = A_HPF_2(fa + fb, ta - tb);
            a_lpf i1 = A_LPF_1(fa + fb);
            a_hpf h1 = A_HPF_1(fa + fb);
            VP_CHECK(cx, memcmp(&ml, &al, sizeof(R)) == 0 && memcmp(&il.alpha, &al, sizeof(R)) == 0 && il.output == 0, "lpf_gen:macro_differs", "A_LPF_GEN / A_LPF_2 with the arguments (fa + fb, ta - tb) give %.17g / %.17g, a_lpf_gen(%.17g, %.17g) gives %.17g", ml, il.alpha, fc, ts, al);
            VP_CHECK(cx, memcmp(&mh, &ah, sizeof(R)) == 0 && memcmp(&ih.alpha, &ah, sizeof(R)) == 0 && ih.output == 0 && ih.input == 0, "hpf_gen:macro_differs", "A_HPF_GEN / A_HPF_2 with the arguments (fa + fb, ta - tb) give %.17g / %.17g, a_hpf_gen(%.17g, %.17g) gives %.17g", mh, ih.alpha, fc, ts, ah);
            VP_CHECK(cx, i1.alpha == fc && h1.alpha == fc && i1.output == 0 && h1.output == 0 && h1.input == 0, "lpf_gen:macro_differs", "A_LPF_1 / A_HPF_1 with the argument (fa + fb) store %.17g / %.17g, not %.17g", i1.alpha, h1.alpha, fc);
        }
    }
    cx.log("gen fc=%.17g ts=%.17g product=%.6Lg -> lpf %.17g hpf %.17g\n", fc, ts, prod, al, ah);
    LD tau = 6.283185307179586476925286766559L;
    LD rl = 1 / (1 + 1 / (tau * prod)), rh = 1 / (tau * prod + 1);
    VP_CHECK(cx, al >= 0 && al <= 1, "lpf_gen:outside_unit_interval", "a_lpf_gen(%.17g, %.17g) = %.17g is outside [0,1]", fc, ts, al);
    VP_CHECK(cx, ah >= 0 && ah <= 1, "hpf_gen:outside_unit_interval", "a_hpf_gen(%.17g, %.17g) = %.17g is outside [0,1]", fc, ts, ah);
    if (prod >= WIN_LO && prod <= WIN_HI)
    {
        VP_CHECK(cx, al > 0 && al < 1, "lpf_gen:not_strictly_inside", "a_lpf_gen(%.17g, %.17g) = %.17g although fc*ts = %.6Lg lies in the asserted window", fc, ts, al, prod);
        VP_CHECK(cx, ah > 0 && ah < 1, "hpf_gen:not_strictly_inside", "a_hpf_gen(%.17g, %.17g) = %.17g although fc*ts = %.6Lg lies in the asserted window", fc, ts, ah, prod);
        LD el = fabsl(al - rl) / (LD)ulp_of(R(rl)), eh = fabsl(ah - rh) / (LD)ulp_of(R(rh));
        cx.metric(1, R(el > eh ? el : eh));
        VP_CHECK(cx, el <= 4, "lpf_gen:formula", "a_lpf_gen(%.17g, %.17g) = %.17g, ts/(1/(2 pi fc)+ts) = %.17Lg (%.2Lg ulp)", fc, ts, al, rl, el);
        VP_CHECK(cx, eh <= 4, "hpf_gen:formula", "a_hpf_gen(%.17g, %.17g) = %.17g, 1/(2 pi fc ts+1) = %.17Lg (%.2Lg ulp)", fc, ts, ah, rh, eh);
    }
    else { cx.label(L_GEN_SATURATING); }
}

static void run_case(Tape &t, Ctx &cx)
{
    ++cx.rep->subcases;
    switch (t.u8() % 6)
    {
    case 0: case 1: case 2: case_tf(t, cx); break;
    case 3: case_lpf(t, cx); break;
    case 4: case_hpf(t, cx); break;
    default: case_gen(t, cx); break;
    }
}
VP_DEFINE_RUN(run_case)
