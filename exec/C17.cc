#define VP_AMBIENT_ROUNDING 1 // results of this executor may not depend on the dynamic floating-point rounding mode (drv/vp.h)
// C17 — table-driven CRCs vs bit-by-bit polynomial division, reflection relation, chunked
// feeding; multiplicative hashes vs their definition, composition and string/length forms.
#include "../drv/vp.h"
#include <string>
#include <vector>
#include <sys/mman.h>
#include <unistd.h>
#include "../drv/enum.h"
#include "vp_literals.h" // generated per unit: integer literals of the library sources
extern "C" {
#include "a/crc.h"
#include "a/hash.h"
}

enum { L_W8, L_W16, L_W32, L_W64, L_MSB, L_LSB, L_POLY_TOPBIT, L_INIT_NONZERO, L_SPLIT3, L_LONG, L_HASH_BKDR, L_HASH_SDBM, L_HIGH_BYTE, L_NUL_INSIDE, L_PUBLISHED_POLY, L_WORD_RECORDS, L_POLY_REVERSED_WORD, L_POLY_FROM_SOURCE_LITERAL };
static char const *const labels[] = {"crc8", "crc16", "crc32", "crc64", "msb_first", "lsb_first", "polynomial_top_bit_set", "initial_value_nonzero", "three_way_split",
                                     "message_ge_64_bytes", "hash_bkdr", "hash_sdbm", "byte_ge_0x80", "nul_inside_message", "published_polynomial", "message_of_machine_word_records", "polynomial_is_bit_reversal_of_a_tape_word", "polynomial_is_a_literal_of_the_library_source_or_its_reversal", nullptr};
static char const *const metrics[] = {nullptr};
static uint8_t const dict[] = {0x31, 0x39, 0x07, 0x1D, 0xB7, 0x21, 0x10};
static vp_info const info = {"C17", "crc_hash", "", labels, metrics, 360, dict, sizeof(dict)};
extern "C" vp_info const *vp_get_info(void) { return &info; }

static uint64_t mask_w(int w) { return w == 64 ? ~uint64_t(0) : ((uint64_t(1) << w) - 1); }
static uint64_t ref_rev(uint64_t x, int w)
{
    uint64_t r = 0;
    for (int i = 0; i < w; ++i) { if ((x >> i) & 1) { r |= uint64_t(1) << (w - 1 - i); } }
    return r;
}
// remainder of bit-by-bit polynomial division, most significant bit first
static uint64_t ref_msb(int w, uint64_t poly, uint8_t const *p, size_t n, uint64_t v)
{
    uint64_t top = uint64_t(1) << (w - 1), m = mask_w(w);
    for (size_t i = 0; i < n; ++i)
    {
        v ^= uint64_t(p[i]) << (w - 8);
        for (int b = 0; b < 8; ++b) { v = (v & top) ? (((v << 1) & m) ^ poly) : ((v << 1) & m); }
    }
    return v & m;
}
// least significant bit first, with the reflected polynomial
static uint64_t ref_lsb(int w, uint64_t poly, uint8_t const *p, size_t n, uint64_t v)
{
    uint64_t pr = ref_rev(poly, w);
    for (size_t i = 0; i < n; ++i)
    {
        v ^= p[i];
        for (int b = 0; b < 8; ++b) { v = (v & 1) ? ((v >> 1) ^ pr) : (v >> 1); }
    }
    return v & mask_w(w);
}

union Table
{
    a_u8 t8[0x100];
    a_u16 t16[0x100];
    a_u32 t32[0x100];
    a_u64 t64[0x100];
};

static uint64_t run_crc(int w, bool lsb, Table const &T, void const *p, size_t n, uint64_t v)
{
    switch (w)
    {
    case 8: return a_crc8(T.t8, p, n, a_u8(v));
    case 16: return lsb ? a_crc16l(T.t16, p, n, a_u16(v)) : a_crc16m(T.t16, p, n, a_u16(v));
    case 32: return lsb ? a_crc32l(T.t32, p, n, a_u32(v)) : a_crc32m(T.t32, p, n, a_u32(v));
    default: return lsb ? a_crc64l(T.t64, p, n, v) : a_crc64m(T.t64, p, n, v);
    }
}
static void init_table(int w, bool lsb, Table &T, uint64_t poly)
{
    switch (w)
    {
    case 8: lsb ? a_crc8l_init(T.t8, a_u8(poly)) : a_crc8m_init(T.t8, a_u8(poly)); break;
    case 16: lsb ? a_crc16l_init(T.t16, a_u16(poly)) : a_crc16m_init(T.t16, a_u16(poly)); break;
    case 32: lsb ? a_crc32l_init(T.t32, a_u32(poly)) : a_crc32m_init(T.t32, a_u32(poly)); break;
    default: lsb ? a_crc64l_init(T.t64, poly) : a_crc64m_init(T.t64, poly); break;
    }
}
static uint64_t table_at(int w, Table const &T, unsigned i)
{
    switch (w)
    {
    case 8: return T.t8[i];
    case 16: return T.t16[i];
    case 32: return T.t32[i];
    default: return T.t64[i];
    }
}

static uint64_t gen_word(Tape &t, int w)
{
    uint64_t m = mask_w(w);
    switch (t.u8() % 6)
    {
    case 0: return 0;
    case 1: return m;
    case 2: return t.u64() & m;
    case 3: return (t.u64() | (uint64_t(1) << (w - 1))) & m;
    case 4: return t.u8();
    default: return (uint64_t(1) << (t.u8() % w)) & m;
    }
}

static uint64_t const pub8[] = {0x07, 0x31, 0x1D, 0x9B, 0xD5};
static uint64_t const pub16[] = {0x1021, 0x8005, 0x3D65, 0xC867, 0xA001};
static uint64_t const pub32[] = {0x04C11DB7, 0x1EDC6F41, 0x741B8CD7, 0xA833982B, 0x814141AB};
static uint64_t const pub64[] = {0x42F0E1EBA9EA3693ull, 0xAD93D23594C935A9ull, 0x000000000000001Bull, 0x259C84CBA6426349ull};

static std::vector<uint8_t> gen_msg(Tape &t, Ctx &cx)
{
    size_t n;
    switch (t.u8() % 6)
    {
    case 0: n = 0; break;
    case 1: n = 1; break;
    case 2: n = 9; break;
    case 3: n = t.u16() % 301; break;
    default: n = t.u8() % 40; break;
    }
    std::vector<uint8_t> m(n);
    uint8_t mode = t.u8() % 5;
    if (mode == 4)
    {
        // records of machine words (2, 4 or 8 bytes, either byte order) from a boundary pool, each possibly derived from its
        // predecessor (copy, negation, complement, +1), with runs of zero words: the shape of binary data rather than of text
        m.clear();
        unsigned wb = 2u << (t.u8() % 3);
        bool be = t.coin();
        unsigned nw = n ? unsigned(1 + n / wb) : 0;
        if (nw > 40) { nw = 40; }
        uint64_t prev = 0;
        static uint64_t const pool[] = {0, 1, 2, 0x7F, 0x80, 0xFF, 0x100, 0x7FFF, 0x8000, 0xFFFF, 0x7FFFFFFF, 0x80000000ull, 0xFFFFFFFFull, 0x8000000000000000ull, 0x7FFFFFFFFFFFFFFFull, ~uint64_t(0)};
        for (unsigned i = 0; i < nw; ++i)
        {
            uint64_t v;
            uint8_t c = t.u8();
            switch (c % 8)
            {
            case 0: case 1: v = 0; break;
            case 2: v = pool[(c / 8) % 16]; break;
            case 3: v = prev; break;
            case 4: v = uint64_t(0) - prev; break;
            case 5: v = ~prev; break;
            case 6: v = prev + 1; break;
            default: v = t.u64(); break;
            }
            prev = v;
            for (unsigned b = 0; b < wb; ++b) { m.push_back(uint8_t(v >> (8 * (be ? wb - 1 - b : b)))); }
        }
        if (t.u8() % 4 == 0 && !m.empty()) { m.resize(m.size() - t.u8() % wb); } // not necessarily a whole number of words
        cx.label(L_WORD_RECORDS);
        for (uint8_t c : m) { if (c >= 0x80) { cx.label(L_HIGH_BYTE); } }
        if (m.size() >= 64) { cx.label(L_LONG); }
        return m;
    }
    for (size_t i = 0; i < n; ++i)
    {
        uint8_t c;
        switch (mode)
        {
        case 0: c = uint8_t('1' + i % 9); break; // "123456789..."
        case 1: c = t.u8(); break;
        case 2: c = uint8_t(0x80 | t.u8()); break;
        default: c = uint8_t(t.u8() % 3 ? 'a' + i % 26 : t.u8()); break;
        }
        if (c >= 0x80) { cx.label(L_HIGH_BYTE); }
        m[i] = c;
    }
    if (n >= 64) { cx.label(L_LONG); }
    return m;
}

static void run_case(Tape &t, Ctx &cx)
{
    ++cx.rep->subcases;
    uint8_t h = t.u8();
    if (h % 4 != 3)
    {
        // ---- CRC ----
        int w = 8 << (t.u8() % 4);
        bool lsb = t.coin();
        uint64_t poly;
        uint8_t pc = t.u8();
        if (pc % 3 == 0)
        {
            switch (w)
            {
            case 8: poly = pub8[pc / 3 % 5]; break;
            case 16: poly = pub16[pc / 3 % 5]; break;
            case 32: poly = pub32[pc / 3 % 5]; break;
            default: poly = pub64[pc / 3 % 4]; break;
            }
            cx.label(L_PUBLISHED_POLY);
        }
        else if (pc % 3 == 1 && (pc / 3) % 2 == 0)
        {
            // the bit reversal of a tape word: the lsb-first initialisers reflect the polynomial internally, so this form puts the
            // value they actually work with into the tape byte for byte (comparison-guided mutation can then match constants)
            poly = ref_rev(t.u64() & mask_w(w), w);
            cx.label(L_POLY_REVERSED_WORD);
        }
        else if (pc % 3 == 2 && (pc / 3) % 4 == 0 && vp_nliterals)
        {
            // a literal that occurs in the library's own source, or its bit reversal (constants the code compares against)
            uint64_t v = vp_literals[t.u16() % vp_nliterals];
            poly = (t.coin() ? ref_rev(v & mask_w(w), w) : v) & mask_w(w);
            cx.label(L_POLY_FROM_SOURCE_LITERAL);
        }
        else { poly = gen_word(t, w); }
        uint64_t init = gen_word(t, w);
        std::vector<uint8_t> msg = gen_msg(t, cx);
        size_t n = msg.size();
        cx.hash.add(uint64_t(w) * 2 + lsb);
        cx.hash.add(poly);
        cx.hash.add(init);
        cx.hash.addb(msg.data(), n);
        cx.label(w == 8 ? L_W8 : w == 16 ? L_W16 : w == 32 ? L_W32 : L_W64);
        cx.label(lsb ? L_LSB : L_MSB);
        if (poly >> (w - 1)) { cx.label(L_POLY_TOPBIT); }
        if (init) { cx.label(L_INIT_NONZERO); }
        cx.log("crc%d%c poly %#llx init %#llx message %zu bytes\n", w, lsb ? 'l' : 'm', (unsigned long long)poly, (unsigned long long)init, n);
        bool outside_digits = false;
        for (uint8_t c : msg) { if (c < 0x30 || c > 0x39) { outside_digits = true; } }
        if (n >= 2 && outside_digits && init) { cx.rep->nontrivial = true; }
        Table T;
        // the caller's table buffer is never fresh: a byte pattern, zeros, the table of the other bit order, or the right table
        // with every entry but a few damaged - init has to overwrite all 256 entries whatever it finds
        switch ((h >> 2) % 4)
        {
        case 0: memset(&T, 0xEE, sizeof(T)); break;
        case 1: memset(&T, 0, sizeof(T)); break;
        case 2: memset(&T, 0xEE, sizeof(T)); init_table(w, !lsb, T, poly); break;
        default:
            memset(&T, 0xEE, sizeof(T));
            init_table(w, lsb, T, poly);
            for (unsigned i = 2; i < 256; ++i)
            {
                if (i == 0x80) { continue; }
                switch (w)
                {
                case 8: T.t8[i] ^= 0x5A; break;
                case 16: T.t16[i] ^= 0x5A5A; break;
                case 32: T.t32[i] ^= 0x5A5A5A5Au; break;
                default: T.t64[i] ^= 0x5A5A5A5A5A5A5A5Aull; break;
                }
            }
            break;
        }
        init_table(w, lsb, T, poly);
        // table entry = CRC of the single byte with zero initial value
        for (unsigned i = 0; i < 256; ++i)
        {
            uint8_t b = uint8_t(i);
            uint64_t want = lsb ? ref_lsb(w, poly, &b, 1, 0) : ref_msb(w, poly, &b, 1, 0);
            uint64_t got = table_at(w, T, i);
            if (got != want) { cx.fail(lsb ? "crc:table_lsb" : "crc:table_msb", "crc%d%c table[%u] = %#llx, bitwise division gives %#llx (poly %#llx)", w, lsb ? 'l' : 'm', i, (unsigned long long)got, (unsigned long long)want, (unsigned long long)poly); }
        }
        // exact-size copy of the message (over-reads are ASan errors)
        uint8_t *blk = (uint8_t *)malloc(n ? n : 1);
        memcpy(blk, msg.data(), n);
        uint64_t got = run_crc(w, lsb, T, blk, n, init);
        {
            // the table and the message are const inputs of the update: the same call on read-only copies gives the same value
            RoBlock rt(&T, sizeof(T), 8), rm(msg.data(), n, 1);
            if (rt.p && rm.p)
            {
                uint64_t gro = run_crc(w, lsb, *(Table const *)rt.p, rm.p, n, init);
                if (gro != got) { free(blk); cx.fail("crc:readonly_input_differs", "crc%d%c on read-only copies of table and message = %#llx, on writable ones %#llx", w, lsb ? 'l' : 'm', (unsigned long long)gro, (unsigned long long)got); }
            }
        }
        uint64_t want = lsb ? ref_lsb(w, poly, blk, n, init) : ref_msb(w, poly, blk, n, init);
        if (got != want)
        {
            free(blk);
            cx.fail(lsb ? "crc:value_lsb" : "crc:value_msb", "crc%d%c(poly %#llx, init %#llx, %zu bytes) = %#llx, bitwise division gives %#llx", w, lsb ? 'l' : 'm', (unsigned long long)poly, (unsigned long long)init, n, (unsigned long long)got, (unsigned long long)want);
        }
        // the same call again after the caller has edited the message in place (same argument values, other bytes), and again
        // after the edit is undone: the value is a function of the bytes, not of the pointer
        if (n)
        {
            size_t at = n - 1 - (init % n) % n;
            uint8_t keep = blk[at];
            uint8_t const flip = uint8_t(0x01u << (poly & 7));
            uint64_t g1 = 0, g2 = 0, g3 = 0;
            // (three direct calls with identical argument expressions in straight-line code, the way a caller would write it)
#define VP_THRICE(CALL)            \
    do {                           \
        g1 = (CALL);               \
        blk[at] = uint8_t(keep ^ flip); \
        g2 = (CALL);               \
        blk[at] = keep;            \
        g3 = (CALL);               \
    } while (0)
            switch (w)
            {
            case 8: VP_THRICE(a_crc8(T.t8, blk, n, a_u8(init))); break;
            case 16: if (lsb) { VP_THRICE(a_crc16l(T.t16, blk, n, a_u16(init))); } else { VP_THRICE(a_crc16m(T.t16, blk, n, a_u16(init))); } break;
            case 32: if (lsb) { VP_THRICE(a_crc32l(T.t32, blk, n, a_u32(init))); } else { VP_THRICE(a_crc32m(T.t32, blk, n, a_u32(init))); } break;
            default: if (lsb) { VP_THRICE(a_crc64l(T.t64, blk, n, init)); } else { VP_THRICE(a_crc64m(T.t64, blk, n, init)); } break;
            }
#undef VP_THRICE
            blk[at] = uint8_t(keep ^ flip);
            uint64_t w2 = lsb ? ref_lsb(w, poly, blk, n, init) : ref_msb(w, poly, blk, n, init);
            blk[at] = keep;
            if (g1 != got) { g3 = g1; }
            if (g2 != w2 || g3 != got)
            {
                free(blk);
                cx.fail("crc:stale_after_in_place_edit", "crc%d%c over %zu bytes after flipping a bit of byte %zu in place = %#llx (bitwise division %#llx), after undoing the edit %#llx (first value %#llx)", w, lsb ? 'l' : 'm', n, at,
                        (unsigned long long)g2, (unsigned long long)w2, (unsigned long long)g3, (unsigned long long)got);
            }
        }
        // pieces with the running value carried over
        {
            size_t a = n ? t.u16() % (n + 1) : 0, b = n ? t.u16() % (n + 1) : 0;
            if (a > b) { size_t x = a; a = b; b = x; }
            uint64_t v = run_crc(w, lsb, T, blk, a, init);
            v = run_crc(w, lsb, T, blk + a, b - a, v);
            v = run_crc(w, lsb, T, blk + b, n - b, v);
            if (a && b > a && b < n) { cx.label(L_SPLIT3); }
            if (v != got)
            {
                free(blk);
                cx.fail("crc:chunked", "crc%d%c fed as %zu+%zu+%zu bytes = %#llx, at once %#llx", w, lsb ? 'l' : 'm', a, b - a, n - b, (unsigned long long)v, (unsigned long long)got);
            }
        }
        // the two bit orders are related by reflection of polynomial (done by *_init), data and value
        {
            Table T2;
            memset(&T2, 0xEE, sizeof(T2)); // (deterministic starting contents)
            init_table(w, !lsb, T2, poly);
            std::vector<uint8_t> rm(n);
            for (size_t i = 0; i < n; ++i) { rm[i] = uint8_t(ref_rev(msg[i], 8)); }
            uint8_t *blk2 = (uint8_t *)malloc(n ? n : 1);
            memcpy(blk2, rm.data(), n);
            uint64_t other = run_crc(w, !lsb, T2, blk2, n, ref_rev(init, w));
            free(blk2);
            if (ref_rev(other, w) != got)
            {
                free(blk);
                cx.fail("crc:reflection", "crc%d: %s-first result %#llx is not the bit reflection of the %s-first result %#llx on reflected data/value (poly %#llx)", w, lsb ? "lsb" : "msb", (unsigned long long)got, lsb ? "msb" : "lsb", (unsigned long long)other, (unsigned long long)poly);
            }
        }
        free(blk);
    }
    else
    {
        // ---- hashes ----
        bool sdbm = t.coin();
        uint32_t init = uint32_t(gen_word(t, 32));
        std::vector<uint8_t> msg = gen_msg(t, cx);
        size_t n = msg.size();
        cx.hash.add(1000 + sdbm);
        cx.hash.add(init);
        cx.hash.addb(msg.data(), n);
        cx.label(sdbm ? L_HASH_SDBM : L_HASH_BKDR);
        uint32_t mul = sdbm ? 65599u : 131u;
        cx.log("hash_%s init %#x message %zu bytes\n", sdbm ? "sdbm" : "bkdr", init, n);
        bool outside_digits = false;
        for (uint8_t c : msg) { if (c < 0x30 || c > 0x39) { outside_digits = true; } }
        if (n >= 2 && outside_digits && init) { cx.rep->nontrivial = true; }
        uint32_t want = init;
        for (size_t i = 0; i < n; ++i) { want = want * mul + msg[i]; }
        uint8_t *blk = (uint8_t *)malloc(n ? n : 1);
        memcpy(blk, msg.data(), n);
        uint32_t got = sdbm ? a_hash_sdbm_(blk, n, init) : a_hash_bkdr_(blk, n, init);
        free(blk);
        {
            RoBlock rm(msg.data(), n, 1);
            if (rm.p)
            {
                uint32_t gro = sdbm ? a_hash_sdbm_(rm.p, n, init) : a_hash_bkdr_(rm.p, n, init);
                VP_CHECK(cx, gro == got, "hash:readonly_input_differs", "length form on a read-only copy = %#x, on a writable one %#x", gro, got);
            }
        }
        VP_CHECK(cx, got == want, sdbm ? "hash:sdbm_value" : "hash:bkdr_value", "length form on %zu bytes = %#x, definition gives %#x", n, got, want);
        // composition over concatenation
        size_t a = n ? t.u16() % (n + 1) : 0;
        uint8_t *b1 = (uint8_t *)malloc(a ? a : 1), *b2 = (uint8_t *)malloc(n - a ? n - a : 1);
        memcpy(b1, msg.data(), a);
        memcpy(b2, msg.data() + a, n - a);
        uint32_t h1 = sdbm ? a_hash_sdbm_(b1, a, init) : a_hash_bkdr_(b1, a, init);
        uint32_t h2 = sdbm ? a_hash_sdbm_(b2, n - a, h1) : a_hash_bkdr_(b2, n - a, h1);
        free(b1);
        free(b2);
        VP_CHECK(cx, h2 == got, "hash:composition", "hash(b, hash(a, v)) = %#x but hash(ab, v) = %#x (split %zu/%zu)", h2, got, a, n);
        // NUL-terminated form = length form on the prefix before the first NUL
        size_t z = 0;
        while (z < n && msg[z]) { ++z; }
        if (z < n) { cx.label(L_NUL_INSIDE); }
        char *s = (char *)malloc(z + 1); // exact size: prefix + terminator
        memcpy(s, msg.data(), z);
        s[z] = 0;
        uint32_t hs = sdbm ? a_hash_sdbm(s, init) : a_hash_bkdr(s, init);
        uint32_t hp = sdbm ? a_hash_sdbm_(s, z, init) : a_hash_bkdr_(s, z, init);
        // mixed feeding: head through the length form, tail through the string form
        size_t c = z ? t.u16() % (z + 1) : 0;
        uint32_t hm = sdbm ? a_hash_sdbm(s + c, sdbm ? a_hash_sdbm_(s, c, init) : 0) : a_hash_bkdr(s + c, a_hash_bkdr_(s, c, init));
        free(s);
        VP_CHECK(cx, hs == hp, "hash:string_vs_length_form", "string form %#x, length form on the same %zu bytes %#x", hs, z, hp);
        VP_CHECK(cx, hm == hs, "hash:mixed_composition", "length form on the head then string form on the tail = %#x, string form at once %#x", hm, hs);
    }
}
VP_DEFINE_RUN(run_case)

// ---------------------------------------------------------------------------------------
// "byte strings of any length": one message longer than 2^32 bytes per routine, fed at once and in three pieces that are each
// shorter than 2^32 (for which the generated checks above establish agreement with the bit-by-bit definition). The message is a
// 2 MiB block of non-zero pseudo-random bytes mapped 2049 times back to back, so it costs 2 MiB of memory.
extern "C" int vp_enum(unsigned shard, unsigned nshards, int tier, vp_enum_stats *st)
{
    (void)tier;
    size_t const P = size_t(2) << 20, W = 2049;
    size_t const N = (size_t(1) << 32) + 5 + (size_t(shard) * 7919u + 13u) % (P - 64);
    uint8_t *base = (uint8_t *)mmap(nullptr, P * W, PROT_NONE, MAP_PRIVATE | MAP_ANONYMOUS | MAP_NORESERVE, -1, 0);
    int fd = memfd_create("vp_c17", 0);
    if (base == MAP_FAILED || fd < 0 || ftruncate(fd, off_t(P)) != 0)
    {
        st->domain("messages longer than 2^32 bytes: address space not available, skipped", 0, false);
        return 0;
    }
    {
        std::vector<uint8_t> blk(P);
        uint64_t x = 0x9E3779B97F4A7C15ull;
        for (size_t i = 0; i < P; ++i) { x = x * 6364136223846793005ull + 1442695040888963407ull; blk[i] = uint8_t(1 + (x >> 33) % 255); }
        if (write(fd, blk.data(), P) != ssize_t(P)) { st->domain("messages longer than 2^32 bytes: memfd write failed, skipped", 0, false); return 0; }
    }
    for (size_t k = 0; k < W; ++k)
    {
        bool last = k + 1 == W;
        void *m = mmap(base + k * P, P, last ? PROT_READ | PROT_WRITE : PROT_READ, (last ? MAP_PRIVATE : MAP_SHARED) | MAP_FIXED, fd, 0);
        if (m == MAP_FAILED) { st->domain("messages longer than 2^32 bytes: mapping failed, skipped", 0, false); return 0; }
    }
    base[N] = 0; // terminator for the string forms (private copy of the last window)
    size_t const c1 = (size_t(1) << 31) - 7, c2 = (size_t(1) << 32) - 3;
    static char const *const names[] = {"a_crc8", "a_crc16m", "a_crc16l", "a_crc32m", "a_crc32l", "a_crc64m", "a_crc64l", "a_hash_bkdr_", "a_hash_sdbm_", "a_hash_bkdr", "a_hash_sdbm"};
    int bad = 0;
    uint64_t cnt = 0;
    for (unsigned item = shard; item < 11; item += nshards)
    {
        uint64_t whole = 0, parts = 0;
        Table T;
        memset(&T, 0xEE, sizeof(T));
        if (item < 7)
        {
            static int const wd[] = {8, 16, 16, 32, 32, 64, 64};
            static bool const ls[] = {false, false, true, false, true, false, true};
            static uint64_t const po[] = {0x07, 0x1021, 0x8005, 0x04C11DB7, 0x1EDC6F41, 0x42F0E1EBA9EA3693ull, 0x000000000000001Bull};
            int w = wd[item];
            init_table(w, ls[item], T, po[item]);
            uint64_t v0 = 0x0123456789ABCDEFull & mask_w(w);
            whole = run_crc(w, ls[item], T, base, N, v0);
            parts = run_crc(w, ls[item], T, base, c1, v0);
            parts = run_crc(w, ls[item], T, base + c1, c2 - c1, parts);
            parts = run_crc(w, ls[item], T, base + c2, N - c2, parts);
        }
        else
        {
            bool sdbm = item == 8 || item == 10;
            a_u32 v0 = 0x2545F491u;
            if (item < 9) { whole = sdbm ? a_hash_sdbm_(base, N, v0) : a_hash_bkdr_(base, N, v0); }
            else { whole = sdbm ? a_hash_sdbm((void const *)base, v0) : a_hash_bkdr((void const *)base, v0); }
            a_u32 h = sdbm ? a_hash_sdbm_(base, c1, v0) : a_hash_bkdr_(base, c1, v0);
            h = sdbm ? a_hash_sdbm_(base + c1, c2 - c1, h) : a_hash_bkdr_(base + c1, c2 - c1, h);
            h = sdbm ? a_hash_sdbm_(base + c2, N - c2, h) : a_hash_bkdr_(base + c2, N - c2, h);
            parts = h;
        }
        ++cnt;
        if (whole != parts)
        {
            char msg[256];
            snprintf(msg, sizeof(msg), "huge:at_once_vs_pieces: %s over %zu bytes at once = %#llx, fed as %zu + %zu + %zu bytes = %#llx", names[item], N, (unsigned long long)whole, c1, c2 - c1, N - c2, (unsigned long long)parts);
            st->violation(msg);
            ++bad;
        }
    }
    st->domain("one message of 2^32 + d bytes per routine (7 CRC updates, 4 hash forms), at once vs three pieces < 2^32 (this shard)", cnt, false);
    st->s.evaluations = cnt;
    st->s.nontrivial = cnt;
    munmap(base, P * W);
    close(fd);
    return bad;
}
