#define VP_AMBIENT_ROUNDING 1 // results of this executor may not depend on the dynamic floating-point rounding mode (drv/vp.h)
// C18 — UTF-8 codec: reference encoder written from the bit layout, round trip, prefix
// rejection, validity predicate on arbitrary bytes in exact-size blocks, length counters.
#include "../drv/enum.h"
#include "../drv/vp.h"
#include <sys/mman.h>
#include <vector>
extern "C" {
#include "a/utf.h"
#include "a/str.h"
}

enum { L_CP, L_LEN2, L_LEN3, L_LEN4, L_LEN5, L_LEN6, L_BOUNDARY, L_BYTES, L_MALFORMED_REJECTED, L_MULTI_ACCEPTED, L_STRAY_CONT, L_FE_FF, L_TRUNCATED, L_LENGTH, L_LENGTH_STOPS_EARLY, L_WELLFORMED, L_TEXT, L_TEXT_NUL, L_STR_OBJECT, L_RELATED_CP, L_APPENDED_AFTER_CUT };
static char const *const labels[] = {"code_point_round_trip", "len2", "len3", "len4", "len5", "len6", "length_boundary_code_point", "arbitrary_bytes", "malformed_rejected",
                                     "multibyte_accepted", "stray_continuation_lead", "lead_FE_or_FF", "truncated_sequence", "length_counter", "length_counter_stops_before_end", "wellformed_string", "mostly_ascii_text_up_to_256_code_points", "text_with_embedded_nul", "string_object_cut_inside_a_character", "appended_code_point_related_to_the_previous_one_surrogate_halves", "string_object_appended_to_after_a_cut_inside_a_character", nullptr};
static char const *const metrics[] = {nullptr};
static uint8_t const dict[] = {0xC0, 0xC2, 0xDF, 0xE0, 0xEF, 0xF0, 0xF7, 0xF8, 0xFB, 0xFC, 0xFD, 0xFE, 0xFF, 0x80, 0xBF, 0x00};
static vp_info const info = {"C18", "utf8", "", labels, metrics, 64, dict, sizeof(dict)};
extern "C" vp_info const *vp_get_info(void) { return &info; }

static unsigned ref_len(uint32_t c) { return c < 0x80 ? 1 : c < 0x800 ? 2 : c < 0x10000 ? 3 : c < 0x200000 ? 4 : c < 0x4000000 ? 5 : 6; }
static unsigned ref_encode(uint32_t c, uint8_t *out)
{
    unsigned n = ref_len(c);
    if (n == 1) { out[0] = uint8_t(c); return 1; }
    static uint8_t const lead[] = {0, 0, 0xC0, 0xE0, 0xF0, 0xF8, 0xFC};
    for (unsigned i = n - 1; i > 0; --i)
    {
        out[i] = uint8_t(0x80 | (c & 0x3F));
        c >>= 6;
    }
    out[0] = uint8_t(lead[n] | c);
    return n;
}
static unsigned leading_ones(uint8_t b)
{
    unsigned n = 0;
    while (n < 8 && (b & (0x80 >> n))) { ++n; }
    return n;
}

// one code point: table length, bytes, round trip (with and without val), every proper prefix fails.
// `place(len)` returns a buffer of exactly len accessible bytes.
template <class Place>
static char const *check_cp(uint32_t cp, Place place, char *msg, size_t msgn)
{
    uint8_t want[8];
    unsigned wn = ref_encode(cp, want);
    unsigned n0 = a_utf_encode(cp, nullptr);
    if (n0 != wn) { snprintf(msg, msgn, "a_utf_encode(U+%X, NULL) reports %u bytes, the UTF-8 table prescribes %u", cp, n0, wn); return "encode:length"; }
    uint8_t *buf = place(wn);
    unsigned n1 = a_utf_encode(cp, buf);
    if (n1 != wn) { snprintf(msg, msgn, "a_utf_encode(U+%X) wrote %u bytes, the UTF-8 table prescribes %u", cp, n1, wn); return "encode:length"; }
    if (memcmp(buf, want, wn) != 0) { snprintf(msg, msgn, "a_utf_encode(U+%X) bytes differ from the UTF-8 bit layout (first byte %02x, expected %02x)", cp, buf[0], want[0]); return "encode:bytes"; }
    a_u32 val = 0xFFFFFFFFu;
    unsigned d1 = a_utf_decode(buf, wn, &val);
    if (d1 != wn || val != cp) { snprintf(msg, msgn, "decode(encode(U+%X)) = (%u bytes, U+%X), expected (%u, U+%X)", cp, d1, val, wn, cp); return "decode:round_trip"; }
    unsigned d2 = a_utf_decode(buf, wn, nullptr);
    if (d2 != wn) { snprintf(msg, msgn, "decode without value output of encode(U+%X) reports %u bytes, expected %u", cp, d2, wn); return "decode:round_trip_noval"; }
    for (unsigned k = 0; k < wn; ++k)
    {
        uint8_t *pb = place(k);
        memcpy(pb, want, k);
        a_u32 v2 = 0;
        unsigned r1 = a_utf_decode(pb, k, &v2), r2 = a_utf_decode(pb, k, nullptr);
        if (r1 != 0 || r2 != 0) { snprintf(msg, msgn, "proper prefix (%u of %u bytes) of U+%X decodes with length %u/%u instead of failing", k, wn, cp, r1, r2); return "decode:prefix_accepted"; }
    }
    return nullptr;
}

static uint32_t gen_cp(Tape &t, Ctx &cx)
{
    static uint32_t const b[] = {0x80, 0x800, 0x10000, 0x200000, 0x4000000, 0x7FFFFFFF, 1, 0x7F, 0xFFFF, 0xD800, 0x10FFFF, 0x110000};
    switch (t.u8() % 4)
    {
    case 0: {
        uint32_t base = b[t.u8() % 12];
        int d = int(t.u8() % 129) - 64;
        int64_t v = int64_t(base) + d;
        if (v < 1) { v = 1; }
        if (v > 0x7FFFFFFF) { v = 0x7FFFFFFF; }
        cx.label(L_BOUNDARY);
        return uint32_t(v); }
    case 1: return 1 + t.u32() % 0x7FFFFFFFu;
    case 2: return 1 + (t.u32() >> (t.u8() % 31)) % 0x7FFFFFFFu;
    default: return 1 + t.u16();
    }
}

static void run_case(Tape &t, Ctx &cx)
{
    ++cx.rep->subcases;
    uint8_t mode = t.u8() % 6;
    std::vector<uint8_t *> blocks;
    struct Free { std::vector<uint8_t *> &b; ~Free() { for (auto p : b) { free(p); } } } fr{blocks};
    auto place = [&](unsigned n) {
        uint8_t *p = (uint8_t *)malloc(n ? n : 1); // exact size: ASan red zone right behind it
        blocks.push_back(p);
        return p;
    };
    // length counter oracle: advances by exactly the lengths the decoder reports, stops at the first NUL / undecodable byte
    auto check_length = [&](uint8_t const *p, size_t num) {
        size_t pos = 0, cnt = 0;
        for (;;)
        {
            uint8_t *q = place(unsigned(num - pos));
            memcpy(q, p + pos, num - pos);
            unsigned r = a_utf_decode(q, num - pos, nullptr);
            free(blocks.back());
            blocks.pop_back();
            if (!r) { break; }
            pos += r;
            ++cnt;
            VP_CHECK(cx, pos <= num, "decode:more_than_available", "successive decodes ran past the stated length");
        }
        a_size stop = 12345;
        a_size got = a_utf_length(p, num, &stop);
        a_size got2 = a_utf_length(p, num, nullptr);
        cx.label(L_LENGTH);
        if (pos < num) { cx.label(L_LENGTH_STOPS_EARLY); }
        VP_CHECK(cx, got == cnt && got2 == cnt, "length:count", "a_utf_length counts %zu/%zu characters, successive decodes give %zu", (size_t)got, (size_t)got2, cnt);
        VP_CHECK(cx, stop == pos, "length:stop", "a_utf_length stops after %zu bytes, successive decodes consume %zu", (size_t)stop, pos);
        return pos;
    };
    if (mode == 5)
    {
        // the counter of the string object (a_utf_len): code points appended with a_utf_catc, then the string is cut back by a few
        // bytes with the non-terminating interface, so that it may end inside a character while the rest of that character
        // is still in the block behind the length; the count has to be that of the first a_str_len bytes
        a_str st;
        a_str_ctor(&st);
        struct D { a_str *s; ~D() { a_str_dtor(s); } } dd{&st};
        {
            // an empty string object that owns no block yet: no code points, no bytes consumed - both through the return value and
            // through the out-parameter (pre-set to a value that is not the answer)
            a_size s0 = 77;
            a_size c0 = a_utf_len(&st, &s0);
            VP_CHECK(cx, c0 == 0 && s0 == 0, "length:empty_string_object", "a_utf_len on a freshly constructed string returns %zu and reports %zu bytes consumed (the out-parameter was pre-set to 77)", (size_t)c0, (size_t)s0);
        }
        unsigned k = 1 + t.u8() % 6;
        std::string expect_bytes;
        uint32_t prev = 0;
        for (unsigned i = 0; i < k; ++i)
        {
            // each appended code point is encoded on its own, whatever the string already ends with: besides independent draws,
            // code points related to the one appended just before (the other half of a UTF-16 surrogate pair, the same again,
            // one bit flipped) - an encoder has no business looking back, and this is where one that does shows
            uint8_t selb = t.u8();
            uint32_t cp;
            if (selb >= 200)
            {
                uint16_t w = t.u16();
                if (i == 0 || (selb & 1)) { cp = 0xD800u + w % 0x400u; } // a lead surrogate value
                else
                {
                    switch ((selb >> 1) % 4)
                    {
                    case 0: cp = (prev >= 0xD800u && prev < 0xDC00u) ? 0xDC00u + w % 0x400u : prev + 0x400u; break;
                    case 1: cp = prev ^ 0x400u; break;
                    case 2: cp = prev; break;
                    default: cp = 0xDC00u + w % 0x400u; break;
                    }
                    if (cp < 1 || cp > 0x7FFFFFFFu) { cp = 0xDC00u; }
                }
                cx.label(L_RELATED_CP);
            }
            else { cp = selb % 3 ? gen_cp(t, cx) : 0x20u + t.u8() % 95u; }
            cx.hash.add(cp);
            if (a_utf_catc(&st, cp) != A_SUCCESS) { return; }
            uint8_t e[8];
            unsigned ne = ref_encode(cp, e);
            expect_bytes.append((char const *)e, ne);
            VP_CHECK(cx, a_str_len(&st) == expect_bytes.size() && memcmp(a_str_ptr(&st), expect_bytes.data(), expect_bytes.size()) == 0, "catc:bytes",
                     "after appending U+%X (%u-th code point, previous U+%X) the string holds %zu bytes, the encodings of the appended code points make %zu (or the bytes differ)", cp, i + 1, prev, (size_t)a_str_len(&st), expect_bytes.size());
            VP_CHECK(cx, a_utf_len(&st, nullptr) == i + 1, "catc:count", "after appending %u code points a_utf_len counts %zu", i + 1, (size_t)a_utf_len(&st, nullptr));
            prev = cp;
        }
        unsigned cutn = t.u8() % 7;
        for (unsigned i = 0; i < cutn && a_str_len(&st); ++i)
        {
            if (t.coin()) { (void)a_str_getc_(&st); }
            else { a_str_setn_(&st, a_str_len(&st) - 1); }
        }
        // ... and appended to again (code points and raw bytes): an interrupted character is now in the interior of the string
        {
            unsigned more = t.u8() % 4;
            for (unsigned i = 0; i < more; ++i)
            {
                uint8_t mb = t.u8();
                if (mb & 1) { if (a_utf_catc(&st, (mb & 2) ? gen_cp(t, cx) : uint32_t('a' + mb % 26)) != A_SUCCESS) { return; } }
                else { if (a_str_catc_(&st, (mb & 2) ? int(0xC0 | (mb >> 3)) : int('0' + mb % 10)) == ~0) { return; } }
            }
            if (more) { cx.label(L_APPENDED_AFTER_CUT); }
        }
        size_t len = a_str_len(&st);
        cx.hash.add(cutn | (len << 8));
        cx.label(L_STR_OBJECT);
        cx.rep->nontrivial = true;
        cx.log("string object: %u code points, cut back by %u bytes to %zu\n", k, cutn, len);
        uint8_t *p = place(unsigned(len));
        memcpy(p, a_str_ptr(&st), len);
        size_t pos = check_length(p, len);
        a_size s1 = 99, c1 = a_utf_len(&st, &s1), c2 = a_utf_length(p, len, nullptr);
        VP_CHECK(cx, c1 == c2 && s1 == pos && a_utf_len(&st, nullptr) == c1, "length:string_object", "a_utf_len on a string of %zu bytes counts %zu code points / %zu bytes, a_utf_length on a copy of exactly those bytes %zu / %zu", len, (size_t)c1, (size_t)s1, (size_t)c2, pos);
        return;
    }
    if (mode == 4)
    {
        // text: up to 256 code points, mostly ASCII, some multi-byte, embedded NULs before the stated end (an exhausted
        // tape continues with spaces, so short tapes still give long runs)
        unsigned k = 1 + t.u8();
        std::vector<uint8_t> s;
        unsigned nuls = 0;
        for (unsigned i = 0; i < k; ++i)
        {
            uint8_t b = t.u8();
            if (b < 224) { s.push_back(uint8_t(0x20 + b % 95)); }
            else if (b < 236) { s.push_back(0); ++nuls; }
            else
            {
                uint8_t e[8];
                unsigned n = ref_encode(gen_cp(t, cx), e);
                s.insert(s.end(), e, e + n);
            }
        }
        if (t.coin()) { s[t.u16() % s.size()] = 0; ++nuls; }
        unsigned cut = t.u8() % 4 == 0 ? t.u16() % (unsigned(s.size()) + 1) : unsigned(s.size());
        uint8_t *p = place(cut);
        memcpy(p, s.data(), cut);
        cx.hash.addb(p, cut);
        cx.label(L_TEXT);
        if (nuls) { cx.label(L_TEXT_NUL); }
        if (cut >= 32) { cx.rep->nontrivial = true; }
        if (cx.rep->want_render)
        {
            cx.log("text[%u]:", cut);
            for (unsigned i = 0; i < cut; ++i) { cx.log(" %02x", p[i]); }
            cx.log("\n");
        }
        check_length(p, cut);
        (void)a_utf_length_(p, cut);
        return;
    }
    if (mode == 0)
    {
        uint32_t cp = gen_cp(t, cx);
        cx.hash.add(cp);
        cx.label(L_CP);
        unsigned n = ref_len(cp);
        if (n >= 2) { cx.label(L_LEN2 + n - 2); cx.rep->nontrivial = true; }
        cx.log("code point U+%X (%u bytes)\n", cp, n);
        char msg[256];
        char const *sig = check_cp(cp, place, msg, sizeof(msg));
        if (sig) { cx.fail(sig, "%s", msg); }
        return;
    }
    if (mode == 1 || mode == 2)
    {
        // arbitrary bytes, stated length chosen independently (<= available)
        unsigned len = t.u8() % 17;
        std::vector<uint8_t> raw(len);
        uint8_t style = t.u8() % 4;
        for (unsigned i = 0; i < len; ++i)
        {
            uint8_t c = t.u8();
            if (style == 1 && i) { c = uint8_t(0x80 | (c & 0x3F)); }          // lead + continuation bytes
            if (style == 2 && i == 0) { c = uint8_t(0xC0 | (c & 0x3F)); }       // some lead byte first
            if (style == 3) { c = dict[c % sizeof(dict)]; }
            raw[i] = c;
        }
        unsigned num = len ? t.u8() % (len + 1) : 0;
        uint8_t *p = place(num);
        memcpy(p, raw.data(), num);
        cx.hash.add(num);
        cx.hash.addb(p, num);
        cx.label(L_BYTES);
        if (cx.rep->want_render)
        {
            cx.log("bytes[%u]:", num);
            for (unsigned i = 0; i < num; ++i) { cx.log(" %02x", p[i]); }
            cx.log("\n");
        }
        a_u32 val = 0;
        unsigned r1 = a_utf_decode(p, num, &val);
        unsigned r2 = a_utf_decode(p, num, nullptr);
        VP_CHECK(cx, r1 == r2, "decode:val_vs_noval", "decode reports %u bytes with value output and %u without", r1, r2);
        VP_CHECK(cx, r1 <= num, "decode:more_than_available", "decode of %u available bytes reports %u", num, r1);
        VP_CHECK(cx, r1 <= 6, "decode:longer_than_6", "decode reports %u bytes", r1);
        if (num && p[0] >= 0x80) { cx.rep->nontrivial = true; }
        if (num && p[0] >= 0xFE) { cx.label(L_FE_FF); }
        if (r1 >= 2)
        {
            cx.label(L_MULTI_ACCEPTED);
            VP_CHECK(cx, leading_ones(p[0]) == r1, "decode:lead_mismatch", "accepted %u bytes but the lead byte %02x announces %u", r1, p[0], leading_ones(p[0]));
            for (unsigned i = 1; i < r1; ++i) { VP_CHECK(cx, (p[i] & 0xC0) == 0x80, "decode:non_continuation_accepted", "accepted a %u-byte sequence whose byte %u (%02x) is not a continuation byte", r1, i, p[i]); }
            // and the value is what the bit layout says
            uint32_t code = p[0] & (0xFFu >> (r1 + 1));
            for (unsigned i = 1; i < r1; ++i) { code = (code << 6) | (p[i] & 0x3F); }
            VP_CHECK(cx, val == code, "decode:value", "decoded U+%X from a %u-byte sequence, the bit layout gives U+%X", val, r1, code);
        }
        else if (r1 == 1)
        {
            VP_CHECK(cx, p[0] != 0 && p[0] < 0xC0, "decode:lead_accepted_alone", "a lone byte %02x was accepted as a complete character", p[0]);
            if (p[0] >= 0x80) { cx.label(L_STRAY_CONT); }
        }
        else if (num && p[0])
        {
            cx.label(L_MALFORMED_REJECTED);
            unsigned need = leading_ones(p[0]);
            if (need >= 2 && need <= 6 && num < need) { cx.label(L_TRUNCATED); }
            // a well-formed complete sequence must not be rejected
            if (need >= 2 && need <= 6 && num >= need)
            {
                bool ok = true;
                for (unsigned i = 1; i < need; ++i) { if ((p[i] & 0xC0) != 0x80) { ok = false; } }
                VP_CHECK(cx, !ok, "decode:wellformed_rejected", "a complete %u-byte sequence with proper continuation bytes was rejected", need);
            }
        }
        {
            check_length(p, num);
            // unchecked counter: memory safety only on arbitrary input
            (void)a_utf_length_(p, num);
        }
        return;
    }
    // well-formed string of several code points: both counters agree with the number of code points
    {
        unsigned k = 1 + t.u8() % 6;
        std::vector<uint8_t> s;
        for (unsigned i = 0; i < k; ++i)
        {
            uint32_t cp = gen_cp(t, cx);
            uint8_t e[8];
            unsigned n = ref_encode(cp, e);
            s.insert(s.end(), e, e + n);
            cx.hash.add(cp);
        }
        uint8_t *p = place(unsigned(s.size()));
        memcpy(p, s.data(), s.size());
        a_size stop = 0;
        a_size c1 = a_utf_length(p, s.size(), &stop);
        a_size c2 = a_utf_length_(p, s.size());
        cx.label(L_WELLFORMED);
        cx.rep->nontrivial = true;
        cx.log("well-formed string of %u code points (%zu bytes)\n", k, s.size());
        VP_CHECK(cx, c1 == k && stop == s.size(), "length:wellformed", "a_utf_length counts %zu characters / %zu bytes on a well-formed string of %u characters / %zu bytes", (size_t)c1, (size_t)stop, k, s.size());
        VP_CHECK(cx, c2 == k, "length_:wellformed", "a_utf_length_ counts %zu characters on a well-formed string of %u", (size_t)c2, k);
        // truncated by one byte: the checked counter stops before the cut character and never reads past the block
        if (s.size() >= 2)
        {
            uint8_t *q = place(unsigned(s.size() - 1));
            memcpy(q, s.data(), s.size() - 1);
            a_size st2 = 0;
            a_size c3 = a_utf_length(q, s.size() - 1, &st2);
            VP_CHECK(cx, st2 <= s.size() - 1 && c3 <= k, "length:truncated", "a_utf_length on a string cut by one byte reports %zu characters / %zu bytes", (size_t)c3, (size_t)st2);
            (void)a_utf_length_(q, s.size() - 1);
        }
    }
}
VP_DEFINE_RUN(run_case)

// ---------------------------------------------------------------------------------------
// enumeration of code points; buffers end flush against an inaccessible page
extern "C" int vp_enum(unsigned shard, unsigned nshards, int tier, vp_enum_stats *st)
{
    long pg = 4096;
    uint8_t *map = (uint8_t *)mmap(nullptr, size_t(2 * pg), PROT_READ | PROT_WRITE, MAP_PRIVATE | MAP_ANONYMOUS, -1, 0);
    if (map == MAP_FAILED) { return 0; }
    mprotect(map + pg, size_t(pg), PROT_NONE);
    uint8_t *end = map + pg;
    unsigned slot = 0;
    auto place = [&](unsigned n) {
        // rotate through a few positions so that successive buffers do not alias
        slot = (slot + 1) % 4;
        (void)slot;
        return end - n;
    };
    int bad = 0;
    char msg[256];
    uint64_t cnt = 0, nt = 0;
    uint64_t lim = uint64_t(1) << 31;
    auto one = [&](uint32_t cp) {
        ++cnt;
        nt += cp >= 0x80;
        // check_cp copies the prefix into place(k) itself; encode output also goes against the guard page
        char const *sig = check_cp(cp, place, msg, sizeof(msg));
        if (sig)
        {
            if (!bad) { st->violation(std::string(sig) + ": " + msg); }
            ++bad;
        }
    };
    if (tier)
    {
        uint64_t lo = lim / nshards * shard, hi = shard + 1 == nshards ? lim : lim / nshards * (shard + 1);
        for (uint64_t cp = lo ? lo : 1; cp < hi && bad < 10; ++cp) { one(uint32_t(cp)); }
        st->domain("code points: every value in this shard of [1, 2^31)", cnt, true);
    }
    else
    {
        // all code points below 2^21 + every boundary +-4096 + a stride over the rest
        uint64_t c0 = cnt;
        for (uint64_t cp = 1 + shard; cp < (1u << 21) && bad < 10; cp += nshards) { one(uint32_t(cp)); }
        st->domain("code points: every value in [1, 2^21) (this shard)", cnt - c0, true);
        c0 = cnt;
        static uint32_t const b[] = {0x200000, 0x4000000, 0x7FFFFFFF, 0x1000000, 0x40000000};
        for (unsigned i = 0; i < 5; ++i)
        {
            for (int64_t d = -4096 + int64_t(shard); d <= 4096; d += nshards)
            {
                int64_t v = int64_t(b[i]) + d;
                if (v >= 1 && v < int64_t(lim)) { one(uint32_t(v)); }
            }
        }
        for (uint64_t cp = (1u << 21) + 7919 * shard; cp < lim && bad < 10; cp += 7919ull * nshards) { one(uint32_t(cp)); }
        st->domain("code points: length boundaries +-4096 and stride 7919 over [2^21, 2^31) (this shard)", cnt - c0, false);
    }
    st->s.evaluations = cnt;
    st->s.nontrivial = nt;
    munmap(map, size_t(2 * pg));
    return bad;
}
