#define VP_AMBIENT_ROUNDING 1 // results of this executor may not depend on the dynamic floating-point rounding mode (drv/vp.h)
// C19 — integer square root, gcd/lcm, bit reversal, byte-order accessors.
// Oracles: 128-bit arithmetic, binary gcd, bit loop, explicit byte layout.
#include "../drv/enum.h"
#include "../drv/vp.h"
#include "vp_literals.h" // generated per unit: integer literals of the library sources
extern "C" {
#include "a/a.h"
#include "a/math.h"
}

typedef unsigned __int128 u128;

enum { L_SQRT32, L_SQRT64, L_GCD32, L_GCD64, L_REV, L_GETSET, L_SQ_NEAR, L_SQ_ODDLEN, L_LCM_FITS, L_GCD_GT1 };
static char const *const labels[] = {"sqrt32", "sqrt64", "gcd_lcm32", "gcd_lcm64", "rev", "getset",
                                     "sqrt_near_perfect_square", "sqrt_odd_bit_length", "lcm_representable", "gcd_gt_1", nullptr};
static char const *const metrics[] = {nullptr};
static uint8_t const dict[] = {0x10, 0x20, 0x3F, 0x40, 0x1F};
static vp_info const info = {
    "C19", "intmath",
    "tape -> up to 24 sub-cases (sqrt32/sqrt64 on random, k^2-1,k^2,k^2+1, 2^j+-1 arguments; gcd/lcm on random, "
    "multiples, coprime, Fibonacci, power-of-two, zero and extreme pairs; rev on all widths; get/set at random offsets in a "
    "guarded buffer); non-trivial = sqrt argument >= 4, or gcd pair both non-zero and different, or rev/getset word not 0/~0; "
    "distinct = hash of decoded arguments",
    labels, metrics, 96, dict, sizeof(dict)};
extern "C" vp_info const *vp_get_info(void) { return &info; }

static inline bool sqrt32_ok(uint32_t x, uint32_t r) { return uint64_t(r) * r <= x && uint64_t(r + 1) * (r + 1) > x; }
static inline bool sqrt64_ok(uint64_t x, uint64_t r) { return u128(r) * r <= x && u128(r + 1) * (r + 1) > x; }

static uint64_t ref_gcd(uint64_t a, uint64_t b)
{
    if (!a) { return b; }
    if (!b) { return a; }
    int s = __builtin_ctzll(a | b);
    a >>= __builtin_ctzll(a);
    while (b)
    {
        b >>= __builtin_ctzll(b);
        if (a > b) { uint64_t t = a; a = b; b = t; }
        b -= a;
    }
    return a << s;
}
static uint64_t ref_rev(uint64_t x, int w)
{
    uint64_t r = 0;
    for (int i = 0; i < w; ++i) { if ((x >> i) & 1) { r |= uint64_t(1) << (w - 1 - i); } }
    return r;
}

static uint64_t gen_word(Tape &t, int w)
{
    uint64_t mask = w == 64 ? ~uint64_t(0) : ((uint64_t(1) << w) - 1);
    uint8_t cb = t.u8();
    if (cb >= 248 && vp_nliterals)
    {
        // an integer literal of the library's own source (constants it compares against), +- a little
        return (vp_literals[t.u16() % vp_nliterals] + uint64_t(cb - 251)) & mask;
    }
    switch (cb % 8)
    {
    case 0: return t.u8() & mask;
    case 1: return t.u64() & mask;
    case 2: { unsigned j = t.u8() % w; return ((uint64_t(1) << j) + (t.u8() % 3) - 1) & mask; }
    case 3: return mask - (t.u8() % 4);
    case 4: return t.u32() & mask;
    case 5: return (t.u64() >> (t.u8() % 64)) & mask;
    case 6: return t.u16() & mask;
    default: return (~t.u64()) & mask;
    }
}

static uint64_t gen_sqrt_arg(Tape &t, int w, Ctx &cx)
{
    uint64_t mask = w == 64 ? ~uint64_t(0) : 0xFFFFFFFFull;
    uint8_t c = t.u8() % 6;
    if (c <= 1)
    {
        uint64_t k = gen_word(t, w / 2);
        u128 sq = u128(k) * k + (t.u8() % 3);
        if (sq == 0) { return 0; }
        sq -= 1;
        cx.label(L_SQ_NEAR);
        return uint64_t(sq) & mask;
    }
    return gen_word(t, w);
}

static void gcd_pair(Tape &t, int w, uint64_t &a, uint64_t &b)
{
    uint64_t mask = w == 64 ? ~uint64_t(0) : 0xFFFFFFFFull;
    switch (t.u8() % 7)
    {
    case 0: a = gen_word(t, w); b = gen_word(t, w); break;
    case 1: { uint64_t g = gen_word(t, w / 2), m = gen_word(t, w / 4), n = gen_word(t, w / 4); a = (g * m) & mask; b = (g * n) & mask; break; }
    case 2: { // Fibonacci neighbours (coprime, longest Euclid)
        uint64_t f0 = 1, f1 = 1; unsigned k = t.u8() % (w == 64 ? 90 : 45);
        for (unsigned i = 0; i < k; ++i) { uint64_t f2 = f0 + f1; f0 = f1; f1 = f2; }
        a = f1; b = f0; break; }
    case 3: a = uint64_t(1) << (t.u8() % w); b = uint64_t(1) << (t.u8() % w); break;
    case 4: a = 0; b = gen_word(t, w); if (t.coin()) { uint64_t x = a; a = b; b = x; } break;
    case 5: a = mask - t.u8() % 3; b = mask - t.u8() % 3; break;
    default: a = gen_word(t, w); b = a * (t.u8() % 5) & mask; break;
    }
}

static void run_case(Tape &t, Ctx &cx)
{
    unsigned n = 0;
    do {
        ++n;
        ++cx.rep->subcases;
        uint8_t op = t.u8() % 8;
        switch (op)
        {
        case 0: case 6: {
            uint32_t x = uint32_t(gen_sqrt_arg(t, 32, cx));
            uint32_t r = a_u32_sqrt(x);
            cx.label(L_SQRT32);
            cx.hash.add(1); cx.hash.add(x);
            cx.log("a_u32_sqrt(%u) = %u\n", x, r);
            if (x >= 4) { cx.rep->nontrivial = true; }
            if (x && !((31 - __builtin_clz(x)) & 1)) { cx.label(L_SQ_ODDLEN); }
            VP_CHECK(cx, sqrt32_ok(x, r), "a_u32_sqrt:not_floor_sqrt", "a_u32_sqrt(%u) returned %u, r^2 <= x < (r+1)^2 fails", x, r);
            break; }
        case 1: case 7: {
            uint64_t x = gen_sqrt_arg(t, 64, cx);
            uint64_t r = a_u64_sqrt(x);
            cx.label(L_SQRT64);
            cx.hash.add(2); cx.hash.add(x);
            cx.log("a_u64_sqrt(%llu) = %llu\n", (unsigned long long)x, (unsigned long long)r);
            if (x >= 4) { cx.rep->nontrivial = true; }
            if (x && !((63 - __builtin_clzll(x)) & 1)) { cx.label(L_SQ_ODDLEN); }
            VP_CHECK(cx, sqrt64_ok(x, r), "a_u64_sqrt:not_floor_sqrt", "a_u64_sqrt(%llu) returned %llu, r^2 <= x < (r+1)^2 fails", (unsigned long long)x, (unsigned long long)r);
            break; }
        case 2: case 3: {
            int w = op == 2 ? 32 : 64;
            uint64_t a, b;
            gcd_pair(t, w, a, b);
            uint64_t g = w == 32 ? a_u32_gcd(uint32_t(a), uint32_t(b)) : a_u64_gcd(a, b);
            uint64_t l = w == 32 ? a_u32_lcm(uint32_t(a), uint32_t(b)) : a_u64_lcm(a, b);
            cx.label(op == 2 ? L_GCD32 : L_GCD64);
            cx.hash.add(3 + unsigned(w)); cx.hash.add(a); cx.hash.add(b);
            cx.log("gcd%d(%llu,%llu) = %llu lcm = %llu\n", w, (unsigned long long)a, (unsigned long long)b, (unsigned long long)g, (unsigned long long)l);
            if (a && b && a != b) { cx.rep->nontrivial = true; }
            uint64_t rg = ref_gcd(a, b);
            if (rg > 1) { cx.label(L_GCD_GT1); }
            VP_CHECK(cx, g == rg, "gcd:wrong", "gcd%d(%llu,%llu) = %llu, reference %llu", w, (unsigned long long)a, (unsigned long long)b, (unsigned long long)g, (unsigned long long)rg);
            VP_CHECK(cx, (g == 0) == (a == 0 && b == 0), "gcd:zero_iff_both_zero", "gcd%d(%llu,%llu) = %llu", w, (unsigned long long)a, (unsigned long long)b, (unsigned long long)g);
            if (g) { VP_CHECK(cx, a % g == 0 && b % g == 0, "gcd:not_divisor", "gcd%d(%llu,%llu) = %llu does not divide", w, (unsigned long long)a, (unsigned long long)b, (unsigned long long)g); }
            if (rg)
            {
                u128 true_lcm = u128(a) / rg * b;
                u128 lim = w == 32 ? u128(0xFFFFFFFFull) : u128(~uint64_t(0));
                if (true_lcm <= lim)
                {
                    cx.label(L_LCM_FITS);
                    VP_CHECK(cx, u128(l) * g == u128(a) * b, "lcm:times_gcd_ne_product", "lcm%d(%llu,%llu) = %llu, gcd %llu: lcm*gcd != a*b", w, (unsigned long long)a, (unsigned long long)b, (unsigned long long)l, (unsigned long long)g);
                }
            }
            else { VP_CHECK(cx, l == 0, "lcm:zero_zero", "lcm(0,0) = %llu", (unsigned long long)l); }
            break; }
        case 4: {
            int w = 8 << (t.u8() % 4);
            uint64_t x = gen_word(t, w), r;
            switch (w)
            {
            case 8: r = a_u8_rev(uint8_t(x)); break;
            case 16: r = a_u16_rev(uint16_t(x)); break;
            case 32: r = a_u32_rev(uint32_t(x)); break;
            default: r = a_u64_rev(x); break;
            }
            cx.label(L_REV);
            cx.hash.add(100 + unsigned(w)); cx.hash.add(x);
            cx.log("rev%d(%#llx) = %#llx\n", w, (unsigned long long)x, (unsigned long long)r);
            if (x && ~(x | (w == 64 ? 0 : ~uint64_t(0) << w))) { cx.rep->nontrivial = true; }
            VP_CHECK(cx, r == ref_rev(x, w), "rev:wrong", "a_u%d_rev(%#llx) = %#llx, reference %#llx", w, (unsigned long long)x, (unsigned long long)r, (unsigned long long)ref_rev(x, w));
            uint64_t rr;
            switch (w)
            {
            case 8: rr = a_u8_rev(uint8_t(r)); break;
            case 16: rr = a_u16_rev(uint16_t(r)); break;
            case 32: rr = a_u32_rev(uint32_t(r)); break;
            default: rr = a_u64_rev(r); break;
            }
            VP_CHECK(cx, rr == x, "rev:not_involution", "a_u%d_rev twice of %#llx = %#llx", w, (unsigned long long)x, (unsigned long long)rr);
            break; }
        default: {
            int w = 16 << (t.u8() % 3);
            bool big = t.coin();
            unsigned off = t.u8() % 9;
            uint64_t x = gen_word(t, w);
            unsigned nb = unsigned(w) / 8;
            // exact-size heap block: ASan red zones on both sides
            uint8_t *blk = (uint8_t *)malloc(off + nb);
            memset(blk, 0xA5, off + nb);
            uint8_t *p = blk + off;
            switch (w)
            {
            case 16: big ? a_u16_setb(p, uint16_t(x)) : a_u16_setl(p, uint16_t(x)); break;
            case 32: big ? a_u32_setb(p, uint32_t(x)) : a_u32_setl(p, uint32_t(x)); break;
            default: big ? a_u64_setb(p, x) : a_u64_setl(p, x); break;
            }
            cx.label(L_GETSET);
            cx.hash.add(200 + unsigned(w) + big); cx.hash.add(x); cx.hash.add(off);
            cx.log("set%c%d(off %u, %#llx)\n", big ? 'b' : 'l', w, off, (unsigned long long)x);
            if (x && ~(x | (w == 64 ? 0 : ~uint64_t(0) << w))) { cx.rep->nontrivial = true; }
            bool lay = true, pre = true;
            for (unsigned i = 0; i < nb; ++i)
            {
                uint8_t want = uint8_t(x >> (8 * (big ? nb - 1 - i : i)));
                if (p[i] != want) { lay = false; }
            }
            for (unsigned i = 0; i < off; ++i) { if (blk[i] != 0xA5) { pre = false; } }
            uint64_t g1, g2;
            switch (w)
            {
            case 16: g1 = big ? a_u16_getb(p) : a_u16_getl(p); g2 = big ? a_u16_getl(p) : a_u16_getb(p); break;
            case 32: g1 = big ? a_u32_getb(p) : a_u32_getl(p); g2 = big ? a_u32_getl(p) : a_u32_getb(p); break;
            default: g1 = big ? a_u64_getb(p) : a_u64_getl(p); g2 = big ? a_u64_getl(p) : a_u64_getb(p); break;
            }
            uint64_t bswap = 0;
            for (unsigned i = 0; i < nb; ++i) { bswap |= ((x >> (8 * i)) & 0xFF) << (8 * (nb - 1 - i)); }
            free(blk);
            VP_CHECK(cx, lay, "getset:byte_layout", "set%c%d(%#llx) wrote wrong byte layout", big ? 'b' : 'l', w, (unsigned long long)x);
            VP_CHECK(cx, pre, "getset:wrote_outside", "set%c%d wrote before its bytes", big ? 'b' : 'l', w);
            VP_CHECK(cx, g1 == x, "getset:roundtrip", "get(set(%#llx)) = %#llx (%c%d)", (unsigned long long)x, (unsigned long long)g1, big ? 'b' : 'l', w);
            VP_CHECK(cx, g2 == bswap, "getset:cross_order", "opposite-order get of %#llx = %#llx, expected byte swap %#llx", (unsigned long long)x, (unsigned long long)g2, (unsigned long long)bswap);
            break; }
        }
    } while (!t.done() && n < 24);
}
VP_DEFINE_RUN(run_case)

// ---------------------------------------------------------------------------------------
// exhaustive / dense enumeration. tier 0: all x < 2^24, all k^2-1,k^2,k^2+1 for k < 2^16,
// u64: k^2+{-1,0,1} for k on a stride; tier 1: all 2^32 and every k < 2^32 for u64.
extern "C" int vp_enum(unsigned shard, unsigned nshards, int tier, vp_enum_stats *st)
{
    int bad = 0;
    char buf[256];
    uint64_t lim32 = tier ? (uint64_t(1) << 32) : (uint64_t(1) << 24);
    uint64_t lo = lim32 / nshards * shard, hi = shard + 1 == nshards ? lim32 : lim32 / nshards * (shard + 1);
    uint64_t cnt = 0, nt = 0;
    for (uint64_t x = lo; x < hi; ++x)
    {
        uint32_t r = a_u32_sqrt(uint32_t(x));
        ++cnt;
        nt += x >= 4;
        if (!sqrt32_ok(uint32_t(x), r))
        {
            if (!bad) { snprintf(buf, sizeof(buf), "a_u32_sqrt:not_floor_sqrt: a_u32_sqrt(%llu) = %u", (unsigned long long)x, r); st->violation(buf); }
            ++bad;
        }
    }
    st->domain(tier ? "a_u32_sqrt: all x in this shard of [0,2^32)" : "a_u32_sqrt: all x in this shard of [0,2^24)", cnt, true);
    // neighbours of perfect squares, 32 bit
    uint64_t c2 = 0;
    for (uint64_t k = 1 + shard; k < 65536; k += nshards)
    {
        for (int d = -1; d <= 1; ++d)
        {
            uint64_t x = k * k + uint64_t(int64_t(d));
            if (x > 0xFFFFFFFFull) { continue; }
            uint32_t r = a_u32_sqrt(uint32_t(x));
            ++c2;
            if (!sqrt32_ok(uint32_t(x), r))
            {
                if (!bad) { snprintf(buf, sizeof(buf), "a_u32_sqrt:not_floor_sqrt: a_u32_sqrt(%llu) = %u", (unsigned long long)x, r); st->violation(buf); }
                ++bad;
            }
        }
    }
    st->domain("a_u32_sqrt: k^2-1,k^2,k^2+1 for k < 2^16 (this shard)", c2, true);
    // 64 bit: k^2 - 1, k^2, k^2 + 1
    uint64_t step = tier ? 1 : 1021; // prime stride in quick
    uint64_t c3 = 0;
    uint64_t klim = uint64_t(1) << 32;
    uint64_t klo = klim / nshards * shard, khi = shard + 1 == nshards ? klim : klim / nshards * (shard + 1);
    for (uint64_t k = klo + 1; k < khi; k += step)
    {
        for (int d = -1; d <= 1; ++d)
        {
            uint64_t x = k * k + uint64_t(int64_t(d));
            uint64_t r = a_u64_sqrt(x);
            ++c3;
            ++nt;
            if (!sqrt64_ok(x, r))
            {
                if (!bad) { snprintf(buf, sizeof(buf), "a_u64_sqrt:not_floor_sqrt: a_u64_sqrt(%llu) = %llu", (unsigned long long)x, (unsigned long long)r); st->violation(buf); }
                ++bad;
            }
        }
    }
    st->domain(tier ? "a_u64_sqrt: k^2-1,k^2,k^2+1 for every k in this shard of [1,2^32)" : "a_u64_sqrt: k^2-1,k^2,k^2+1 for k on stride 1021 in this shard of [1,2^32)", c3, tier != 0);
    // 2^j - 1, 2^j, 2^j + 1 and ~0 - d
    uint64_t c4 = 0;
    if (shard == 0)
    {
        for (int j = 0; j < 64; ++j)
        {
            for (int d = -2; d <= 2; ++d)
            {
                uint64_t x = (uint64_t(1) << j) + uint64_t(int64_t(d));
                uint64_t r = a_u64_sqrt(x);
                ++c4;
                if (!sqrt64_ok(x, r))
                {
                    if (!bad) { snprintf(buf, sizeof(buf), "a_u64_sqrt:not_floor_sqrt: a_u64_sqrt(%llu) = %llu", (unsigned long long)x, (unsigned long long)r); st->violation(buf); }
                    ++bad;
                }
            }
        }
        // all 8- and 16-bit reversals
        for (unsigned x = 0; x < 256; ++x)
        {
            ++c4;
            if (a_u8_rev(uint8_t(x)) != ref_rev(x, 8)) { if (!bad) { snprintf(buf, sizeof(buf), "rev:wrong: a_u8_rev(%#x)", x); st->violation(buf); } ++bad; }
        }
        for (unsigned x = 0; x < 65536; ++x)
        {
            ++c4;
            if (a_u16_rev(uint16_t(x)) != ref_rev(x, 16)) { if (!bad) { snprintf(buf, sizeof(buf), "rev:wrong: a_u16_rev(%#x)", x); st->violation(buf); } ++bad; }
        }
        for (int i = 0; i < 32; ++i)
        {
            for (int j = 0; j < 32; ++j)
            {
                uint32_t x = (1u << i) | (1u << j);
                ++c4;
                if (a_u32_rev(x) != ref_rev(x, 32)) { if (!bad) { snprintf(buf, sizeof(buf), "rev:wrong: a_u32_rev(%#x)", x); st->violation(buf); } ++bad; }
            }
        }
        for (int i = 0; i < 64; ++i)
        {
            for (int j = 0; j < 64; ++j)
            {
                uint64_t x = (uint64_t(1) << i) | (uint64_t(1) << j);
                ++c4;
                if (a_u64_rev(x) != ref_rev(x, 64)) { if (!bad) { snprintf(buf, sizeof(buf), "rev:wrong: a_u64_rev(%#llx)", (unsigned long long)x); st->violation(buf); } ++bad; }
            }
        }
        st->domain("a_u64_sqrt at 2^j+-2; all a_u8_rev, all a_u16_rev, all one/two-bit words of a_u32_rev/a_u64_rev", c4, true);
    }
    st->s.evaluations = cnt + c2 + c3 + c4;
    st->s.nontrivial = nt;
    return bad;
}
