# C20 — Rust mirrors vs the C ABI.
# Enumerates every #[repr(C)] struct and every extern "C" declaration of src/lib.rs, compiles a C probe
# (clang) and a Rust probe (bare rustc, lib.rs + appended code) from the CURRENT tree for both real widths,
# compares layouts and declarations, and drives generated cross-boundary field values with Hypothesis.
import json, os, re, shutil, subprocess, sys, time

HERE = os.path.dirname(os.path.abspath(__file__))
VERIF = os.path.dirname(os.path.dirname(HERE))
sys.path.insert(0, VERIF)
from vp import core

CRC_WIDTH = {'crc8': 8, 'crc16': 16, 'crc32': 32, 'crc64': 64}


# ---------------------------------------------------------------------------------------------------
# Rust side: a small parser for lib.rs (no crates)
def strip_comments(src):
    src = re.sub(r'/\*.*?\*/', '', src, flags=re.S)
    src = re.sub(r'//[^\n]*', '', src)
    return src


def split_top(s, sep=','):
    out, depth, cur = [], 0, ''
    prev = ''
    for ch in s:
        if ch in '([{<':
            depth += 1
        elif ch in ')]}' or (ch == '>' and prev != '-'):
            depth -= 1
        prev = ch
        if ch == sep and depth == 0:
            out.append(cur)
            cur = ''
        else:
            cur += ch
    if cur.strip():
        out.append(cur)
    return [x.strip() for x in out if x.strip()]


# parameter names of both sides (for the order of same-typed parameters, which the machine types cannot show)
RNAMES, CNAMES = {}, {}


def parse_rust(path):
    src = strip_comments(open(path).read())
    structs = {}
    for m in re.finditer(r'#\[repr\(C\)\]\s*(?:#\[[^\]]*\]\s*)*pub\s+struct\s+(\w+)\s*\{(.*?)\n\}', src, re.S):
        fields = []
        for f in split_top(m.group(2)):
            f = re.sub(r'^(pub(\([^)]*\))?\s+)', '', f.strip())
            name, ty = f.split(':', 1)
            fields.append((name.strip(), ' '.join(ty.split())))
        structs[m.group(1)] = fields
    fns, statics = {}, {}
    for m in re.finditer(r'extern\s+"C"\s*\{(.*?)\n\s*\}', src, re.S):
        body = m.group(1)
        for fm in re.finditer(r'\bfn\s+(\w+)\s*\((.*?)\)\s*(->\s*([^;]+?))?\s*;', body, re.S):
            params, pnames = [], []
            for p in split_top(fm.group(2)):
                if ':' in p:
                    params.append(' '.join(p.split(':', 1)[1].split()))
                    pnames.append(p.split(':', 1)[0].strip())
            ret = ' '.join(fm.group(4).split()) if fm.group(4) else '()'
            fns[fm.group(1)] = (params, ret)
            RNAMES[fm.group(1)] = pnames
        for sm in re.finditer(r'\bstatic\s+(?:mut\s+)?(\w+)\s*:\s*([^;]+);', body):
            statics[sm.group(1)] = ' '.join(sm.group(2).split())
    return structs, fns, statics


def rust_canon(ty, real, structs):
    ty = ty.strip()
    if ty in ('()', ''):
        return 'void'
    if ty.startswith('*const') or ty.startswith('*mut') or ty.startswith('&'):
        return 'ptr'
    if ty.startswith('Option<') and 'fn' in ty:
        return 'fnptr'
    if re.match(r'^(unsafe\s+)?extern\s+"C"\s+fn', ty) or ty.startswith('fn('):
        return 'fnptr'
    m = re.match(r'^\[(.+);\s*(\w+)\]$', ty)
    if m:
        n = int(m.group(2), 0)
        return 'arr(%s,%d)' % (rust_canon(m.group(1), real, structs), n)
    table = {'real': 'f64' if real == 8 else 'f32', 'f64': 'f64', 'f32': 'f32', 'c_int': 'i32', 'c_uint': 'i32', 'i32': 'i32', 'u32': 'i32',
             'u8': 'i8', 'i8': 'i8', 'bool': 'i8', 'u16': 'i16', 'i16': 'i16', 'u64': 'i64', 'i64': 'i64', 'usize': 'i64', 'isize': 'i64',
             'c_char': 'i8', 'c_long': 'i64', 'c_ulong': 'i64'}
    if ty in table:
        return table[ty]
    if ty in structs:
        return 'struct(%s)' % ty
    return 'unknown(%s)' % ty


# ---------------------------------------------------------------------------------------------------
# C side: clang's JSON AST of all public headers
LINKNAME = {}  # C identifier -> linker symbol of its declaration


def parse_c(repo, real, work):
    hdrs = sorted(os.listdir(os.path.join(repo, 'include', 'a')))
    src = os.path.join(work, 'all_%d.c' % real)
    with open(src, 'w') as f:
        for h in hdrs:
            if h.endswith('.h'):
                f.write('#include "a/%s"\n' % h)
    r = subprocess.run(['clang', '-std=gnu11', '-I', os.path.join(repo, 'include'), '-DA_EXPORTS'] + core.config_defs(real) +
                       ['-Xclang', '-ast-dump=json', '-fsyntax-only', src], stdout=subprocess.PIPE, stderr=subprocess.PIPE)
    if r.returncode:
        raise core.BuildError('clang AST dump failed: ' + r.stderr.decode()[-2000:])
    ast = json.loads(r.stdout)
    structs, fns, vars_ = {}, {}, {}
    for d in ast['inner']:
        k = d.get('kind')
        if k == 'RecordDecl' and d.get('name') and d.get('completeDefinition'):
            structs[d['name']] = [(f['name'], f['type'].get('desugaredQualType', f['type']['qualType'])) for f in d.get('inner', []) if f.get('kind') == 'FieldDecl']
        elif k == 'FunctionDecl' and d.get('name', '').startswith('a_'):
            params = [p['type'].get('desugaredQualType', p['type']['qualType']) for p in d.get('inner', []) if p.get('kind') == 'ParmVarDecl']
            q = d['type']['qualType']
            ret = q[:q.index('(')].strip()
            if re.match(r'^[\w ]+\(\*\(', q):
                ret = q[:q.index('(')].strip() + ' (*)()'  # function returning a pointer to function
            fns[d['name']] = (params, ret, d['type']['qualType'])
            # the symbol the compiler emits references to (an __asm__ label on the declaration changes it)
            if d.get('mangledName', d['name']) != d['name'] or d['name'] not in LINKNAME:
                LINKNAME[d['name']] = d.get('mangledName', d['name'])
            CNAMES[d['name']] = [p.get('name', '') for p in d.get('inner', []) if p.get('kind') == 'ParmVarDecl']
        elif k == 'VarDecl' and d.get('name', '').startswith('a_'):
            vars_[d['name']] = d['type'].get('desugaredQualType', d['type']['qualType'])
            if d.get('mangledName', d['name']) != d['name'] or d['name'] not in LINKNAME:
                LINKNAME[d['name']] = d.get('mangledName', d['name'])
    # typedef table for return types / nested names that clang did not desugar
    tds = {}
    for d in ast['inner']:
        if d.get('kind') == 'TypedefDecl':
            tds[d['name']] = d['type'].get('desugaredQualType', d['type']['qualType'])
    return structs, fns, vars_, tds


def c_canon(ty, tds, depth=0):
    ty = ty.strip()
    ty = re.sub(r'\b(const|volatile|restrict|__restrict)\b', '', ty).strip()
    ty = ' '.join(ty.split())
    if '(*' in ty:
        return 'fnptr'
    if ty.endswith('*'):
        return 'ptr'
    m = re.match(r'^(.*?)\s*\[(\w+)\]$', ty)
    if m:
        return 'arr(%s,%d)' % (c_canon(m.group(1), tds, depth), int(m.group(2), 0))
    table = {'double': 'f64', 'float': 'f32', 'long double': 'f80', 'int': 'i32', 'unsigned int': 'i32', 'unsigned': 'i32',
             'long': 'i64', 'unsigned long': 'i64', 'long long': 'i64', 'unsigned long long': 'i64', 'short': 'i16', 'unsigned short': 'i16',
             'char': 'i8', 'signed char': 'i8', 'unsigned char': 'i8', '_Bool': 'i8', 'bool': 'i8', 'void': 'void'}
    if ty in table:
        return table[ty]
    if ty.startswith('struct a_'):
        return 'struct(%s)' % ty[len('struct a_'):]
    if ty.startswith('union '):
        return 'union(%s)' % ty[6:]
    if ty.startswith('enum '):
        return 'i32'
    if ty in tds and depth < 8:
        return c_canon(tds[ty], tds, depth + 1)
    return 'unknown(%s)' % ty


# pointee of a pointer type, canonicalised one level deep (None: not a pointer / cannot tell). Byte and void pointers are views
# of anything and are not compared.
def rust_pointee(ty, real, structs):
    ty = ty.strip()
    m = re.match(r'^(?:\*const|\*mut|&mut|&)\s*(.+)$', ty)
    if not m:
        return None
    inner = m.group(1).strip()
    if inner.startswith('*') or inner.startswith('&'):
        return 'ptr'
    if inner in ('c_void', 'core::ffi::c_void', 'u8', 'i8', 'c_char'):
        return 'bytes'
    if inner.startswith('['):
        mm = re.match(r'^\[(.+);\s*\w+\]$', inner)
        inner = mm.group(1) if mm else inner
    c = rust_canon(inner, real, structs)
    return None if c.startswith('unknown') else c


def c_pointee(ty, tds):
    ty = re.sub(r'\b(const|volatile|restrict|__restrict)\b', '', ty).strip()
    ty = ' '.join(ty.split())
    if '(*' in ty or not ty.endswith('*'):
        m = re.match(r'^(.*?)\s*\[\w*\]$', ty)  # array parameter: pointer to the element type
        if not m or '(*' in ty:
            return None
        inner = m.group(1).strip()
    else:
        inner = ty[:-1].strip()
    if inner.endswith('*'):
        return 'ptr'
    c = c_canon(inner, tds)
    if c in ('void', 'i8'):
        return 'bytes'
    return None if c.startswith('unknown') else c


def pointee_mismatch(cty, rty, real, rstructs, tds):
    a, b = c_pointee(cty, tds), rust_pointee(rty, real, rstructs)
    if a is None or b is None or a == 'bytes' or b == 'bytes':
        return None
    return None if a == b else (a, b)


# ---------------------------------------------------------------------------------------------------
def leaves(rstructs, sname, prefix='', real=8):
    """flatten nested structs / arrays into leaf access paths: [(rust_path, canon_kind)]"""
    out = []
    for fname, fty in rstructs[sname]:
        c = rust_canon(fty, real, rstructs)
        path = prefix + fname
        if c.startswith('struct('):
            out += leaves(rstructs, fty.strip(), path + '.', real)
        elif c.startswith('arr('):
            m = re.match(r'arr\((.*),(\d+)\)$', c)
            n = int(m.group(2))
            idxs = range(n) if n <= 8 else [0, 1, n // 2, n - 1]
            for i in idxs:
                out.append(('%s[%d]' % (path, i), m.group(1), fty))
        else:
            out.append((path, c, fty))
    return out


def gen_c_probe(rstructs, cstructs, real, path):
    L = ['#include <stdio.h>', '#include <stddef.h>', '#include <stdint.h>', '#include <string.h>', '#include <stdlib.h>']
    for h in ['pid', 'pid_fuzzy', 'pid_neuro', 'tf', 'lpf', 'hpf', 'trajbell', 'trajtrap', 'trajpoly3', 'trajpoly5', 'trajpoly7', 'regress_linear', 'regress_simple', 'version', 'crc']:
        L.append('#include "a/%s.h"' % h)
    L.append('static void layout(void) {')
    for s in rstructs:
        cs = 'a_' + s
        if cs not in cstructs:
            continue
        L.append('  printf("S %s %%zu %%zu %d\\n", sizeof(struct %s), _Alignof(struct %s));' % (s, len(cstructs[cs]), cs, cs))
        for i, (fn, _) in enumerate(cstructs[cs]):
            L.append('  printf("F %s %d %s %%zu %%zu\\n", offsetof(struct %s, %s), sizeof(((struct %s *)0)->%s));' % (s, i, fn, cs, fn, cs, fn))
    L.append('}')
    # fill: assign every leaf through C field assignment from the values on the line, dump the bytes
    L.append('static unsigned long long rd(char **p) { return strtoull(*p, p, 16); }')
    for s in rstructs:
        cs = 'a_' + s
        if cs not in cstructs:
            continue
        lv = c_leaves(rstructs, cstructs, s, '', real)
        L.append('static void fill_%s(char *p) { struct %s v; memset(&v, 0xA5, sizeof v);' % (s, cs))
        for cpath, kind in lv:
            if kind == 'f64':
                L.append('  { unsigned long long b = rd(&p); double d; memcpy(&d, &b, 8); v.%s = d; }' % cpath)
            elif kind == 'f32':
                L.append('  { unsigned int b = (unsigned int)rd(&p); float d; memcpy(&d, &b, 4); v.%s = d; }' % cpath)
            elif kind == 'ptr':
                L.append('  v.%s = (void *)(uintptr_t)rd(&p);' % cpath)
            elif kind == 'fnptr':
                L.append('  { uintptr_t b = (uintptr_t)rd(&p); memcpy(&v.%s, &b, sizeof b); }' % cpath)
            else:
                L.append('  v.%s = rd(&p);' % cpath)
        L.append('  { unsigned char *b = (unsigned char *)&v; size_t i; printf("B %s ");  for (i = 0; i < sizeof v; ++i) printf("%%02x", b[i]); printf("\\n"); } }' % s)
        # read: load bytes, print every leaf through C field reads
        L.append('static void read_%s(char *p) { struct %s v; unsigned char *b = (unsigned char *)&v; size_t i; while (*p == \' \') ++p;' % (s, cs))
        L.append('  for (i = 0; i < sizeof v; ++i) { unsigned int x; sscanf(p + 2 * i, "%%2x", &x); b[i] = (unsigned char)x; } printf("R %s");' % s)
        for cpath, kind in lv:
            if kind == 'f64':
                L.append('  { unsigned long long u; double d = v.%s; memcpy(&u, &d, 8); printf(" %%llx", u); }' % cpath)
            elif kind == 'f32':
                L.append('  { unsigned int u; float d = v.%s; memcpy(&u, &d, 4); printf(" %%x", u); }' % cpath)
            elif kind == 'ptr':
                L.append('  printf(" %%llx", (unsigned long long)(uintptr_t)v.%s);' % cpath)
            elif kind == 'fnptr':
                L.append('  { uintptr_t u; memcpy(&u, &v.%s, sizeof u); printf(" %%llx", (unsigned long long)u); }' % cpath)
            elif kind == 'i64':
                L.append('  printf(" %%llx", (unsigned long long)v.%s);' % cpath)
            elif kind == 'i16':
                L.append('  printf(" %%x", (unsigned int)(unsigned short)v.%s);' % cpath)
            elif kind == 'i8':
                L.append('  printf(" %%x", (unsigned int)(unsigned char)v.%s);' % cpath)
            else:
                L.append('  printf(" %%x", (unsigned int)v.%s);' % cpath)
        L.append('  printf("\\n"); }')
    L.append('int main(void) { char line[65536]; layout(); printf("READY\\n"); fflush(stdout);')
    L.append('  while (fgets(line, sizeof line, stdin)) { char cmd[16], name[64]; int n = 0; if (sscanf(line, "%15s %63s%n", cmd, name, &n) < 2) continue;')
    for s in rstructs:
        if 'a_' + s in cstructs:
            L.append('    if (!strcmp(name, "%s")) { if (cmd[0] == \'f\') fill_%s(line + n); else read_%s(line + n); }' % (s, s, s))
    L.append('    fflush(stdout); } return 0; }')
    open(path, 'w').write('\n'.join(L) + '\n')


def c_leaves(rstructs, cstructs, s, cprefix='', real=8):
    """C access paths in the order of the Rust leaves (positional correspondence of fields)"""
    out = []
    cs = 'a_' + s
    rf, cf = rstructs[s], cstructs[cs]
    for i, (fname, fty) in enumerate(rf):
        if i >= len(cf):
            break
        cname = cf[i][0]
        c = rust_canon(fty, real, rstructs)
        if c.startswith('struct('):
            out += c_leaves(rstructs, cstructs, fty.strip(), cprefix + cname + '.', real)
        elif c.startswith('arr('):
            m = re.match(r'arr\((.*),(\d+)\)$', c)
            n = int(m.group(2))
            idxs = range(n) if n <= 8 else [0, 1, n // 2, n - 1]
            for j in idxs:
                out.append(('%s%s[%d]' % (cprefix, cname, j), m.group(1)))
        else:
            out.append((cprefix + cname, c))
    return out


def gen_rust_probe(librs, rstructs, cstructs, real, path):
    src = open(librs).read()
    L = [src, '', '// ---- appended by /verif/exec/C20 (probe) ----', '#[allow(dead_code, unused)]', 'mod vp_probe {', '  use super::*;',
         '  fn sz<T, U>(_: fn(&T) -> &U) -> usize { core::mem::size_of::<U>() }',
         '  pub fn layout() {']
    for s, fields in rstructs.items():
        L.append('    println!("S %s {} {} %d", core::mem::size_of::<%s>(), core::mem::align_of::<%s>());' % (s, len(fields), s, s))
        for i, (fn, _) in enumerate(fields):
            L.append('    println!("F %s %d %s {} {}", core::mem::offset_of!(%s, %s), sz(|v: &%s| &v.%s));' % (s, i, fn, s, fn, s, fn))
    L.append('  }')
    L.append('  fn hex(p: &mut std::str::SplitWhitespace) -> u64 { u64::from_str_radix(p.next().unwrap_or("0"), 16).unwrap_or(0) }')
    for s in rstructs:
        if s in CRC_WIDTH or 'a_' + s not in cstructs:
            continue
        lv = leaves(rstructs, s, '', real)
        L.append('  pub fn read_%s(line: &str) { let bytes: Vec<u8> = (0..line.len() / 2).map(|i| u8::from_str_radix(&line[2 * i..2 * i + 2], 16).unwrap_or(0)).collect();' % s)
        L.append('    let mut v = core::mem::MaybeUninit::<%s>::uninit(); unsafe { core::ptr::copy_nonoverlapping(bytes.as_ptr(), v.as_mut_ptr() as *mut u8, core::mem::size_of::<%s>().min(bytes.len())); }' % (s, s))
        L.append('    let v = unsafe { v.assume_init() }; print!("R %s");' % s)
        for rpath, kind, _ in lv:
            if kind in ('f64', 'f32'):
                L.append('    print!(" {:x}", v.%s.to_bits());' % rpath)
            elif kind == 'ptr':
                L.append('    print!(" {:x}", v.%s as usize);' % rpath)
            elif kind == 'fnptr':
                L.append('    print!(" {:x}", unsafe { core::mem::transmute_copy::<_, usize>(&v.%s) });' % rpath)
            else:
                L.append('    print!(" {:x}", v.%s);' % rpath)
        L.append('    println!(); core::mem::forget(v); }')
        L.append('  pub fn fill_%s(line: &str) { let mut p = line.split_whitespace(); let mut v = core::mem::MaybeUninit::<%s>::uninit();' % (s, s))
        L.append('    unsafe { core::ptr::write_bytes(v.as_mut_ptr() as *mut u8, 0xA5, core::mem::size_of::<%s>()); } let mut v = unsafe { v.assume_init() };' % s)
        for rpath, kind, fty in lv:
            if kind == 'f64':
                L.append('    v.%s = f64::from_bits(hex(&mut p)) as _;' % rpath)
            elif kind == 'f32':
                L.append('    v.%s = f32::from_bits(hex(&mut p) as u32) as _;' % rpath)
            elif kind == 'ptr':
                L.append('    v.%s = hex(&mut p) as usize as _;' % rpath)
            elif kind == 'fnptr':
                L.append('    { let b = hex(&mut p) as usize; v.%s = unsafe { core::mem::transmute_copy(&b) }; }' % rpath)
            else:
                L.append('    v.%s = hex(&mut p) as _;' % rpath)
        L.append('    let b = unsafe { core::slice::from_raw_parts(&v as *const %s as *const u8, core::mem::size_of::<%s>()) }; print!("B %s "); for x in b { print!("{:02x}", x); } println!(); core::mem::forget(v); }' % (s, s, s))
    L.append('}')
    L.append('#[allow(dead_code)] fn main() { use std::io::{BufRead, Write}; vp_probe::layout(); println!("READY"); std::io::stdout().flush().unwrap();')
    L.append('  let stdin = std::io::stdin(); for line in stdin.lock().lines() { let line = line.unwrap(); let mut it = line.splitn(3, \' \'); let cmd = it.next().unwrap_or(""); let name = it.next().unwrap_or(""); let rest = it.next().unwrap_or("").trim();')
    for s in rstructs:
        if s in CRC_WIDTH or 'a_' + s not in cstructs:
            continue
        L.append('    if name == "%s" { if cmd.starts_with(\'f\') { vp_probe::fill_%s(rest); } else { vp_probe::read_%s(rest); } }' % (s, s, s))
    L.append('    std::io::stdout().flush().unwrap(); } }')
    open(path, 'w').write('\n'.join(L) + '\n')


def build(repo, real, work, log):
    """compile liba objects (for nm and linking), the C probe and the Rust probe for one real width"""
    d = os.path.join(work, 'r%d' % real)
    os.makedirs(d, exist_ok=True)
    defs = core.config_defs(real)
    srcs = sorted(f for f in os.listdir(os.path.join(repo, 'src')) if f.endswith('.c'))
    objs = []
    jobs = []
    for s in srcs:
        o = os.path.join(d, s.replace('.c', '.o'))
        objs.append(o)
        jobs.append(['clang', '-std=gnu11', '-O1', '-fPIC', '-DA_EXPORTS'] + defs + ['-I', os.path.join(repo, 'include'), '-c', os.path.join(repo, 'src', s), '-o', o])
    import concurrent.futures as cf
    with cf.ThreadPoolExecutor(core.NPROC) as ex:
        for cmd, r in zip(jobs, ex.map(core.sh, jobs)):
            if r.returncode:
                raise core.BuildError('compile failed: %s\n%s' % (' '.join(cmd), r.stdout[-3000:]))
    lib = os.path.join(d, 'libaprobe.a')
    if os.path.exists(lib):
        os.remove(lib)
    r = core.sh(['ar', 'rcs', lib] + objs)
    if r.returncode:
        raise core.BuildError('ar failed: ' + r.stdout)
    return d, lib, defs


def compare_layout(tag, clines, rlines, rstructs, cstructs, real, tds, facts, viol):
    def parse(lines):
        S, F = {}, {}
        for l in lines:
            p = l.split()
            if p and p[0] == 'S':
                S[p[1]] = (int(p[2]), int(p[3]), int(p[4]))
            elif p and p[0] == 'F':
                F.setdefault(p[1], []).append((int(p[2]), p[3], int(p[4]), int(p[5])))
        return S, F
    cS, cF = parse(clines)
    rS, rF = parse(rlines)
    alias = {}
    for s in rstructs:
        if s in CRC_WIDTH:
            continue
        if s not in cS:
            viol.append(('layout:no_c_struct:%s' % s, '%s: Rust mirror `%s` has no C structure `a_%s` in the headers' % (tag, s, s)))
            continue
        facts.append('%s struct %s: size %d/%d align %d/%d fields %d/%d' % (tag, s, cS[s][0], rS[s][0], cS[s][1], rS[s][1], cS[s][2], rS[s][2]))
        if cS[s][0] != rS[s][0]:
            viol.append(('layout:size:%s' % s, '%s: sizeof(struct a_%s) = %d but size_of::<%s>() = %d' % (tag, s, cS[s][0], s, rS[s][0])))
        if cS[s][1] != rS[s][1]:
            viol.append(('layout:align:%s' % s, '%s: _Alignof(struct a_%s) = %d but align_of::<%s>() = %d' % (tag, s, cS[s][1], s, rS[s][1])))
        if cS[s][2] != rS[s][2]:
            viol.append(('layout:field_count:%s' % s, '%s: struct a_%s has %d fields, mirror `%s` has %d' % (tag, s, cS[s][2], s, rS[s][2])))
        cfs, rfs = cF.get(s, []), rF.get(s, [])
        for i in range(min(len(cfs), len(rfs))):
            _, cn, co, csz = cfs[i]
            _, rn, ro, rsz = rfs[i]
            ct = c_canon(cstructs['a_' + s][i][1], tds)
            rt = rust_canon(rstructs[s][i][1], real, rstructs)
            facts.append('%s field %s.%s/%s: offset %d/%d size %d/%d type %s/%s' % (tag, s, cn, rn, co, ro, csz, rsz, ct, rt))
            if cn.rstrip('_') != rn.rstrip('_'):
                viol.append(('layout:field_order:%s.%s' % (s, rn), '%s: field %d of struct a_%s is `%s`, of the mirror `%s`' % (tag, i, s, cn, rn)))
            if co != ro:
                viol.append(('layout:offset:%s.%s' % (s, rn), '%s: offsetof(struct a_%s, %s) = %d but offset_of!(%s, %s) = %d' % (tag, s, cn, co, s, rn, ro)))
            if csz != rsz:
                viol.append(('layout:field_size:%s.%s' % (s, rn), '%s: sizeof(a_%s.%s) = %d but the mirror field %s.%s has %d bytes' % (tag, s, cn, csz, s, rn, rsz)))
            if ct != rt:
                viol.append(('layout:field_type:%s.%s' % (s, rn), '%s: a_%s.%s has machine type %s, mirror field %s.%s has %s (%s)' % (tag, s, cn, ct, s, rn, rt, rstructs[s][i][1])))
            pm = pointee_mismatch(cstructs['a_' + s][i][1], rstructs[s][i][1], real, rstructs, tds)
            if pm:
                viol.append(('layout:field_pointee:%s.%s' % (s, rn), '%s: a_%s.%s points to %s (%s), mirror field %s.%s points to %s (%s)' % (tag, s, cn, pm[0], cstructs['a_' + s][i][1], s, rn, pm[1], rstructs[s][i][1])))


def compare_decls(tag, rfns, rstatics, cfns, cvars, rstructs, real, tds, symbols, facts, viol, nontrivial):
    for name, (params, ret) in sorted(rfns.items()):
        if name not in cfns:
            viol.append(('decl:not_declared:%s' % name, '%s: `%s` is declared in an extern "C" block but no header declares it' % (tag, name)))
            continue
        if name not in symbols:
            viol.append(('decl:not_defined:%s' % name, '%s: `%s` is declared in an extern "C" block but the library objects do not define it' % (tag, name)))
        if LINKNAME.get(name, name) != name:
            # C callers of `name` are linked to another symbol than the one the binding imports under that name: whatever is
            # defined under the plain name is not the function the header declares
            viol.append(('decl:linker_name:%s' % name, '%s: the header binds `%s` to the linker symbol `%s`; the binding imports the symbol `%s`' % (tag, name, LINKNAME[name], name)))
        facts.append('%s fn %s: linker symbol %s' % (tag, name, LINKNAME.get(name, name)))
        cp, cr, cq = cfns[name]
        rp = [rust_canon(p, real, rstructs) for p in params]
        cpc = [c_canon(p, tds) for p in cp]
        rr, crc = rust_canon(ret, real, rstructs), c_canon(cr, tds)
        facts.append('%s fn %s: (%s) -> %s  vs  (%s) -> %s' % (tag, name, ', '.join(cpc), crc, ', '.join(rp), rr))
        if len(params) >= 3:
            nontrivial.add(('fn', name))
        if len(rp) != len(cpc):
            viol.append(('decl:param_count:%s' % name, '%s: %s takes %d parameters in C (%s) but %d in the binding' % (tag, name, len(cpc), cq, len(rp))))
        else:
            for i, (a, b) in enumerate(zip(cpc, rp)):
                # arrays decay to pointers in parameter position
                a2 = 'ptr' if a.startswith('arr(') else a
                if a2 != b:
                    viol.append(('decl:param_type:%s:%d' % (name, i), '%s: parameter %d of %s is %s in C (%s) but %s in the binding (%s)' % (tag, i, name, a2, cp[i], b, params[i])))
                else:
                    pm = pointee_mismatch(cp[i], params[i], real, rstructs, tds)
                    if pm:
                        viol.append(('decl:param_pointee:%s:%d' % (name, i), '%s: parameter %d of %s points to %s in C (%s) but to %s in the binding (%s)' % (tag, i, name, pm[0], cp[i], pm[1], params[i])))
        # order of same-typed parameters: when both sides use the same set of distinct names, the names have to come in the same order
        cn = [x.strip('_').lower() for x in CNAMES.get(name, [])]
        rn = [x.strip('_').lower() for x in RNAMES.get(name, [])]
        if cn and len(cn) == len(rn) and len(set(cn)) == len(cn) and sorted(cn) == sorted(rn):
            facts.append('%s fn %s: parameter names (%s) vs (%s)' % (tag, name, ', '.join(cn), ', '.join(rn)))
            if cn != rn:
                viol.append(('decl:param_order:%s' % name, '%s: %s names its parameters (%s) in C but (%s) in the binding: same names, different order' % (tag, name, ', '.join(cn), ', '.join(rn))))
        if rr != crc:
            viol.append(('decl:return_type:%s' % name, '%s: %s returns %s in C (%s) but %s in the binding (%s)' % (tag, name, crc, cr, rr, ret)))
    for name, ty in sorted(rstatics.items()):
        if name not in cvars:
            viol.append(('decl:static_not_declared:%s' % name, '%s: extern static `%s` has no C declaration' % (tag, name)))
            continue
        a, b = c_canon(cvars[name], tds), rust_canon(ty, real, rstructs)
        facts.append('%s static %s: %s vs %s' % (tag, name, a, b))
        if a != b:
            viol.append(('decl:static_type:%s' % name, '%s: extern static %s is %s in C but %s in the binding' % (tag, name, a, b)))
        if name not in symbols:
            viol.append(('decl:not_defined:%s' % name, '%s: extern static `%s` is not defined by the library objects' % (tag, name)))


def crc_checks(tag, rstructs, cfns, tds, real, facts, viol):
    for s, w in CRC_WIDTH.items():
        if s not in rstructs:
            continue
        f = rstructs[s]
        init = 'a_crc%dm_init' % w
        if init not in cfns:
            continue
        cparam = cfns[init][0][0]  # decayed pointer: element type from the qualType of the prototype
        proto = cfns[init][2]
        m = re.search(r'\((\w[\w ]*?)\s*\*', proto)
        celem = c_canon(m.group(1), tds) if m else 'unknown'
        tf = [t for n, t in f if n == 'table']
        rt = rust_canon(tf[0], real, rstructs) if tf else 'missing'
        facts.append('%s crc mirror %s.table: %s vs C element %s x 0x100' % (tag, s, rt, celem))
        if rt != 'arr(%s,256)' % celem:
            viol.append(('layout:crc_table:%s' % s, '%s: mirror %s.table is %s, the C routines take a table of 0x100 %s' % (tag, s, rt, celem)))


def run(args, log):
    t0 = time.time()
    pid = 'C20'
    seed = int(os.environ.get('VERIF_SEED', '20260927'))
    tier = args.tier
    repo = core.REPO
    work = os.path.join(core.OUTDIR, 'build', pid)
    shutil.rmtree(work, ignore_errors=True)
    os.makedirs(work)
    known_all = [k for k in core.load_known() if k['property'] == pid]
    known = [k for k in known_all if k.get('status') == 'known']
    known_sigs = set(k['signature'] for k in known)
    librs = os.path.join(repo, 'src', 'lib.rs')
    facts, viol, nontrivial = [], [], set()
    samples = []
    value_cases = 0
    value_distinct = 0
    probes = {}
    try:
        rstructs, rfns, rstatics = parse_rust(librs)
        for real in (8, 4):
            tag = 'f64' if real == 8 else 'f32'
            cstructs, cfns, cvars, tds = parse_c(repo, real, work)
            d, lib, defs = build(repo, real, work, log)
            nm = subprocess.run(['nm', '--defined-only', lib], stdout=subprocess.PIPE, text=True).stdout
            symbols = set(l.split()[-1] for l in nm.splitlines() if len(l.split()) >= 3 and l.split()[-2] in 'TtDdBbRrGgSsVvWw')
            cprobe, rprobe = os.path.join(d, 'cprobe.c'), os.path.join(d, 'rprobe.rs')
            gen_c_probe(rstructs, cstructs, real, cprobe)
            gen_rust_probe(librs, rstructs, cstructs, real, rprobe)
            r = core.sh(['clang', '-std=gnu11', '-O0', '-DA_EXPORTS'] + defs + ['-I', os.path.join(repo, 'include'), cprobe, '-o', os.path.join(d, 'cprobe')])
            if r.returncode:
                raise core.BuildError('C probe does not compile:\n' + r.stdout[-3000:])
            cfg = ['--cfg', 'feature="std"'] + (['--cfg', 'feature="float"'] if real == 4 else [])
            r = core.sh(['rustc', '--edition', '2018', '-A', 'warnings', '-C', 'opt-level=0', '-C', 'link-arg=' + lib, '-C', 'link-arg=-lm'] + cfg + [rprobe, '-o', os.path.join(d, 'rprobe')])
            if r.returncode:
                raise core.BuildError('Rust probe does not compile (rustc):\n' + r.stdout[-3000:])
            probes[real] = (os.path.join(d, 'cprobe'), os.path.join(d, 'rprobe'))

            def head(binp):
                p = subprocess.run([binp], input='', stdout=subprocess.PIPE, text=True, timeout=60)
                return p.stdout.splitlines()
            cl, rl = head(probes[real][0]), head(probes[real][1])
            compare_layout(tag, cl, rl, rstructs, cstructs, real, tds, facts, viol)
            crc_checks(tag, rstructs, cfns, tds, real, facts, viol)
            compare_decls(tag, rfns, rstatics, cfns, cvars, rstructs, real, tds, symbols, facts, viol, nontrivial)
            for s, fields in rstructs.items():
                kinds = set(rust_canon(t, real, rstructs) for _, t in fields)
                if len(kinds) >= 2:
                    nontrivial.add(('struct', s, tag))
        log('layout/declaration facts: %d, violations so far: %d' % (len(facts), len(viol)))
        # ---- generated cross-boundary values (Hypothesis, in the tooling venv) -------------------------
        cases = int((300 if tier == "quick" else 3000) * args.scale)
        spec = {'structs': {str(w): {s: [(p, k) for p, k, _ in leaves(rstructs, s, '', w)] for s in rstructs if s not in CRC_WIDTH and 'a_' + s in cstructs} for w in (8, 4)},
                'probes': {str(k): v for k, v in probes.items()}, 'seed': seed, 'cases': cases, 'out': os.path.join(work, 'values.json')}
        json.dump(spec, open(os.path.join(work, 'values_spec.json'), 'w'))
        r = subprocess.run(['python3-vt', os.path.join(HERE, 'values.py'), os.path.join(work, 'values_spec.json')], stdout=subprocess.PIPE, stderr=subprocess.STDOUT, text=True, timeout=3000)
        if not os.path.exists(spec['out']):
            raise core.BuildError('value round-trip driver failed:\n' + r.stdout[-3000:])
        vj = json.load(open(spec['out']))
        value_cases, value_distinct = vj['cases'], vj['distinct']
        samples += vj['samples'][:4]
        for v in vj['violations']:
            viol.append((v['sig'], v['msg']))
    except core.BuildError as e:
        print('BUILD-ERROR\n' + str(e))
        return 2
    # ---- verdict ------------------------------------------------------------------------------------
    seen, out_v = set(), []
    for sig, msg in viol:
        if sig in known_sigs or sig in seen:
            continue
        seen.add(sig)
        out_v.append((sig, msg))
    rep_paths = []
    for sig, msg in out_v:
        d = os.path.join(core.OUTDIR, 'replays', pid)
        os.makedirs(d, exist_ok=True)
        p = os.path.join(d, re.sub(r'[^A-Za-z0-9_.-]+', '_', sig)[:80] + '.txt')
        open(p, 'w').write('# C20 counterexample (re-run: ./check C20)\n%s\n%s\n' % (sig, msg))
        rep_paths.append(p)
    samples = [f for f in facts if ' fn a_pid_fuzzy_set_rule' in f or ' struct pid_fuzzy' in f or 'field pid_fuzzy.opr' in f][:4] + samples
    ev = {
        'property_id': pid, 'tier': tier, 'seed': seed, 'level': 'exploration',
        'coverage': {
            'evaluations': len(facts) + value_cases,
            'distinct_nontrivial': len(nontrivial) + value_distinct,
            'rule': 'complete enumeration of every #[repr(C)] struct (%d) and every extern "C" fn (%d) / static (%d) parsed from src/lib.rs, for both real widths: C probe (clang: sizeof/_Alignof/offsetof/sizeof(field)) vs Rust probe '
                    '(bare rustc on lib.rs + appended module: size_of/align_of/offset_of!/field sizes), positional field names, offsets, sizes and canonical machine types; prototypes from clang\'s JSON AST vs the Rust declarations (count, order, machine '
                    'types, return type; for the order of same-typed parameters the parameter names of both sides, wherever they form the same set of distinct names) and nm on the objects compiled from src/*.c; the linker symbol of each C declaration (clang\'s mangled name: an __asm__ label on a prototype changes it) has to be the name the binding imports; plus Hypothesis-generated per-field values (seeded) written through C field assignments and read through Rust field reads, and vice versa. '
                    'non-trivial = struct with >= 2 distinct field types or function with >= 3 parameters, and every value round trip with >= 2 non-zero leaves; distinct = distinct declarations per width + distinct value tuples' % (len(rstructs), len(rfns), len(rstatics)),
            'samples': samples if samples else facts[:5],
            'facts_compared': len(facts), 'value_round_trips': value_cases, 'structs': sorted(rstructs.keys()), 'functions': len(rfns),
            'exhaustive': True, 'known_findings': sorted(known_sigs),
        },
        'assumptions': ['x86-64 SysV ABI, clang 14 and rustc as installed; the cmake/cargo build paths are not exercised (bare rustc with --cfg feature flags)',
                        'integer signedness is not part of the machine type (c_int vs unsigned int compare equal); pointers compare as pointers regardless of pointee',
                        'field correspondence is positional; names must agree modulo a trailing underscore'],
        'wall_s': round(time.time() - t0, 2), 'violations': len(out_v),
    }
    os.makedirs(os.path.join(core.OUTDIR, 'evidence'), exist_ok=True)
    json.dump(ev, open(os.path.join(core.OUTDIR, 'evidence', pid + '.json'), 'w'), indent=1)
    for k in known:
        print('KNOWN-FINDING: property=%s %s' % (pid, k.get('what', k['signature'])))
    for (sig, msg), p in zip(out_v, rep_paths):
        print('  %s: %s' % (sig, msg[:400]))
        print('VIOLATION property=%s replay=%s' % (pid, p))
    if out_v:
        return 1
    print('OK property=%s tier=%s evaluations=%d distinct_nontrivial=%d wall=%.1fs' % (pid, tier, ev['coverage']['evaluations'], ev['coverage']['distinct_nontrivial'], time.time() - t0))
    return 0
