#!/usr/bin/env python3-vt
# values.py <spec.json> — Hypothesis-driven cross-boundary field values (runs in the tooling venv).
# For a generated struct, width and per-leaf values: the C probe assigns the fields (C field assignment) and dumps the
# bytes, the Rust probe loads the bytes and prints every leaf through Rust field reads - and vice versa.
import json, subprocess, sys
from hypothesis import given, seed, settings, strategies as st, HealthCheck

spec = json.load(open(sys.argv[1]))
procs = {}


def proc(width, side):
    key = (width, side)
    if key not in procs:
        p = subprocess.Popen([spec['probes'][str(width)][0 if side == 'c' else 1]], stdin=subprocess.PIPE, stdout=subprocess.PIPE, text=True, bufsize=1)
        while True:
            l = p.stdout.readline()
            if not l or l.strip() == 'READY':
                break
        procs[key] = p
    return procs[key]


def ask(width, side, line):
    p = proc(width, side)
    p.stdin.write(line + '\n')
    p.stdin.flush()
    return p.stdout.readline().strip()


MASK = {'f64': 2 ** 64 - 1, 'f32': 2 ** 32 - 1, 'i64': 2 ** 64 - 1, 'i32': 2 ** 32 - 1, 'i16': 2 ** 16 - 1, 'i8': 2 ** 8 - 1, 'ptr': 2 ** 64 - 1, 'fnptr': 2 ** 64 - 1}


def leaf_value(kind):
    if kind == 'f64':
        # finite bit patterns (exponent field not all ones)
        return st.builds(lambda s, e, m: (s << 63) | (e << 52) | m, st.integers(0, 1), st.integers(0, 2046), st.integers(0, 2 ** 52 - 1))
    if kind == 'f32':
        return st.builds(lambda s, e, m: (s << 31) | (e << 23) | m, st.integers(0, 1), st.integers(0, 254), st.integers(0, 2 ** 23 - 1))
    if kind == 'fnptr':
        return st.integers(1, 2 ** 47 - 1)
    if kind == 'ptr':
        return st.integers(0, 2 ** 47 - 1)
    return st.integers(0, MASK.get(kind, 2 ** 32 - 1))


stats = {'cases': 0, 'distinct': set(), 'samples': [], 'violations': []}


class Mismatch(Exception):
    pass


@seed(spec['seed'])
@settings(max_examples=spec['cases'], database=None, deadline=None, report_multiple_bugs=False, suppress_health_check=list(HealthCheck))
@given(st.data())
def roundtrip(data):
    width = data.draw(st.sampled_from([8, 4]))
    structs = spec['structs'][str(width)]
    name = data.draw(st.sampled_from(sorted(structs)))
    lv = structs[name]
    vals = [data.draw(leaf_value(k)) & MASK.get(k, 2 ** 32 - 1) for _, k in lv]
    line = ' '.join('%x' % v for v in vals)
    tag = 'f64' if width == 8 else 'f32'
    # C writes, Rust reads
    cb = ask(width, 'c', 'fill %s %s' % (name, line))
    rr = ask(width, 'r', 'read %s %s' % (name, cb.split()[-1]))
    got = [int(x, 16) for x in rr.split()[2:]]
    # Rust writes, C reads
    rb = ask(width, 'r', 'fill %s %s' % (name, line))
    cr = ask(width, 'c', 'read %s %s' % (name, rb.split()[-1]))
    got2 = [int(x, 16) for x in cr.split()[2:]]
    stats['cases'] += 1
    if sum(1 for v in vals if v) >= 2:
        stats['distinct'].add((width, name, tuple(vals)))
    if len(stats['samples']) < 4 and sum(1 for v in vals if v) >= 2:
        stats['samples'].append('%s %s: %s' % (tag, name, ', '.join('%s=%#x' % (p, v) for (p, _), v in list(zip(lv, vals))[:6])))
    for i, ((path, kind), v) in enumerate(zip(lv, vals)):
        if i >= len(got) or got[i] != v:
            raise Mismatch('value:c_to_rust:%s.%s|%s: %s.%s written as %#x through the C field is read as %s through the Rust field' % (name, path, tag, name, path, v, hex(got[i]) if i < len(got) else 'nothing'))
        if i >= len(got2) or got2[i] != v:
            raise Mismatch('value:rust_to_c:%s.%s|%s: %s.%s written as %#x through the Rust field is read as %s through the C field' % (name, path, tag, name, path, v, hex(got2[i]) if i < len(got2) else 'nothing'))
    if cb.split()[-1] != rb.split()[-1]:
        raise Mismatch('value:bytes:%s|%s: the same field values give different object representations on the two sides of %s' % (name, tag, name))


try:
    roundtrip()
except Mismatch as e:
    sig, msg = str(e).split('|', 1)
    stats['violations'].append({'sig': sig, 'msg': msg})
except Exception as e:  # probe died etc.
    stats['violations'].append({'sig': 'value:driver_error', 'msg': repr(e)[:500]})
for p in procs.values():
    try:
        p.stdin.close()
        p.wait(timeout=5)
    except Exception:
        p.kill()
json.dump({'cases': stats['cases'], 'distinct': len(stats['distinct']), 'samples': stats['samples'], 'violations': stats['violations']}, open(spec['out'], 'w'))
