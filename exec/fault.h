// fault.h — counting / failing replacement for a_alloc with a live-block ledger.
// Used by C04–C06 (ledger only: leaks, double frees, foreign frees) and C07 (fault injection).
#ifndef VP_FAULT_H
#define VP_FAULT_H
#include "../drv/vp.h"
#include <map>
extern "C" {
#include "a/a.h"
}

struct Shim
{
    std::map<void *, size_t> live;
    uint64_t requests = 0; // allocation requests (size > 0) seen so far
    uint64_t fail_at = 0;  // 1-based index of the request that fails (0: none)
    int mode = 0;          // 1: only request fail_at fails; 2: every request >= fail_at fails
    uint64_t faults = 0;   // injected failures so far
    bool bad = false;
    char bad_msg[160];
    void reset()
    {
        for (auto &kv : live) { free(kv.first); }
        live.clear();
        requests = faults = 0;
        fail_at = 0;
        mode = 0;
        bad = false;
        bad_msg[0] = 0;
    }
};
static Shim g_shim;

static void *shim_alloc(void *addr, a_size size)
{
    Shim &s = g_shim;
    if (addr && s.live.find(addr) == s.live.end())
    {
        if (!s.bad)
        {
            s.bad = true;
            snprintf(s.bad_msg, sizeof(s.bad_msg), "%s of a pointer the allocator never returned or already released (%p, size %zu)", size ? "realloc" : "free", addr, (size_t)size);
        }
        return nullptr;
    }
    if (size)
    {
        ++s.requests;
        if (s.fail_at && ((s.mode == 1 && s.requests == s.fail_at) || (s.mode == 2 && s.requests >= s.fail_at)))
        {
            ++s.faults;
            return nullptr; // the old block (if any) stays valid, like realloc
        }
        // always move: a fresh exact-size block, so stale pointers into the old one are ASan errors
        void *p = malloc(size);
        if (!p) { return nullptr; }
        if (addr)
        {
            size_t old = s.live[addr];
            memcpy(p, addr, old < size ? old : size);
            s.live.erase(addr);
            free(addr);
        }
        s.live[p] = size;
        return p;
    }
    if (addr)
    {
        s.live.erase(addr);
        free(addr);
    }
    return nullptr;
}

static inline void shim_install(void)
{
    g_shim.reset();
    a_alloc = shim_alloc;
}

static inline void shim_check(Ctx &cx, char const *where)
{
    if (g_shim.bad) { cx.fail("alloc:bad_release", "%s: %s", where, g_shim.bad_msg); }
}
static inline void shim_check_empty(Ctx &cx, char const *where)
{
    shim_check(cx, where);
    if (!g_shim.live.empty())
    {
        size_t n = g_shim.live.size(), b = 0;
        for (auto &kv : g_shim.live) { b += kv.second; }
        cx.fail("alloc:leak", "%s: %zu block(s) / %zu bytes obtained from the allocator were never released", where, n, b);
    }
}
#endif
