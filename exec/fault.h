// fault.h — counting / failing replacement for a_alloc with a live-block ledger.
// Used by C04–C06 (ledger only: leaks, double frees, foreign frees) and C07 (fault injection).
#ifndef VP_FAULT_H
#define VP_FAULT_H
#include "../drv/vp.h"
#include <map>
extern "C" {
#include "a/a.h"
}

#if defined(__has_feature)
#if __has_feature(address_sanitizer)
#include <sanitizer/asan_interface.h>
#define VP_POISON(p, n) ASAN_POISON_MEMORY_REGION((p), (n))
#define VP_UNPOISON(p, n) ASAN_UNPOISON_MEMORY_REGION((p), (n))
#endif
#endif
#ifndef VP_POISON
#define VP_POISON(p, n) ((void)(p), (void)(n))
#define VP_UNPOISON(p, n) ((void)(p), (void)(n))
#endif

struct Shim
{
    std::map<void *, size_t> live;
    std::map<void *, size_t> cap; // in-place policy: capacity behind each block (the slack is poisoned for ASan)
    bool inplace = false;         // false: every reallocation moves the block; true: a block grows in place while it fits its size class
    uint64_t requests = 0; // allocation requests (size > 0) seen so far
    uint64_t fail_at = 0;  // 1-based index of the request that fails (0: none)
    int mode = 0;          // 1: only request fail_at fails; 2: every request >= fail_at fails
    uint64_t faults = 0;   // injected failures so far
    bool bad = false;
    char bad_msg[160];
    void reset()
    {
        for (auto &kv : live)
        {
            auto c = cap.find(kv.first);
            if (c != cap.end()) { VP_UNPOISON(kv.first, c->second); }
            free(kv.first);
        }
        live.clear();
        cap.clear();
        inplace = false;
        requests = faults = 0;
        fail_at = 0;
        mode = 0;
        bad = false;
        bad_msg[0] = 0;
    }
};
static Shim g_shim;

static void *shim_alloc(void *addr, a_size size)
{
    Shim &s = g_shim;
    if (addr && s.live.find(addr) == s.live.end())
    {
        if (!s.bad)
        {
            s.bad = true;
            snprintf(s.bad_msg, sizeof(s.bad_msg), "%s of a pointer the allocator never returned or already released (%p, size %zu)", size ? "realloc" : "free", addr, (size_t)size);
        }
        return nullptr;
    }
    if (size)
    {
        ++s.requests;
        if (s.fail_at && ((s.mode == 1 && s.requests == s.fail_at) || (s.mode == 2 && s.requests >= s.fail_at)))
        {
            ++s.faults;
            return nullptr; // the old block (if any) stays valid, like realloc
        }
        if (s.inplace)
        {
            // the way ordinary allocators behave: a block keeps its address while the request fits its size class
            // (next power of two >= 16); the unused tail is poisoned, so the sanitizer still sees exact sizes
            if (addr)
            {
                size_t c = s.cap[addr], old = s.live[addr];
                if (size <= c)
                {
                    if (size > old) { VP_UNPOISON((char *)addr + old, size - old); }
                    else if (size < old) { VP_POISON((char *)addr + size, old - size); }
                    s.live[addr] = size;
                    return addr;
                }
            }
            size_t c = 16;
            while (c < size) { c *= 2; }
            void *p = malloc(c);
            if (!p) { return nullptr; }
            VP_POISON((char *)p + size, c - size);
            if (addr)
            {
                size_t old = s.live[addr];
                memcpy(p, addr, old < size ? old : size);
                VP_UNPOISON(addr, s.cap[addr]);
                s.live.erase(addr);
                s.cap.erase(addr);
                free(addr);
            }
            s.live[p] = size;
            s.cap[p] = c;
            return p;
        }
        // always move: a fresh exact-size block, so stale pointers into the old one are ASan errors
        void *p = malloc(size);
        if (!p) { return nullptr; }
        if (addr)
        {
            size_t old = s.live[addr];
            memcpy(p, addr, old < size ? old : size);
            s.live.erase(addr);
            free(addr);
        }
        s.live[p] = size;
        return p;
    }
    if (addr)
    {
        auto c = s.cap.find(addr);
        if (c != s.cap.end())
        {
            VP_UNPOISON(addr, c->second);
            s.cap.erase(c);
        }
        s.live.erase(addr);
        free(addr);
    }
    return nullptr;
}

static inline void shim_install(void)
{
    g_shim.reset();
    a_alloc = shim_alloc;
}

static inline void shim_check(Ctx &cx, char const *where)
{
    if (g_shim.bad) { cx.fail("alloc:bad_release", "%s: %s", where, g_shim.bad_msg); }
}
static inline void shim_check_empty(Ctx &cx, char const *where)
{
    shim_check(cx, where);
    if (!g_shim.live.empty())
    {
        size_t n = g_shim.live.size(), b = 0;
        for (auto &kv : g_shim.live) { b += kv.second; }
        cx.fail("alloc:leak", "%s: %zu block(s) / %zu bytes obtained from the allocator were never released", where, n, b);
    }
}
#endif
