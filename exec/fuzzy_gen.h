// fuzzy_gen.h — membership tables (ordered partitions) and rule bases for the fuzzy PID executors,
// and the seven fuzzy operators written from their documented formulas (reference).
#ifndef VP_FUZZY_GEN_H
#define VP_FUZZY_GEN_H
#include "../drv/vp.h"
#include <cmath>
#include <vector>
extern "C" {
#include "a/mf.h"
#include "a/pid_fuzzy.h"
}
#include <limits>
typedef a_real R; // the executors are written against the library's real type (float or double build)

struct MfSet
{
    unsigned type;
    unsigned npar;
    R par[4];
};
struct FuzzyCfg
{
    unsigned n;                 // order of the rule base
    unsigned opr;               // operator id
    unsigned opr_style = 0;     // how it is installed (install_opr)
    R L, Lc;               // ranges of e and ec tables
    std::vector<MfSet> se, sec; // sets of e and ec
    std::vector<R> me, mec; // flattened parameter tables
    std::vector<R> kp, ki, kd; // n x n consequents
    bool use_kp = true, use_ki = true, use_kd = true;
    bool shared = false;        // one table object registered for both inputs (me == mec)
};

static inline unsigned mf_npar(unsigned type)
{
    switch (type)
    {
    case A_MF_GAUSS: case A_MF_SIG: case A_MF_LINS: case A_MF_LINZ: case A_MF_S: case A_MF_Z: return 2;
    case A_MF_GBELL: case A_MF_TRI: return 3;
    case A_MF_GAUSS2: case A_MF_DSIG: case A_MF_PSIG: case A_MF_TRAP: case A_MF_PI: return 4;
    default: return 0;
    }
}

// one ordered partition of [-L, L] into n sets; family: 0 tri (shoulders at the ends as in the repository test),
// 1 trap, 2 gauss, 3 mixed incl. lins/linz ends, s/z ends, pi, gbell; `wide` scales the widths (more overlap)
static inline void gen_partition(Tape &t, unsigned n, R L, std::vector<MfSet> &out)
{
    unsigned family = t.u8() % 4;
    R wide = 1.0 + 0.5 * (t.u8() % 4);
    R step = n > 1 ? 2 * L / (n - 1) : L;
    out.clear();
    for (unsigned k = 0; k < n; ++k)
    {
        R c = n > 1 ? -L + step * k : 0;
        R w = step * wide;
        MfSet s{};
        unsigned fam = family == 3 ? t.u8() % 12 : family;
        bool first = k == 0, last = k + 1 == n;
        switch (fam)
        {
        case 0:
            s.type = A_MF_TRI;
            s.par[0] = first ? c : c - w;
            s.par[1] = c;
            s.par[2] = last ? c : c + w;
            break;
        case 1:
            s.type = A_MF_TRAP;
            s.par[0] = c - w;
            s.par[1] = c - w / 4;
            s.par[2] = c + w / 4;
            s.par[3] = c + w;
            break;
        case 2:
            s.type = A_MF_GAUSS;
            s.par[0] = w / 2;
            s.par[1] = c;
            break;
        case 3:
            if (first) { s.type = A_MF_LINZ; s.par[0] = c; s.par[1] = c + w; }
            else if (last) { s.type = A_MF_LINS; s.par[0] = c - w; s.par[1] = c; }
            else { s.type = A_MF_TRI; s.par[0] = c - w; s.par[1] = c; s.par[2] = c + w; }
            break;
        case 4:
            if (first) { s.type = A_MF_Z; s.par[0] = c; s.par[1] = c + w; }
            else if (last) { s.type = A_MF_S; s.par[0] = c - w; s.par[1] = c; }
            else { s.type = A_MF_PI; s.par[0] = c - w; s.par[1] = c - w / 8; s.par[2] = c + w / 8; s.par[3] = c + w; }
            break;
        case 10:
            // the one-sided shapes at ANY position of the table (the walk over the table has to step over each type correctly)
            if (k & 1) { s.type = A_MF_LINS; s.par[0] = c - w; s.par[1] = c; }
            else { s.type = A_MF_LINZ; s.par[0] = c; s.par[1] = c + w; }
            break;
        case 11:
            if (k & 1) { s.type = A_MF_S; s.par[0] = c - w; s.par[1] = c; }
            else { s.type = A_MF_Z; s.par[0] = c; s.par[1] = c + w; }
            break;
        case 6:
            s.type = A_MF_GAUSS2;
            s.par[0] = w / 2; s.par[1] = c - w / 8; s.par[2] = w / 2; s.par[3] = c + w / 8;
            break;
        case 7:
            // sigmoid shoulders at the ends, difference of sigmoids inside
            if (first) { s.type = A_MF_SIG; s.par[0] = -4 / w; s.par[1] = c + w / 2; }
            else if (last) { s.type = A_MF_SIG; s.par[0] = 4 / w; s.par[1] = c - w / 2; }
            else { s.type = A_MF_DSIG; s.par[0] = 4 / w; s.par[1] = c - w / 2; s.par[2] = 4 / w; s.par[3] = c + w / 2; }
            break;
        case 8:
            s.type = A_MF_PSIG;
            s.par[0] = 4 / w; s.par[1] = c - w / 2; s.par[2] = -4 / w; s.par[3] = c + w / 2;
            break;
        default:
            s.type = A_MF_GBELL;
            s.par[0] = w / 2;
            s.par[1] = 1 + t.u8() % 3;
            s.par[2] = c;
            break;
        }
        s.npar = mf_npar(s.type);
        out.push_back(s);
    }
}

static inline void flatten(std::vector<MfSet> const &sets, std::vector<R> &tab)
{
    tab.clear();
    for (auto const &s : sets)
    {
        tab.push_back(R(s.type));
        for (unsigned i = 0; i < s.npar; ++i) { tab.push_back(s.par[i]); }
    }
    tab.push_back(R(A_MF_NUL)); // terminator (never reached for i < n, guards an over-read)
}

static inline void gen_fuzzy(Tape &t, Ctx &cx, FuzzyCfg &f, bool zero_rules)
{
    f.n = 2 + t.u8() % 6;
    unsigned short_tab = 0;
    {
        uint8_t ob = t.u8();
        f.opr = ob % 7;
        f.opr_style = (ob / 7) % 4; // spare bits of the same byte
        short_tab = ob / 28;
    }
    f.L = R(1 + t.u8() % 4);
    f.Lc = R(1 + t.u8() % 4);
    gen_partition(t, f.n, f.L, f.se);
    gen_partition(t, f.n, f.Lc, f.sec);
    // a table with fewer sets than the order, closed by the A_MF_NUL entry (the walk over the table stops there): the last
    // set(s) of a partition are left out - spare values of the operator byte
    if (short_tab == 7) { f.sec = f.se; f.Lc = f.L; f.shared = true; } // the same table for e and ec - handed over as ONE array
    if (short_tab == 8 && f.se.size() > 1) { f.se.pop_back(); if (f.se.size() > 2) { f.se.pop_back(); } }
    if (short_tab == 9 && f.sec.size() > 1) { f.sec.pop_back(); }
    flatten(f.se, f.me);
    flatten(f.sec, f.mec);
    f.kp.assign(size_t(f.n) * f.n, 0.0);
    f.ki.assign(size_t(f.n) * f.n, 0.0);
    f.kd.assign(size_t(f.n) * f.n, 0.0);
    if (!zero_rules)
    {
        for (auto &v : f.kp) { v = R(int(t.u8() % 11) - 5); }
        for (auto &v : f.ki) { v = R(int(t.u8() % 11) - 5) / 8; }
        for (auto &v : f.kd) { v = R(int(t.u8() % 11) - 5) / 4; }
    }
    uint8_t m = t.u8();
    f.use_kp = (m & 7) != 1;
    f.use_ki = (m & 7) != 2;
    f.use_kd = (m & 7) != 3;
    cx.hash.add(f.n | (f.opr << 8));
    for (R v : f.me) { cx.hash.addd(v); }
    for (R v : f.mec) { cx.hash.addd(v); }
}

// three ways of installing the relational operator in the public `opr` member: the setter, the pointer a_pid_fuzzy_opr() returns,
// the fuzzy.h function named directly in this translation unit (an inline copy with its own address), or a function of the caller
extern "C" {
#include "a/fuzzy.h"
}
static a_real vp_user_cap(a_real a, a_real b) { return a < b ? a : b; }
static a_real vp_user_cup_bounded(a_real a, a_real b) { a_real c = a + b; return c < 1 ? c : 1; }
static inline void install_opr(a_pid_fuzzy *ctx, unsigned opr, unsigned style)
{
    typedef a_real (*F)(a_real, a_real);
    static F const direct[7] = {a_fuzzy_equ, a_fuzzy_cap, a_fuzzy_cap_algebra, a_fuzzy_cap_bounded, a_fuzzy_cup, a_fuzzy_cup_algebra, a_fuzzy_cup_bounded};
    switch (style % 4)
    {
    default: case 0: a_pid_fuzzy_set_opr(ctx, opr); break;
    case 1: ctx->opr = a_pid_fuzzy_opr(opr); break;
    case 2: ctx->opr = direct[opr % 7]; break;
    case 3: ctx->opr = opr == A_PID_FUZZY_CAP ? vp_user_cap : opr == A_PID_FUZZY_CUP_BOUNDED ? vp_user_cup_bounded : direct[opr % 7]; break;
    }
}

// the seven operators, from the formulas documented in pid_fuzzy.h
static inline long double ref_opr(unsigned opr, long double a, long double b)
{
    switch (opr)
    {
    default:
    case A_PID_FUZZY_EQU: return sqrtl(a * b) * sqrtl(1 - (1 - a) * (1 - b));
    case A_PID_FUZZY_CAP: return a < b ? a : b;
    case A_PID_FUZZY_CAP_ALGEBRA: return a * b;
    case A_PID_FUZZY_CAP_BOUNDED: return a + b - 1 > 0 ? a + b - 1 : 0;
    case A_PID_FUZZY_CUP: return a > b ? a : b;
    case A_PID_FUZZY_CUP_ALGEBRA: return a + b - a * b;
    case A_PID_FUZZY_CUP_BOUNDED: return a + b < 1 ? a + b : 1;
    }
}

// the same formulas in R precision (the weights the library itself can represent)
static inline R ref_opr_d(unsigned opr, R a, R b)
{
    switch (opr)
    {
    default:
    case A_PID_FUZZY_EQU: return std::sqrt(a * b) * std::sqrt(1 - (1 - a) * (1 - b));
    case A_PID_FUZZY_CAP: return a < b ? a : b;
    case A_PID_FUZZY_CAP_ALGEBRA: return a * b;
    case A_PID_FUZZY_CAP_BOUNDED: { R c = a + b - 1; return c > 0 ? c : 0; }
    case A_PID_FUZZY_CUP: return a > b ? a : b;
    case A_PID_FUZZY_CUP_ALGEBRA: return a + b - a * b;
    case A_PID_FUZZY_CUP_BOUNDED: { R c = a + b; return c < 1 ? c : 1; }
    }
}

// active sets of a table at x (membership > epsilon), using liba's public dispatcher (validated separately by C13a)
static inline void active_sets(std::vector<MfSet> const &sets, R x, std::vector<unsigned> &idx, std::vector<R> &val)
{
    idx.clear();
    val.clear();
    for (unsigned i = 0; i < sets.size(); ++i)
    {
        R y = a_mf(sets[i].type, x, sets[i].par);
        if (y > std::numeric_limits<R>::epsilon()) // A_REAL_EPSILON of the build
        {
            idx.push_back(i);
            val.push_back(y);
        }
    }
}

// reference gain offsets: weighted mean of the consequents of the active rules (0 when no rule fires)
static inline void ref_gains(FuzzyCfg const &f, R e, R ec, long double out[3], bool *any)
{
    std::vector<unsigned> ie, iec;
    std::vector<R> ve, vec;
    active_sets(f.se, e, ie, ve);
    active_sets(f.sec, ec, iec, vec);
    long double sw = 0, s[3] = {0, 0, 0};
    for (size_t i = 0; i < ie.size(); ++i)
    {
        for (size_t j = 0; j < iec.size(); ++j)
        {
            long double w = ref_opr_d(f.opr, ve[i], vec[j]);
            size_t at = size_t(ie[i]) * f.n + iec[j];
            sw += w;
            s[0] += w * f.kp[at];
            s[1] += w * f.ki[at];
            s[2] += w * f.kd[at];
        }
    }
    bool fired = !ie.empty() && !iec.empty() && sw > 0;
    if (any) { *any = fired; }
    for (int k = 0; k < 3; ++k) { out[k] = fired ? s[k] / sw : 0; }
    if (!f.use_kp) { out[0] = 0; }
    if (!f.use_ki) { out[1] = 0; }
    if (!f.use_kd) { out[2] = 0; }
}
#endif
