#define VP_AMBIENT_ROUNDING 1 // results of this executor may not depend on the dynamic floating-point rounding mode (drv/vp.h)
// trees.cc — C01 (AVL), C02 (red-black), C03 (iterators + tear-down) executors.
// Build with -DVP_PROP=1|2|3 and, for C03, -DVP_RBT to select the container.
// Oracle: std::map model + full structural walk after every API call; recursive reference
// traversals for the iterator battery; free-on-hand-out for tear-down (ASan).
#include "../drv/enum.h"
#include "../drv/vp.h"
#include <algorithm>
#include <climits>
#include <map>
#include <set>
#include <vector>
extern "C" {
#include "a/avl.h"
#include "a/rbt.h"
}

#if VP_PROP == 2
#define VP_RBT 1
#endif

#ifdef VP_RBT
typedef a_rbt_node N;
typedef a_rbt R;
#define TF(f) a_rbt_##f
static char const *const kName = "rbt";
#else
typedef a_avl_node N;
typedef a_avl R;
#define TF(f) a_avl_##f
static char const *const kName = "avl";
#endif

struct Item
{
    N node;
    int key;
    int serial;
};
static inline Item *item(N *n) { return (Item *)((char *)n - offsetof(Item, node)); }
static void free_item(Item *it); // heap block or arena slot (below)

// The node layout depends on A_SIZE_POINTER: packed (colour / balance in the low bits of parent_) or separate members.
#ifdef VP_RBT
#if defined(A_SIZE_POINTER) && (A_SIZE_POINTER + 0 > 1)
static inline bool node_black(N const *n) { return (n->parent_ & 1) != 0; }
#else
#define VP_UNPACKED 1
static inline bool node_black(N const *n) { return n->color != 0; }
#endif
#else
#if defined(A_SIZE_POINTER) && (A_SIZE_POINTER + 0 > 3)
static inline int node_factor_raw(N const *n) { return int(n->parent_ & 3) - 1; } // 2 = the undefined bit pattern 11
#else
#define VP_UNPACKED 1
static inline int node_factor_raw(N const *n) { return (n->factor >= -1 && n->factor <= 1) ? n->factor : 2; }
#endif
#endif
static inline Item const *item(N const *n) { return (Item const *)((char const *)n - offsetof(Item, node)); }

// The comparison contract of the containers is the sign of the result only. The style is fixed per history:
// 0: -1/0/+1, 1: the key difference, 2: the difference times 1000, 3: INT_MIN / 0 / INT_MAX, 4..7: asymmetric mixes.
static int g_cmp_style = 0;
static inline int cmp_shape(int ka, int kb)
{
    int s = (ka > kb) - (ka < kb);
    switch (g_cmp_style & 7)
    {
    default: case 0: return s;
    case 1: return ka - kb;
    case 2: return (ka - kb) * 1000;
    case 3: return s > 0 ? INT_MAX : s < 0 ? INT_MIN : 0;
    case 4: return s > 0 ? 2 : s;
    case 5: return s < 0 ? -2 : s;
    case 6: return s > 0 ? ka - kb + 1 : s;
    case 7: return s < 0 ? INT_MIN : ka - kb;
    }
}
static int cmp_nodes(void const *a, void const *b)
{
    return cmp_shape(item((N const *)a)->key, item((N const *)b)->key);
}
static int cmp_key(void const *ctx, void const *b)
{
    return cmp_shape(*(int const *)ctx, item((N const *)b)->key);
}

enum
{
    L_RM_LEAF, L_RM_ONE, L_RM_TWO_SUCC_RIGHT, L_RM_TWO_SUCC_DEEP, L_DUP, L_ROOT_CHANGED, L_SIZE16, L_SIZE64,
    L_INS_AFTER_RM, L_RM_BLACK, L_BATTERY, L_TEAR_INTERRUPT, L_TEAR_RESTART, L_EMPTIED, L_LEFT_ONLY, L_RIGHT_ONLY, L_RM_ROOT, L_MANUAL_INSERT, L_TEAR_START_NODE, L_CMP_MAGNITUDE, L_TALL, L_DUP_SELF, L_SPREAD_NODES
};
static char const *const labels[] = {"remove_leaf", "remove_one_child", "remove_two_children_successor_is_right_child",
                                     "remove_two_children_deeper_successor", "duplicate_insert", "root_changed", "size_ge_16", "size_ge_64",
                                     "insert_after_remove", "rbt_removed_black_node", "iterator_battery_on_ge5_nodes", "tear_interrupted_midway",
                                     "tear_restarted_from_null", "tree_emptied_and_refilled", "has_left_only_node", "has_right_only_node", "remove_root", "manual_link_plus_insert_adjust", "tear_started_at_arbitrary_node", "comparator_returns_magnitudes_not_just_signs", "tall_minimal_shape_143_to_28656_nodes", "resident_element_offered_to_insert_again", "nodes_spread_over_heap_and_arenas_more_than_4GiB_apart", nullptr};
static char const *const metrics[] = {"max_live_nodes", "max_height", nullptr};
static uint8_t const dict[] = {4, 5, 6, 12, 13, 20, 21};

#if VP_PROP == 3
#define PROP_ID "C03"
#elif VP_PROP == 2
#define PROP_ID "C02"
#else
#define PROP_ID "C01"
#endif

static vp_info const info = {
    PROP_ID,
#ifdef VP_RBT
    "rbt",
#else
    "avl",
#endif
    "", labels, metrics, 400, dict, sizeof(dict)};
extern "C" vp_info const *vp_get_info(void) { return &info; }

// ---------------------------------------------------------------------------------------
struct Tree
{
    R root;
    std::map<int, Item *> model;
    int serial = 0;
    Tree() { TF(root)(&root); }
};

struct Walk
{
    size_t count = 0;
    size_t limit = 0;
    std::vector<N *> inorder;
    bool left_only = false, right_only = false;
};

// returns height (AVL: node count height; RBT: black height), throws on violation
static int walk(Ctx &cx, N *n, N *parent, Walk &w, int depth, bool parent_red, int &height_out)
{
    if (!n)
    {
        height_out = 0;
        return 0; // black height of nil counted as 0
    }
    VP_CHECK(cx, depth <= 80, "structure:cycle_or_depth", "%s: depth > 80 while walking (cycle?)", kName);
    VP_CHECK(cx, ++w.count <= w.limit, "structure:more_nodes_than_model", "%s: walk visits more nodes than were inserted (cycle or resurrected node)", kName);
    VP_CHECK(cx, TF(parent)(n) == parent, "structure:parent_link", "%s: node key %d: parent link %p, expected %p", kName, item(n)->key, (void *)TF(parent)(n), (void *)parent);
    if (n->left && !n->right) { w.left_only = true; }
    if (!n->left && n->right) { w.right_only = true; }
    int hl, hr;
#ifdef VP_RBT
    bool red = !node_black(n);
    VP_CHECK(cx, !(red && parent_red), "rbt:red_red", "rbt: red node key %d has a red parent", item(n)->key);
    int bl = walk(cx, n->left, n, w, depth + 1, red, hl);
    w.inorder.push_back(n);
    int br = walk(cx, n->right, n, w, depth + 1, red, hr);
    VP_CHECK(cx, bl == br, "rbt:black_height", "rbt: node key %d: black heights %d / %d differ", item(n)->key, bl, br);
    height_out = 1 + std::max(hl, hr);
    return bl + (red ? 0 : 1);
#else
    (void)parent_red;
    walk(cx, n->left, n, w, depth + 1, false, hl);
    w.inorder.push_back(n);
    walk(cx, n->right, n, w, depth + 1, false, hr);
    int stored = node_factor_raw(n);
    VP_CHECK(cx, stored != 2, "avl:factor_undefined", "avl: node key %d has an undefined balance factor", item(n)->key);
    VP_CHECK(cx, hr - hl >= -1 && hr - hl <= 1, "avl:unbalanced", "avl: node key %d: subtree heights %d / %d", item(n)->key, hl, hr);
    VP_CHECK(cx, stored == hr - hl, "avl:factor_mismatch", "avl: node key %d: stored factor %d, heights %d / %d", item(n)->key, stored, hl, hr);
    height_out = 1 + std::max(hl, hr);
    return 0;
#endif
}

static void check_tree(Ctx &cx, Tree &t, Walk *wout = nullptr)
{
    Walk w;
    w.limit = t.model.size();
    int h = 0;
#ifdef VP_RBT
    if (t.root.node) { VP_CHECK(cx, node_black(t.root.node), "rbt:root_red", "rbt: root is red"); }
#endif
    walk(cx, t.root.node, nullptr, w, 0, false, h);
    VP_CHECK(cx, w.count == t.model.size(), "structure:lost_nodes", "%s: walk finds %zu nodes, model has %zu", kName, w.count, t.model.size());
    size_t i = 0;
    for (auto &kv : t.model)
    {
        VP_CHECK(cx, w.inorder[i] == &kv.second->node, "structure:order_or_identity", "%s: in-order position %zu holds key %d, model expects key %d", kName, i, item(w.inorder[i])->key, kv.first);
        ++i;
    }
    cx.metric(0, double(t.model.size()));
    cx.metric(1, double(h));
    if (w.left_only) { cx.label(L_LEFT_ONLY); }
    if (w.right_only) { cx.label(L_RIGHT_ONLY); }
    if (wout) { *wout = w; }
}

// ---------------------------------------------------------------------------------------
// reference traversals
static void ref_pre(N *n, std::vector<N *> &v, bool mirror)
{
    if (!n) { return; }
    v.push_back(n);
    ref_pre(mirror ? n->right : n->left, v, mirror);
    ref_pre(mirror ? n->left : n->right, v, mirror);
}
static void ref_post(N *n, std::vector<N *> &v, bool mirror)
{
    if (!n) { return; }
    ref_post(mirror ? n->right : n->left, v, mirror);
    ref_post(mirror ? n->left : n->right, v, mirror);
    v.push_back(n);
}
static void ref_in(N *n, std::vector<N *> &v)
{
    if (!n) { return; }
    ref_in(n->left, v);
    v.push_back(n);
    ref_in(n->right, v);
}

static void cmp_seq(Ctx &cx, char const *what, std::vector<N *> const &got, std::vector<N *> const &want)
{
    size_t n = std::min(got.size(), want.size());
    for (size_t i = 0; i < n; ++i)
    {
        VP_CHECK(cx, got[i] == want[i], what, "%s %s: position %zu yields key %d, reference key %d", kName, what, i, item(got[i])->key, item(want[i])->key);
    }
    VP_CHECK(cx, got.size() == want.size(), what, "%s %s: yields %zu nodes, reference %zu", kName, what, got.size(), want.size());
}

#ifdef VP_RBT
#define FOREACH(cur, r) a_rbt_foreach(cur, r)
#define FOREACH_R(cur, r) a_rbt_foreach_reverse(cur, r)
#define PRE_FOREACH(cur, r) a_rbt_pre_foreach(cur, r)
#define PRE_FOREACH_R(cur, r) a_rbt_pre_foreach_reverse(cur, r)
#define POST_FOREACH(cur, r) a_rbt_post_foreach(cur, r)
#define POST_FOREACH_R(cur, r) a_rbt_post_foreach_reverse(cur, r)
#define UFOREACH(cur, r) A_RBT_FOREACH(cur, r)
#define UFOREACH_R(cur, r) A_RBT_FOREACH_REVERSE(cur, r)
#define UPRE_FOREACH(cur, r) A_RBT_PRE_FOREACH(cur, r)
#define UPRE_FOREACH_R(cur, r) A_RBT_PRE_FOREACH_REVERSE(cur, r)
#define UPOST_FOREACH(cur, r) A_RBT_POST_FOREACH(cur, r)
#define UPOST_FOREACH_R(cur, r) A_RBT_POST_FOREACH_REVERSE(cur, r)
#define FORTEAR(cur, next, r) A_RBT_FORTEAR(cur, next, r)
#define LFORTEAR(cur, next, r) a_rbt_fortear(cur, next, r)
#else
#define FOREACH(cur, r) a_avl_foreach(cur, r)
#define FOREACH_R(cur, r) a_avl_foreach_reverse(cur, r)
#define PRE_FOREACH(cur, r) a_avl_pre_foreach(cur, r)
#define PRE_FOREACH_R(cur, r) a_avl_pre_foreach_reverse(cur, r)
#define POST_FOREACH(cur, r) a_avl_post_foreach(cur, r)
#define POST_FOREACH_R(cur, r) a_avl_post_foreach_reverse(cur, r)
#define UFOREACH(cur, r) A_AVL_FOREACH(cur, r)
#define UFOREACH_R(cur, r) A_AVL_FOREACH_REVERSE(cur, r)
#define UPRE_FOREACH(cur, r) A_AVL_PRE_FOREACH(cur, r)
#define UPRE_FOREACH_R(cur, r) A_AVL_PRE_FOREACH_REVERSE(cur, r)
#define UPOST_FOREACH(cur, r) A_AVL_POST_FOREACH(cur, r)
#define UPOST_FOREACH_R(cur, r) A_AVL_POST_FOREACH_REVERSE(cur, r)
#define FORTEAR(cur, next, r) A_AVL_FORTEAR(cur, next, r)
#define LFORTEAR(cur, next, r) a_avl_fortear(cur, next, r)
#endif

#define COLLECT(MACRO, vec, lim)                                          \
    do {                                                                  \
        vec.clear();                                                      \
        MACRO(cur, root)                                                  \
        {                                                                 \
            vec.push_back(cur);                                           \
            if (vec.size() > (lim)) { break; }                            \
        }                                                                 \
    } while (0)
#define UCOLLECT(MACRO, vec, lim)                                         \
    do {                                                                  \
        N *cur;                                                           \
        vec.clear();                                                      \
        MACRO(cur, root)                                                  \
        {                                                                 \
            vec.push_back(cur);                                           \
            if (vec.size() > (lim)) { break; }                            \
        }                                                                 \
    } while (0)

// all six iterators (both macro spellings), successor/predecessor inverses
static void battery(Ctx &cx, R *root, size_t n)
{
    std::vector<N *> want, got;
    size_t lim = n + 2;
    ref_in(root->node, want);
    VP_CHECK(cx, want.size() == n, "iter:reference", "reference traversal finds %zu nodes, expected %zu", want.size(), n);
    for (size_t i = 1; i < want.size(); ++i)
    {
        VP_CHECK(cx, item(want[i - 1])->key < item(want[i])->key, "iter:inorder_not_ascending", "links are not in search order");
    }
    COLLECT(FOREACH, got, lim);
    cmp_seq(cx, "iter:foreach", got, want);
    UCOLLECT(UFOREACH, got, lim);
    cmp_seq(cx, "iter:FOREACH", got, want);
    std::reverse(want.begin(), want.end());
    COLLECT(FOREACH_R, got, lim);
    cmp_seq(cx, "iter:foreach_reverse", got, want);
    UCOLLECT(UFOREACH_R, got, lim);
    cmp_seq(cx, "iter:FOREACH_REVERSE", got, want);
    std::reverse(want.begin(), want.end());
    // successor / predecessor are mutually inverse; ends map to null; head/tail
    VP_CHECK(cx, TF(head)(root) == (n ? want.front() : nullptr), "iter:head", "%s head is not the smallest element", kName);
    VP_CHECK(cx, TF(tail)(root) == (n ? want.back() : nullptr), "iter:tail", "%s tail is not the largest element", kName);
    for (size_t i = 0; i < want.size(); ++i)
    {
        N *nx = TF(next)(want[i]);
        N *pv = TF(prev)(want[i]);
        VP_CHECK(cx, nx == (i + 1 < want.size() ? want[i + 1] : nullptr), "iter:next", "%s next(key %d) wrong", kName, item(want[i])->key);
        VP_CHECK(cx, pv == (i ? want[i - 1] : nullptr), "iter:prev", "%s prev(key %d) wrong", kName, item(want[i])->key);
        if (nx) { VP_CHECK(cx, TF(prev)(nx) == want[i], "iter:prev_next_inverse", "%s prev(next(key %d)) != self", kName, item(want[i])->key); }
        if (pv) { VP_CHECK(cx, TF(next)(pv) == want[i], "iter:next_prev_inverse", "%s next(prev(key %d)) != self", kName, item(want[i])->key); }
    }
    want.clear();
    ref_pre(root->node, want, false);
    COLLECT(PRE_FOREACH, got, lim);
    cmp_seq(cx, "iter:pre_foreach", got, want);
    UCOLLECT(UPRE_FOREACH, got, lim);
    cmp_seq(cx, "iter:PRE_FOREACH", got, want);
    want.clear();
    ref_pre(root->node, want, true);
    COLLECT(PRE_FOREACH_R, got, lim);
    cmp_seq(cx, "iter:pre_foreach_reverse", got, want);
    UCOLLECT(UPRE_FOREACH_R, got, lim);
    cmp_seq(cx, "iter:PRE_FOREACH_REVERSE", got, want);
    want.clear();
    ref_post(root->node, want, false);
    COLLECT(POST_FOREACH, got, lim);
    cmp_seq(cx, "iter:post_foreach", got, want);
    UCOLLECT(UPOST_FOREACH, got, lim);
    cmp_seq(cx, "iter:POST_FOREACH", got, want);
    want.clear();
    ref_post(root->node, want, true);
    COLLECT(POST_FOREACH_R, got, lim);
    cmp_seq(cx, "iter:post_foreach_reverse", got, want);
    UCOLLECT(UPOST_FOREACH_R, got, lim);
    cmp_seq(cx, "iter:POST_FOREACH_REVERSE", got, want);
}

// tear-down with interruption after j hand-outs; mode 0: continue with saved next,
// mode 1: restart with next = NULL, mode 2: use the FORTEAR macro uninterrupted
static void tear_down(Ctx &cx, Tree &t, size_t j, int mode, bool do_free, long start = -1)
{
    size_t n = t.model.size();
    R *root = &t.root;
    std::map<N *, N *> parent_of; // original parent
    std::map<N *, int> kids_left; // number of original children not yet handed out
    {
        std::vector<N *> all;
        ref_in(root->node, all);
        for (N *x : all)
        {
            parent_of[x] = TF(parent)(x);
            kids_left[x] = (x->left ? 1 : 0) + (x->right ? 1 : 0);
        }
    }
    std::set<N *> out;
    size_t yielded = 0;
    auto handed = [&](N *cur) {
        VP_CHECK(cx, parent_of.count(cur) == 1, "tear:unknown_node", "%s tear hands out a pointer that is not an element", kName);
        VP_CHECK(cx, out.insert(cur).second, "tear:twice", "%s tear hands out an element twice", kName);
        VP_CHECK(cx, kids_left[cur] == 0, "tear:parent_before_child", "%s tear hands out a parent before its children", kName);
        N *p = parent_of[cur];
        if (p) { --kids_left[p]; }
        ++yielded;
        VP_CHECK(cx, yielded <= n, "tear:too_many", "%s tear hands out more elements than the tree holds", kName);
        if (do_free)
        {
            memset((void *)cur, 0xDD, sizeof(N)); // poison the links, then free (ASan sees later reads)
            free_item(item(cur));
        }
    };
    if (mode == 2)
    {
        // both spellings of the macro (loop variables of the caller / declared by the macro)
        if (j & 1) { N *cur, *next; FORTEAR(cur, next, root) { handed(cur); } }
        else { LFORTEAR(cur, next, root) { handed(cur); } }
    }
    else
    {
        N *next = nullptr;
        if (start >= 0 && n)
        {
            // the documented input of the cursor: an arbitrary starting node (in-order rank `start`)
            std::vector<N *> all;
            ref_in(root->node, all);
            next = all[size_t(start) % all.size()];
            cx.label(L_TEAR_START_NODE);
        }
        N *cur;
        size_t k = 0;
        while (k < j && (cur = TF(tear)(root, &next)) != nullptr)
        {
            handed(cur);
            ++k;
        }
        if (j > 0 && j < n) { cx.label(L_TEAR_INTERRUPT); }
        // after the interruption everything reachable must be exactly the remaining elements
        {
            std::vector<N *> rest;
            std::vector<N *> stack;
            if (root->node) { stack.push_back(root->node); }
            while (!stack.empty())
            {
                N *x = stack.back();
                stack.pop_back();
                VP_CHECK(cx, parent_of.count(x) == 1 && out.count(x) == 0, "tear:dangling_link", "%s after %zu tear steps a link still reaches a handed-out element", kName, k);
                rest.push_back(x);
                VP_CHECK(cx, rest.size() <= n, "tear:cycle", "%s cycle after interrupted tear", kName);
                if (x->left) { stack.push_back(x->left); }
                if (x->right) { stack.push_back(x->right); }
            }
            VP_CHECK(cx, rest.size() + yielded == n, "tear:lost", "%s after %zu tear steps %zu elements reachable, expected %zu", kName, k, rest.size(), n - yielded);
        }
        if (mode == 1)
        {
            next = nullptr;
            cx.label(L_TEAR_RESTART);
        }
        while ((cur = TF(tear)(root, &next)) != nullptr) { handed(cur); }
    }
    VP_CHECK(cx, yielded == n, "tear:count", "%s tear handed out %zu of %zu elements", kName, yielded, n);
    VP_CHECK(cx, root->node == nullptr, "tear:root_not_empty", "%s root not null after tear-down", kName);
    t.model.clear();
}

// ---------------------------------------------------------------------------------------
// Nodes are caller memory: nothing says they come from one heap. In half of the histories the elements are spread over the heap
// and three mapped arenas whose addresses differ in the upper 32 bits (below 2 GiB, and two far-apart places in the upper half of
// the address space), so that a parent and its child can lie more than 4 GiB apart. Arena slots are poisoned while they are not
// handed out (ASan), like freed heap blocks.
#include <sys/mman.h>
#include <sanitizer/asan_interface.h>
struct Arena { uint8_t *base = nullptr; size_t cap = 0, used = 0; };
static Arena g_arena[3];
static bool g_spread = false;
static void arenas_reset()
{
    static bool init = false;
    if (!init)
    {
        init = true;
        static uintptr_t const hint[3] = {uintptr_t(0x10000000ull), uintptr_t(0x200000000000ull), uintptr_t(0x500000000000ull)};
        for (int i = 0; i < 3; ++i)
        {
            size_t cap = size_t(4) << 20;
            void *p = mmap((void *)hint[i], cap, PROT_READ | PROT_WRITE, MAP_PRIVATE | MAP_ANONYMOUS | MAP_NORESERVE, -1, 0);
            if (p != MAP_FAILED) { g_arena[i].base = (uint8_t *)p; g_arena[i].cap = cap; }
        }
    }
    for (auto &a : g_arena)
    {
        if (a.base) { ASAN_UNPOISON_MEMORY_REGION(a.base, a.used); ASAN_POISON_MEMORY_REGION(a.base, a.cap); }
        a.used = 0;
    }
}
static inline Arena *arena_of(void const *p)
{
    for (auto &a : g_arena) { if (a.base && (uint8_t const *)p >= a.base && (uint8_t const *)p < a.base + a.cap) { return &a; } }
    return nullptr;
}
static void free_item(Item *it)
{
    if (arena_of(it)) { ASAN_POISON_MEMORY_REGION(it, sizeof(Item)); }
    else { free(it); }
}
static Item *new_item(Tree &t, int key)
{
    Item *it = nullptr;
    if (g_spread)
    {
        unsigned r = unsigned(t.serial) % 4;
        if (r < 3 && g_arena[r].base && g_arena[r].used + sizeof(Item) <= g_arena[r].cap)
        {
            it = (Item *)(g_arena[r].base + g_arena[r].used);
            g_arena[r].used += (sizeof(Item) + 15) & ~size_t(15);
            ASAN_UNPOISON_MEMORY_REGION(it, sizeof(Item));
        }
    }
    if (!it) { it = (Item *)malloc(sizeof(Item)); }
    memset(it, 0xCC, sizeof(Item));
    it->key = key;
    it->serial = t.serial++;
    return it;
}

static void snapshot(Tree &t, std::vector<uint8_t> &s)
{
    s.clear();
    for (auto &kv : t.model)
    {
        uint8_t const *p = (uint8_t const *)&kv.second->node;
        s.insert(s.end(), p, p + sizeof(N));
    }
    uint8_t const *p = (uint8_t const *)&t.root;
    s.insert(s.end(), p, p + sizeof(R));
}

static void free_all(Tree &t)
{
    for (auto &kv : t.model) { free_item(kv.second); }
    t.model.clear();
}

static bool g_offer_resident = false; // the next duplicate insert offers the resident element itself instead of a second object
static void do_insert(Ctx &cx, Tree &t, int key, bool &inserted)
{
    auto f = t.model.find(key);
    if (f != t.model.end() && g_offer_resident)
    {
        // inserting the very object that is already in the tree: nothing may change, the object itself is returned
        std::vector<uint8_t> before, after;
        snapshot(t, before);
        N *res = TF(insert)(&t.root, &f->second->node, cmp_nodes);
        snapshot(t, after);
        inserted = false;
        cx.label(L_DUP);
        cx.label(L_DUP_SELF);
        cx.log("insert(%d) -> the resident element itself\n", key);
        VP_CHECK(cx, res == &f->second->node, "insert:duplicate_wrong_return", "%s insert of the resident element of key %d did not return it", kName, key);
        VP_CHECK(cx, before == after, "insert:duplicate_modified_tree", "%s insert of the resident element of key %d changed node/root bytes", kName, key);
        return;
    }
    Item *it = new_item(t, key);
    std::vector<uint8_t> before, after;
    if (f != t.model.end()) { snapshot(t, before); }
    N *res;
    if (f == t.model.end() && (it->serial & 3) == 1)
    {
        // the usual way of calling insert for a key known to be absent: the returned pointer is not looked at
        (void)TF(insert)(&t.root, &it->node, cmp_nodes);
        res = nullptr;
    }
    else { res = TF(insert)(&t.root, &it->node, cmp_nodes); }
    if (f == t.model.end())
    {
        inserted = true;
        t.model[key] = it;
        cx.log("insert(%d) -> new\n", key);
        if (res != nullptr)
        {
            cx.fail("insert:absent_key_rejected", "%s insert of absent key %d returned a node (key %d)", kName, key, item(res)->key);
        }
    }
    else
    {
        inserted = false;
        cx.label(L_DUP);
        cx.log("insert(%d) -> duplicate\n", key);
        snapshot(t, after);
        bool same = before == after;
        bool resident = res == &f->second->node;
        if (res == nullptr)
        {
            // the duplicate was linked in: it now belongs to the tree; do not free it
            cx.fail("insert:duplicate_linked", "%s insert of resident key %d returned null (element linked twice)", kName, key);
        }
        free_item(it);
        VP_CHECK(cx, resident, "insert:duplicate_wrong_return", "%s duplicate insert of key %d did not return the resident element", kName, key);
        VP_CHECK(cx, same, "insert:duplicate_modified_tree", "%s duplicate insert of key %d changed node/root bytes", kName, key);
    }
}

static int do_remove(Ctx &cx, Tree &t, int key)
{
    int kind = 0;
    if (t.model.empty()) { return 0; }
    auto f = t.model.lower_bound(key);
    if (f == t.model.end()) { --f; }
    Item *it = f->second;
    N *n = &it->node;
    if (n == t.root.node) { cx.label(L_RM_ROOT); }
    if (!n->left && !n->right) { cx.label(L_RM_LEAF); }
    else if (!n->left || !n->right) { cx.label(L_RM_ONE); }
    else if (!n->right->left) { cx.label(L_RM_TWO_SUCC_RIGHT); kind = 2; }
    else { cx.label(L_RM_TWO_SUCC_DEEP); kind = 2; }
#ifdef VP_RBT
    {
        // the colour that physically leaves the tree: the node's own, or its successor's
        N *gone = n;
        if (n->left && n->right)
        {
            gone = n->right;
            while (gone->left) { gone = gone->left; }
        }
        if (node_black(gone)) { cx.label(L_RM_BLACK); }
    }
#endif
    cx.log("remove(%d)\n", f->first);
    TF(remove)(&t.root, n);
    t.model.erase(f);
    memset((void *)&it->node, 0xDD, sizeof(N));
    free_item(it);
    return kind;
}

static void do_search(Ctx &cx, Tree &t, int key)
{
    N *r = TF(search)(&t.root, &key, cmp_key);
    auto f = t.model.find(key);
    cx.log("search(%d) -> %s\n", key, r ? "found" : "absent");
    if (f == t.model.end()) { VP_CHECK(cx, r == nullptr, "search:found_absent", "%s search(%d) found an element that is not present", kName, key); }
    else { VP_CHECK(cx, r == &f->second->node, "search:missed_present", "%s search(%d) did not return the resident element", kName, key); }
}

// Tall trees: the minimal-node AVL shape of a given height (Fibonacci tree, left- or right-leaning), keys in in-order, inserted
// level by level (no rotation is needed on the way), 143 .. 28656 nodes; then a few removals at the ends, at the root and at
// random keys, each followed by the full walk. A removal at the shallow end shrinks a subtree at every level up to the root -
// the longest rebalancing walk a tree of that height allows. Milliseconds per case: rapidcheck processes only (VP_NO_HEAVY).
static void tall_shape(unsigned h, int base, unsigned depth, bool mirror, std::vector<std::pair<unsigned, int>> &out, std::vector<int> const &cnt)
{
    if (h == 0) { return; }
    unsigned hl = mirror ? (h >= 2 ? h - 2 : 0) : h - 1, hr = mirror ? h - 1 : (h >= 2 ? h - 2 : 0);
    int nl = cnt[hl];
    out.push_back({depth, base + nl});
    tall_shape(hl, base, depth + 1, mirror, out, cnt);
    tall_shape(hr, base + nl + 1, depth + 1, mirror, out, cnt);
}
static void tall_scenario(Tape &tp, Ctx &cx, Tree &t)
{
#if VP_PROP == 3
    static unsigned const heights[] = {8, 10, 11, 12, 13, 14}; // every traversal is run after every removal: smaller trees
#else
    static unsigned const heights[] = {10, 14, 17, 18, 19, 20};
#endif
    unsigned h = heights[tp.u8() % 6];
    bool mirror = tp.coin();
    std::vector<int> cnt(h + 1, 0);
    for (unsigned i = 1; i <= h; ++i) { cnt[i] = cnt[i - 1] + (i >= 2 ? cnt[i - 2] : 0) + 1; }
    std::vector<std::pair<unsigned, int>> order;
    tall_shape(h, 0, 0, mirror, order, cnt);
    std::stable_sort(order.begin(), order.end(), [](std::pair<unsigned, int> const &a, std::pair<unsigned, int> const &b) { return a.first < b.first; });
    cx.label(L_TALL);
    cx.hash.add(0x7A11u | (h << 16) | (unsigned(mirror) << 24));
    cx.log("tall tree: minimal shape of height %u (%d nodes, %s-leaning)\n", h, cnt[h], mirror ? "right" : "left");
    for (auto const &dk : order)
    {
        Item *it = new_item(t, dk.second);
        N *res = TF(insert)(&t.root, &it->node, cmp_nodes);
        if (res != nullptr)
        {
            free_item(it);
            cx.fail("insert:absent_key_rejected", "%s insert of absent key %d returned a node", kName, dk.second);
        }
        t.model[dk.second] = it;
    }
    check_tree(cx, t);
    unsigned k = 1 + tp.u8() % 6;
    for (unsigned i = 0; i < k && !t.model.empty(); ++i)
    {
        int key;
        switch (tp.u8() % 5)
        {
        case 0: key = t.model.begin()->first; break;
        case 1: key = t.model.rbegin()->first; break;
        case 2: key = item(t.root.node)->key; break;
        case 3: key = int(tp.u16() % unsigned(cnt[h])); break;
        default: key = mirror ? t.model.begin()->first : t.model.rbegin()->first; break; // the shallow end
        }
        cx.hash.add(uint64_t(key));
        ++cx.rep->subcases;
        do_remove(cx, t, key);
        check_tree(cx, t);
#if VP_PROP == 3
        battery(cx, &t.root, t.model.size());
#endif
    }
    cx.rep->nontrivial = true;
}

static void run_case(Tape &tp, Ctx &cx)
{
    Tree t;
    static int const usizes[] = {8, 16, 4, 64, 256, 32, 12, 128};
    uint8_t ub = tp.u8();
    int U = usizes[ub % 8];
    g_cmp_style = (ub >> 3) & 7; // the upper bits of the same byte: saved tapes keep their meaning, with the plain comparator for small values
#if VP_PROP == 3
    unsigned period = 1 + tp.u8() % 8;
    unsigned tear_j = tp.u8();
    int tear_mode = tp.u8() % 3;
    long tear_start = (tp.u8() % 3 == 0) ? long(tp.u8()) : -1;
#endif
    g_spread = (tp.tail() & 0x40) != 0;
    arenas_reset();
    if (g_spread) { cx.label(L_SPREAD_NODES); }
    cx.hash.add(uint64_t(U));
    cx.log("%s, key universe %d, comparator style %d%s\n", kName, U, g_cmp_style, g_spread ? ", nodes spread over the heap and three distant arenas" : "");
    cx.hash.add(uint64_t(g_cmp_style) << 16);
    if (g_cmp_style) { cx.label(L_CMP_MAGNITUDE); }
    unsigned nins = 0, nrm = 0, nops = 0, ins_after_rm = 0, two_child = 0;
    bool emptied = false;
    struct Cleanup
    {
        Tree &t;
        ~Cleanup() { free_all(t); }
    } cleanup{t};
    (void)cleanup;
    {
        static bool const no_heavy = getenv("VP_NO_HEAVY") != nullptr;
        if ((ub >> 6) == 3 && !no_heavy && tp.u8() % 4 == 0)
        {
            tall_scenario(tp, cx, t);
#if VP_PROP == 3
            tear_down(cx, t, tear_j, tear_mode, true, tear_start);
#endif
            return;
        }
    }
    while (!tp.done() && nops < 400)
    {
        ++nops;
        ++cx.rep->subcases;
        uint8_t opb = tp.u8();
        uint8_t op = opb % 10;
        g_offer_resident = ((opb / 10) & 3) == 3; // spare bits of the operation byte
        int key = int(tp.u8()) % U;
        cx.hash.add(op);
        cx.hash.add(uint64_t(key));
        N *oldroot = t.root.node;
        bool mutated = false;
        switch (op)
        {
        case 0:
            do_search(cx, t, key);
            break;
        case 1: case 2: case 3: {
            bool ins = false;
            do_insert(cx, t, key, ins);
            if (ins)
            {
                ++nins;
                mutated = true;
                if (nrm) { ++ins_after_rm; cx.label(L_INS_AFTER_RM); }
                if (emptied) { cx.label(L_EMPTIED); }
            }
            break; }
        case 4: case 5:
            if (!t.model.empty())
            {
                if (do_remove(cx, t, key) == 2) { two_child = 1; }
                ++nrm;
                mutated = true;
                if (t.model.empty()) { emptied = true; }
            }
            break;
        case 6:
            if (!t.model.empty())
            {
                auto f = t.model.lower_bound(key);
                if (f == t.model.end()) { --f; }
                bool ins = false;
                do_insert(cx, t, f->first, ins);
            }
            break;
        case 9: {
            // the documented two-step insertion: the caller descends and links, then calls *_insert_adjust
            if (t.model.count(key)) { do_search(cx, t, key); break; }
            Item *it = new_item(t, key);
            N *parent = nullptr, **link = &t.root.node;
            while (*link)
            {
                parent = *link;
                link = key < item(parent)->key ? &parent->left : &parent->right;
            }
            *link = TF(init)(&it->node, parent);
            TF(insert_adjust)(&t.root, &it->node);
            t.model[key] = it;
            cx.log("manual insert(%d) + insert_adjust\n", key);
            cx.label(L_MANUAL_INSERT);
            ++nins;
            mutated = true;
            if (nrm) { ++ins_after_rm; cx.label(L_INS_AFTER_RM); }
            break; }
        case 8: {
            // bulk insert: run of keys ascending / descending / zig-zag / stride (3 bytes build a large tree)
            uint8_t b = tp.u8();
            int cnt = 2 + (b & 31), pat = b >> 6;
            cx.hash.add(b);
            for (int i = 0; i < cnt; ++i)
            {
                int k;
                switch (pat)
                {
                case 0: k = key + i; break;
                case 1: k = key - i; break;
                case 2: k = key + ((i & 1) ? -(i + 1) / 2 : i / 2); break;
                default: k = key + i * 7; break;
                }
                k = ((k % U) + U) % U;
                bool ins = false;
                do_insert(cx, t, k, ins);
                if (ins)
                {
                    ++nins;
                    mutated = true;
                    if (nrm) { ++ins_after_rm; cx.label(L_INS_AFTER_RM); }
                }
                check_tree(cx, t);
            }
            break; }
        default:
#if VP_PROP == 3
            check_tree(cx, t);
            battery(cx, &t.root, t.model.size());
            if (t.model.size() >= 5) { cx.label(L_BATTERY); }
#else
            do_search(cx, t, key);
#endif
            break;
        }
        if (t.root.node != oldroot) { cx.label(L_ROOT_CHANGED); }
        if (t.model.size() >= 16) { cx.label(L_SIZE16); }
        if (t.model.size() >= 64) { cx.label(L_SIZE64); }
        check_tree(cx, t);
#if VP_PROP == 3
        if (mutated && (nops % period) == 0)
        {
            battery(cx, &t.root, t.model.size());
            if (t.model.size() >= 5) { cx.label(L_BATTERY); }
        }
#else
        (void)mutated;
#endif
    }
#if VP_PROP == 3
    {
        Walk w;
        check_tree(cx, t, &w);
        battery(cx, &t.root, t.model.size());
        size_t n = t.model.size();
        if (n >= 5 && w.left_only && w.right_only) { cx.rep->nontrivial = true; }
        size_t j = n ? tear_j % (n + 1) : 0;
        cx.hash.add(j);
        cx.hash.add(uint64_t(tear_mode));
        cx.log("tear-down of %zu elements: interrupt after %zu, mode %d\n", n, j, tear_mode);
        if (tear_start >= 0 && tear_mode == 2) { tear_mode = 0; }
        cx.hash.add(uint64_t(tear_start + 1));
        tear_down(cx, t, j, tear_mode, true, tear_start);
    }
#else
    if (nins >= 8 && two_child && ins_after_rm) { cx.rep->nontrivial = true; }
#endif
}
VP_DEFINE_RUN(run_case)

// ---------------------------------------------------------------------------------------
#if VP_PROP == 3
// all insertion orders of n distinct keys, then every ordered pair of removals; after each
// mutation: structure + iterator battery; finally tear-down at every interruption point
static int enum_order(std::vector<int> const &order, vp_enum_stats *st, uint64_t &cnt, uint64_t &nt, std::unordered_set<uint64_t> &shapes)
{
    int n = int(order.size());
    int bad = 0;
    auto shape_of = [](N *root) {
        Hash h;
        std::vector<N *> v;
        ref_pre(root, v, false);
        for (N *x : v) { h.add(uint64_t(item(x)->key) * 4 + (x->left ? 1 : 0) + (x->right ? 2 : 0)); }
        return h.h;
    };
    for (int r1 = -1; r1 < n; ++r1)
    {
        for (int r2 = -1; r2 < n; ++r2)
        {
            if (r1 == -1 && r2 != -1) { continue; }
            if (r1 != -1 && r1 == r2) { continue; }
            // tear interruption points are only varied on the un-removed tree and one removal variant
            int jmax = (r2 == -1) ? n : 0;
            for (int j = 0; j <= jmax; ++j)
            {
                for (int mode = 0; mode < (jmax ? 2 : 1); ++mode)
                {
                    vp_report rep;
                    Ctx cx(&rep);
                    Tree t;
                    try
                    {
                        for (int k : order)
                        {
                            bool ins;
                            do_insert(cx, t, k, ins);
                        }
                        check_tree(cx, t);
                        if (j == 0 && mode == 0) { battery(cx, &t.root, t.model.size()); }
                        if (r1 >= 0)
                        {
                            do_remove(cx, t, r1);
                            check_tree(cx, t);
                            battery(cx, &t.root, t.model.size());
                        }
                        if (r2 >= 0)
                        {
                            do_remove(cx, t, r2);
                            check_tree(cx, t);
                            battery(cx, &t.root, t.model.size());
                        }
                        Walk w;
                        check_tree(cx, t, &w);
                        uint64_t sh = shape_of(t.root.node);
                        if (t.model.size() >= 5 && w.left_only && w.right_only && shapes.insert(sh).second) { ++nt; }
                        size_t jj = size_t(j) <= t.model.size() ? size_t(j) : t.model.size();
                        tear_down(cx, t, jmax ? jj : t.model.size() / 2, jmax ? mode : (r1 + r2) & 1, true, (jmax && mode == 1) ? long(j) : ((r1 >= 0 && r2 >= 0) ? long(r1 + r2) : -1));
                        ++cnt;
                    }
                    catch (vp_fail const &)
                    {
                        ++bad;
                        std::string s = rep.sig + ": " + rep.msg + " (insertion order";
                        for (int k : order) { s += " " + std::to_string(k); }
                        s += "; removals " + std::to_string(r1) + "," + std::to_string(r2) + "; tear j=" + std::to_string(j) + " mode " + std::to_string(mode) + ")";
                        st->violation(s);
                        // the tree may be in any state: leak it
                        t.model.clear();
                        return bad;
                    }
                    free_all(t);
                }
            }
        }
    }
    return bad;
}

extern "C" int vp_enum(unsigned shard, unsigned nshards, int tier, vp_enum_stats *st)
{
    int bad = 0;
    uint64_t cnt = 0, nt = 0;
    std::unordered_set<uint64_t> &shapes = st->s.distinct;
    int nmax = tier ? 8 : 6;
    for (int n = 1; n <= nmax; ++n)
    {
        std::vector<int> order(size_t(n), 0);
        for (int i = 0; i < n; ++i) { order[size_t(i)] = i; }
        uint64_t idx = 0, here = 0;
        do {
            if (idx++ % nshards != shard) { continue; }
            ++here;
            bad += enum_order(order, st, cnt, nt, shapes);
            if (bad) { break; }
        } while (std::next_permutation(order.begin(), order.end()));
        char nm[160];
        snprintf(nm, sizeof(nm), "%s: all insertion orders of %d distinct keys x every ordered removal pair x tear interruption points (this shard)", kName, n);
        st->domain(nm, here, bad == 0);
        if (bad) { break; }
    }
    st->s.evaluations = cnt;
    st->s.nontrivial = nt;
    return bad;
}
#endif
