/* math.c as a compiler without a bit-scan builtin sees it: the digit-by-digit bodies of a_u32_sqrt / a_u64_sqrt are selected
   (and the non-GNU spellings of everything else that asks A_PREREQ_GNUC). The library source itself is compiled unchanged. */
#include "a/a.h"
#undef A_PREREQ_GNUC
#define A_PREREQ_GNUC(maj, min) 0
#undef __has_builtin
#define __has_builtin(x) 0
#include "math.c"
#if defined(A_U32_BSR) || defined(A_U64_BSR)
#error "the bit-scan variant is still selected"
#endif
