#!/bin/sh
# one-time build of the generic drivers (no liba code inside); offline, files on disk only
set -e
cd "$(dirname "$0")"
mkdir -p build/drv evidence
clang++ -std=gnu++17 -O1 -g -I drv -c drv/rc_driver.cc -o build/drv/rc_driver.o &
clang++ -std=gnu++17 -O1 -g -I drv -c drv/fuzz_main.cc -o build/drv/fuzz_main.o &
clang++ -std=gnu++17 -O1 -g -I drv -c drv/replay_main.cc -o build/drv/replay_main.o &
clang++ -std=gnu++17 -O2 -I drv -c drv/enum_main.cc -o build/drv/enum_main.o &
wait
test -f build/drv/rc_driver.o && test -f build/drv/fuzz_main.o && test -f build/drv/replay_main.o && test -f build/drv/enum_main.o
echo "setup ok"
