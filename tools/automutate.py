#!/usr/bin/env python3
# automutate.py <PID> [--max N] [--seed S] [--files f1,f2] — systematic first-order mutants of the code a property is anchored in.
#
# The hand-planted mutants of tools/mutants.py and the seeded changes of the sub-agents are chosen by somebody; this tool is not:
# it takes the source lines the property's anchors name (`where: file:from-to`, whole file when no range is given), applies one
# small operator to one place (relational / arithmetic / logical operator swapped, a constant +-1, 0 <-> 1, a `++`/`--` flipped,
# `left` <-> `right`, `next` <-> `prev`, `head` <-> `tail`, a statement of the form `x = ...;` or a call statement deleted, an
# `if (c)` negated, an index +1), builds a scratch copy of src/ and include/ with it, and runs ./check <PID> --tier quick against
# that copy. A mutant that does not compile is dropped; one the check reports (exit 1) is CAUGHT; one it does not (exit 0) is a
# SURVIVOR and is printed with its diff for a human to classify: equivalent (no observable change inside the property's domain), or
# a gap of the check. Nothing is written to /repo or /verif; results go to stdout as JSON lines.
import argparse, json, os, random, re, shutil, subprocess, sys, tempfile, time
HERE = os.path.dirname(os.path.abspath(__file__))
VERIF = os.path.dirname(HERE)

OPS = [
    (r'(?<![<>=!+\-*/&|^])<=(?!=)', ['<']), (r'(?<![<>=!\-])>=(?!=)', ['>']), (r'(?<![<>=!+\-*/&|^<])<(?![<=])', ['<=']), (r'(?<![<>=!\->])>(?![>=])', ['>=']),
    (r'==', ['!=']), (r'!=', ['==']), (r'&&', ['||']), (r'\|\|', ['&&']),
    (r'(?<![+\-eE(,=*/<>!&|?: ])\s\+\s(?![+=])', [' - ']), (r'(?<![+\-eE(,=*/<>!&|?:])\s-\s(?![\-=>])', [' + ']),
    (r'\+=', ['-=']), (r'-=', ['+=']), (r'\+\+', ['--']), (r'--', ['++']),
    (r'(?<![\w.])0(?![\w.xX])', ['1']), (r'(?<![\w.])1(?![\w.xX])', ['0', '2']), (r'(?<![\w.])2(?![\w.xX])', ['1', '3']),
    (r'\bleft\b', ['right']), (r'\bright\b', ['left']), (r'\bnext\b', ['prev']), (r'\bprev\b', ['next']), (r'\bhead\b', ['tail']), (r'\btail\b', ['head']),
    (r'\bnum_\b', ['mem_']), (r'\bmem_\b', ['num_']),
    (r'\[(\w+)\]', [r'[\1 + 1]']), (r'\bif \((?!!)', ['if (!(', ]),
]


def anchors(pid):
    for l in open(os.path.join(VERIF, 'properties.jsonl')):
        d = json.loads(l)
        if d['id'] == pid:
            out = []
            for m in d['anchors']['mechanism']:
                for part in m.get('where', '').split(','):
                    part = part.strip()
                    mm = re.match(r'^([\w./]+?)(?::(\d+)(?:-(\d+))?)?$', part)
                    if mm and (mm.group(1).startswith('src/') or mm.group(1).startswith('include/')):
                        a = int(mm.group(2)) if mm.group(2) else 1
                        b = int(mm.group(3)) if mm.group(3) else (a if mm.group(2) else 10 ** 9)
                        out.append((mm.group(1), a, b))
            files = [f for f in d['anchors']['files'] if f.endswith('.c') or f.endswith('.h')]
            return out, files
    raise SystemExit('unknown property ' + pid)


def candidates(repo, spans):
    """-> list of (file, line_no, old_line, new_line, operator description)"""
    out = []
    for f, a, b in spans:
        p = os.path.join(repo, f)
        if not os.path.exists(p):
            continue
        lines = open(p, errors='replace').read().split('\n')
        incomment = False
        for i, line in enumerate(lines, 1):
            st = line.strip()
            if '/*' in st and '*/' not in st:
                incomment = True
            if incomment:
                if '*/' in st:
                    incomment = False
                continue
            if re.match(r'^A_(INTERN|EXTERN|PUBLIC)\b', st) or 'A_NONULL' in st or 'A_FORMAT' in st:
                continue  # declarations: attributes and prototypes, not behaviour
            if i < a or i > b or not st or st.startswith('#') or st.startswith('//') or st.startswith('/*') or st.startswith('*') or st.startswith('@'):
                continue
            code = line
            for pat, reps in OPS:
                for m in re.finditer(pat, code):
                    if '"' in code[:m.start()] and code[:m.start()].count('"') % 2 == 1:
                        continue
                    for rep in reps:
                        new = code[:m.start()] + m.expand(rep) + code[m.end():]
                        if pat == r'\bif \((?!!)':
                            # negate the whole condition: find the matching parenthesis
                            depth, j = 0, m.end() - 1
                            while j < len(code):
                                depth += code[j] == '('
                                depth -= code[j] == ')'
                                if depth == 0:
                                    break
                                j += 1
                            if j >= len(code):
                                continue
                            new = code[:m.start()] + 'if (!(' + code[m.end():j] + '))' + code[j + 1:]
                        if new != code:
                            out.append((f, i, code, new, '%s -> %s' % (m.group(0).strip(), rep.strip())))
            # statement deletion: a single-line assignment or call statement
            if re.match(r'^\s*[\w\->.\[\]*() ]+\s*(=|\+=|-=|\*=|/=)\s*[^;]+;\s*$', line) or re.match(r'^\s*\w+\([^;]*\);\s*$', line):
                if not re.match(r'^\s*(return|a_real|a_size|a_uint|int|unsigned|double|float|a_byte|a_u\d+|a_i\d+|char|void|static|const)\b', line):
                    out.append((f, i, code, re.match(r'^\s*', line).group(0) + '/* deleted */;', 'statement deleted'))
    return out


def run(pid, cand, seed, tier, timeout):
    f, ln, old, new, desc = cand
    d = tempfile.mkdtemp(prefix='vpam_%s_' % pid, dir='/tmp')
    try:
        repo = os.path.join(d, 'repo')
        os.makedirs(repo)
        shutil.copytree('/repo/src', os.path.join(repo, 'src'))
        shutil.copytree('/repo/include', os.path.join(repo, 'include'))
        p = os.path.join(repo, f)
        lines = open(p, errors='replace').read().split('\n')
        if lines[ln - 1] != old:
            return dict(file=f, line=ln, op=desc, status='stale')
        lines[ln - 1] = new
        open(p, 'w').write('\n'.join(lines))
        env = dict(os.environ, VERIF_REPO=repo, VERIF_SCRATCH=os.path.join(d, 'out'), VERIF_SEED=str(seed))
        t0 = time.time()
        try:
            r = subprocess.run([os.path.join(VERIF, 'check'), pid, '--tier', tier], env=env, stdout=subprocess.PIPE, stderr=subprocess.STDOUT, text=True, cwd=VERIF, timeout=timeout)
            rc, out = r.returncode, r.stdout
        except subprocess.TimeoutExpired as e:
            rc, out = 3, (e.stdout or b'').decode(errors='replace') if isinstance(e.stdout, bytes) else (e.stdout or '')
        status = {0: 'SURVIVED', 1: 'CAUGHT', 2: 'NOBUILD', 3: 'TIMEOUT'}.get(rc, 'rc%d' % rc)
        sig = [l.strip()[:160] for l in out.splitlines() if l.startswith('  ') and ':' in l][:1]
        return dict(file=f, line=ln, op=desc, old=old.strip()[:160], new=new.strip()[:160], status=status, wall=round(time.time() - t0, 1), sig=sig)
    finally:
        shutil.rmtree(d, ignore_errors=True)


def main():
    ap = argparse.ArgumentParser()
    ap.add_argument('pid')
    ap.add_argument('--max', type=int, default=60)
    ap.add_argument('--seed', type=int, default=1)
    ap.add_argument('--tier', default='quick')
    ap.add_argument('--files', default='')
    ap.add_argument('--timeout', type=int, default=600)
    args = ap.parse_args()
    spans, files = anchors(args.pid)
    if args.files:
        spans = [(f, 1, 10 ** 9) for f in args.files.split(',')]
    if not spans:
        spans = [(f, 1, 10 ** 9) for f in files]
    cands = candidates('/repo', spans)
    # one mutant per (file, line, operator) at most, sampled uniformly over lines first
    rnd = random.Random(args.seed)
    rnd.shuffle(cands)
    seen, pick = set(), []
    for c in cands:
        key = (c[0], c[1])
        if key in seen:
            continue
        seen.add(key)
        pick.append(c)
    pick += [c for c in cands if c not in pick]
    pick = pick[:args.max]
    print(json.dumps(dict(pid=args.pid, spans=spans, candidates=len(cands), running=len(pick))), flush=True)
    tally = {}
    for c in pick:
        res = run(args.pid, c, 20260927, args.tier, args.timeout)
        tally[res['status']] = tally.get(res['status'], 0) + 1
        print(json.dumps(res), flush=True)
    print(json.dumps(dict(pid=args.pid, summary=tally)), flush=True)


if __name__ == '__main__':
    sys.exit(main())
