#!/usr/bin/env python3
# coverage_audit.py <ID> [cases] — which library functions does the property's generator never execute?
# Builds every quick-tier unit of the property a second time with clang source-based coverage (in a scratch directory), runs the
# rapidcheck driver for a few thousand cases (plus the enumerator's first shard, if any) and lists the functions of /repo/src
# and /repo/include/a that were compiled into the unit but never entered, and the line coverage per library file.
# A development aid: it says where the generators do not reach, nothing about correctness. Nothing is written to /verif.
import json, os, re, shutil, subprocess, sys, tempfile
VERIF = os.path.dirname(os.path.dirname(os.path.abspath(__file__)))
sys.path.insert(0, VERIF)
from vp import core
from vp.props import PROPS


def sh(cmd, **kw):
    return subprocess.run(cmd, stdout=subprocess.PIPE, stderr=subprocess.STDOUT, text=True, **kw)


def main():
    pid = sys.argv[1]
    cases = int(sys.argv[2]) if len(sys.argv) > 2 else 4000
    P = PROPS[pid]
    if 'units' not in P:
        print('%s has a custom flow; no coverage audit' % pid)
        return 0
    units = P['units']('quick', 1)
    d = tempfile.mkdtemp(prefix='vpcov_%s_' % pid, dir='/tmp')
    cov = ['-fprofile-instr-generate', '-fcoverage-mapping', '-O0', '-g']
    drv = os.path.join(VERIF, 'build', 'drv')
    inc = ['-I', os.path.join(core.REPO, 'include'), '-I', VERIF]
    try:
        for u in units:
            ud = os.path.join(d, u.name)
            os.makedirs(ud)
            core.write_literals(u, os.path.join(ud, 'vp_literals.h'))
            objs = []
            for s in u.liba:
                o = os.path.join(ud, os.path.basename(s).replace('.', '_') + '.o')
                if s.startswith('wrap:'):
                    cmd = ['clang', '-std=gnu11', '-Wno-builtin-macro-redefined'] + cov + core.REPOFLAGS + u.defs + inc + ['-I', os.path.join(core.REPO, 'src'), '-c', os.path.join(VERIF, 'exec', s[5:]), '-o', o]
                else:
                    cmd = ['clang', '-std=gnu11'] + cov + core.REPOFLAGS + u.defs + inc + ['-c', os.path.join(core.REPO, 'src', s), '-o', o]
                r = sh(cmd)
                if r.returncode:
                    print(r.stdout[-2000:])
                    return 2
                objs.append(o)
            eo = os.path.join(ud, 'exec.o')
            r = sh(['clang++', '-std=gnu++17'] + cov + ['-fPIC'] + u.defs + u.exec_defs + ['-I', ud] + inc + ['-Wno-c99-designator', '-c', os.path.join(VERIF, u.exec_src), '-o', eo])
            if r.returncode:
                print(r.stdout[-2000:])
                return 2
            objs.append(eo)
            exe = os.path.join(ud, 'rc')
            r = sh(['clang++'] + core.SAN + ['-fprofile-instr-generate', os.path.join(drv, 'rc_driver.o')] + objs + ['-lrapidcheck'] + u.libs + ['-lm', '-o', exe])
            if r.returncode:
                print(r.stdout[-2000:])
                return 2
            env = core.base_env([])
            env['RC_PARAMS'] = 'seed=7 max_success=%d max_size=100' % cases
            env['LLVM_PROFILE_FILE'] = os.path.join(ud, 'rc.profraw')
            env['VP_OUT'] = os.path.join(ud, 'out')
            if u.tape_len:
                env['VP_TAPE_LEN'] = str(u.tape_len)
            sh([exe], env=env, timeout=1200)
            prof = os.path.join(ud, 'all.profdata')
            sh(['llvm-profdata', 'merge', '-o', prof, os.path.join(ud, 'rc.profraw')])
            r = sh(['llvm-cov', 'export', '-format=text', '-instr-profile=' + prof, exe])
            try:
                data = json.loads(r.stdout)
            except Exception:
                print('llvm-cov export failed: ' + r.stdout[-500:])
                continue
            anchors_all = set()
            for l in open(os.path.join(VERIF, 'properties.jsonl')):
                dd = json.loads(l)
                if dd['id'] == pid:
                    anchors_all = set(dd['anchors']['files'])
            never, files, counts = set(), {}, {}
            for f in data['data'][0]['functions']:
                fn = f['filenames'][0]
                if not (fn.startswith(os.path.join(core.REPO, 'src')) or fn.startswith(os.path.join(core.REPO, 'include'))):
                    continue
                # inline functions of the headers are instantiated once per translation unit: add the instances up
                nm = re.sub(r'^[^:]*:', '', f['name'])
                r2 = sh(['c++filt', nm])
                nm = r2.stdout.strip().split('(')[0] if r2.returncode == 0 else nm
                key = (os.path.relpath(fn, core.REPO), nm)
                counts[key] = counts.get(key, 0) + f['count']
            never = set(k for k, v in counts.items() if v == 0)
            for f in data['data'][0]['files']:
                fn = f['filename']
                if fn.startswith(os.path.join(core.REPO, 'src')):
                    files[os.path.relpath(fn, core.REPO)] = f['summary']['lines']
            print('== %s / unit %s (%d rapidcheck cases)' % (pid, u.name, cases))
            for fn, s in sorted(files.items()):
                print('   %-28s lines %5d covered %5.1f%%' % (fn, s['count'], s['percent']))
                if s['percent'] < 100 and fn in anchors_all:
                    r3 = sh(['llvm-cov', 'show', '-instr-profile=' + prof, exe, os.path.join(core.REPO, fn)])
                    unc = [int(m.group(1)) for m in re.finditer(r'^\s*(\d+)\|\s*0\|', r3.stdout, re.M)]
                    print('       not executed: lines ' + ' '.join(str(x) for x in unc[:60]))
            anchors = set()
            for l in open(os.path.join(VERIF, 'properties.jsonl')):
                dd = json.loads(l)
                if dd['id'] == pid:
                    anchors = set(dd['anchors']['files'])
            shown = 0
            for fn, name in sorted(never):
                if fn in anchors or any(fn.startswith(a) for a in anchors):
                    print('   never entered: %-34s %s' % (name, fn))
                    shown += 1
            print('   (%d functions of the anchored files never entered; %d elsewhere)' % (shown, len(never) - shown))
    finally:
        shutil.rmtree(d, ignore_errors=True)
    return 0


if __name__ == '__main__':
    sys.exit(main())
