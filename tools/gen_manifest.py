#!/usr/bin/env python3
# regenerate MANIFEST.json from vp/props.py (claimed = properties configured there)
import json, os, sys
sys.path.insert(0, os.path.dirname(os.path.dirname(os.path.abspath(__file__))))
from vp.props import PROPS
ALL = ['C%02d' % i for i in range(1, 21)]
checks = []
for pid in ALL:
    if pid not in PROPS:
        continue
    P = PROPS[pid]
    checks.append({
        'property_id': pid,
        'quick_cmd': './check %s --tier quick' % pid,
        'thorough_cmd': './check %s --tier thorough' % pid,
        'evidence_file': 'evidence/%s.json' % pid,
        'replay_cmd_template': './check %s --replay {path}' % pid,
        'engine': P.get('engine', 'rapidcheck+libFuzzer tape executors'),
        'level_claimed': {'category': P['level'], 'text': P['level_text'], 'design_ref': 'DESIGN.md §4 ' + pid},
        'level_note': P['level_note'],
        'technique': P['technique'],
    })
na = [{'property_id': p, 'reason': 'check not built yet in this session (planned: DESIGN.md §4); not claimed until it runs green on the unchanged tree'} for p in ALL if p not in PROPS]
m = {
    'version': 1,
    'setup_cmd': 'sh ./setup.sh',
    'hooks': {'guard': 'TQFX_LIBA_VERIF', 'enable': 'no hooks: checks compile /repo/src and /repo/include directly; the allocator is already a replaceable pointer and configurations are -D flags',
              'baseline_off_cmd': 'cmake --build /repo/_build && ctest --test-dir /repo/_build -j8 --timeout 900', 'source_commits': [], 'add_only': True},
    'engines': [
        {'name': 'rapidcheck tape driver', 'path': 'drv/rc_driver.cc', 'serves_properties': [c['property_id'] for c in checks], 'kind_free_text': 'property-based testing: rapidcheck generates and shrinks byte choice tapes decoded by per-property executors (model-based / differential / metamorphic oracles)'},
        {'name': 'libFuzzer tape driver', 'path': 'drv/fuzz_main.cc', 'serves_properties': [c['property_id'] for c in checks], 'kind_free_text': 'coverage-guided fuzzing of the same executors (ASan+UBSan), semantic oracle inside the target'},
        {'name': 'enumerators', 'path': 'drv/enum_main.cc', 'serves_properties': [p for p in ALL if p in PROPS and PROPS[p].get('has_enum')], 'kind_free_text': 'exhaustive loops over finite sub-domains'},
    ],
    'checks': checks,
    'not_applicable': na,
    'notes': 'All checks: ./check <ID> --tier quick|thorough; VERIF_SEED selects the generator seed. Findings protocol: known_findings.json.',
}
json.dump(m, open(os.path.join(os.path.dirname(os.path.dirname(os.path.abspath(__file__))), 'MANIFEST.json'), 'w'), indent=1)
print('claimed', [c['property_id'] for c in checks])
