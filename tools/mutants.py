# planted mutants: (name, file, old, new[, occurrence]) — exact string replacement in a scratch copy
MUTANTS = {
 'C19': [
  ('sqrt32_start', 'src/math.c', 'x1 <<= (A_U32_BSR(x) >> 1) + 1;', 'x1 <<= (A_U32_BSR(x) + 1) >> 1;'),
  ('sqrt64_loop', 'src/math.c', '} while (x0 > x1);\n    return (a_u32)x0;', '} while (x0 > x1 + 1);\n    return (a_u32)x0;'),
  ('lcm_mul_first', 'src/math.c', 'a_u64 r = a_u64_gcd(a, b);\n    if (r) { r = a / r * b; }', 'a_u64 r = a_u64_gcd(a, b);\n    if (r) { r = a * b / r; }'),
 ],
 'C01': [
  ('rotate_drop_E_parent', 'src/avl.c', 'if (E) { a_avl_set_parent(E, A); }', ''),
  ('dup_returns_null', 'src/avl.c', 'else { return parent; }', 'else { return A_NULL; }'),
  ('rotate2_factor', 'src/avl.c', 'a_avl_set_parent_factor(A, E, (sign * e >= 0) ? 0 : -e);', 'a_avl_set_parent_factor(A, E, (sign * e <= 0) ? 0 : -e);'),
  ('shrink_balanced_child_returns', 'src/avl.c', '/* Height is unchanged; nothing more to do. */\n                return A_NULL;', ''),
 ],
 'C02': [
  ('case4_drop_tmp2_parent', 'src/rbt.c', 'if (tmp2) { a_rbt_set_parent(tmp2, parent); }', ''),
  ('case2_no_recurse', 'src/rbt.c', 'node = parent;\n                        parent = a_rbt_parent(node);\n                        if (parent) { continue; }', 'node = parent;\n                        parent = a_rbt_parent(node);'),
  ('remove_adjust_decision', 'src/rbt.c', 'adjust = (parent_ & 1) ? parent : A_NULL;', 'adjust = A_NULL;'),
 ],
 'C03': [
  ('avl_pre_next_cmp', 'src/avl.c', 'if (node->right && node->right != leaf)\n        {\n            node = node->right;\n            break; /* A -> B -> C */', 'if (node->right)\n        {\n            node = node->right;\n            break; /* A -> B -> C */'),
  ('rbt_tear_no_unlink', 'src/rbt.c', '    *next = a_rbt_parent(node);\n    a_rbt_new_child(root, *next, node, A_NULL);', '    *next = a_rbt_parent(node);\n    if (!*next) { root->node = A_NULL; }'),
  ('rbt_post_prev', 'src/rbt.c', 'if (node && node->left && node->left != leaf)', 'if (node && node->left && node->left == leaf)'),
  ('avl_prev_descend', 'src/avl.c', 'node = node->left;\n        while (node->right) { node = node->right; }', 'node = node->left;'),
 ],
 'C04': [
  ('vec_remove_full_len', 'src/vec.c', 'a_swap(p, q, (a_size)(ptr - p));', 'a_swap(p, q, (a_size)(ptr - q));'),
  ('vec_sort_fore_i', 'src/vec.c', 'if (i > 0)\n            {\n                a_byte *const cur = (a_byte *)ctx->ptr_ + ctx->siz_ * i;\n                a_copy(end, ptr, ctx->siz_);', 'if (i > 1)\n            {\n                a_byte *const cur = (a_byte *)ctx->ptr_ + ctx->siz_ * i;\n                a_copy(end, ptr, ctx->siz_);'),
  ('buf_store_bound', 'src/buf.c', 'if (ctx->num_ + num <= ctx->mem_)', 'if (ctx->num_ + num <= ctx->mem_ + 1)'),
  ('buf_sort_back_full_stop', 'src/buf.c', '} while (ptr != buf);', '} while (ptr - ctx->siz_ != buf);'),
  ('vec_push_sort_tie', 'src/vec.c', 'if (cmp(cur, key) > 0) { r = m; }\n            else { i = m + 1; }\n        }\n        if (i < idx)\n        {\n            a_byte *const cur = (a_byte *)ctx->ptr_ + ctx->siz_ * i;\n            a_move(cur + ctx->siz_, cur, (a_size)(ptr - cur));\n            ptr = cur;', 'if (cmp(cur, key) > 0) { r = m; }\n            else { i = m + 1; }\n        }\n        if (i < idx)\n        {\n            a_byte *const cur = (a_byte *)ctx->ptr_ + ctx->siz_ * i;\n            a_move(cur + ctx->siz_, cur, (a_size)(ptr - cur) - ctx->siz_);\n            ptr = cur;'),
  ('vec_erase_mid_count', 'src/vec.c', 'a_move(p, p + ctx->siz_ * num, (ctx->num_ - n) * ctx->siz_);\n        ctx->num_ -= num;', 'a_move(p, p + ctx->siz_ * num, (ctx->num_ - n - 1) * ctx->siz_);\n        ctx->num_ -= num;'),
  ('vec_setz_mem', 'src/vec.c', 'ctx->mem_ /= siz;', 'ctx->mem_ = (ctx->mem_ + siz - 1) / siz;'),
 ],
 'C05': [
  ('slist_del_tail', 'include/a/slist.h', 'if (!node->next) { ctx->tail = prev; }', ''),
  ('slist_mov_tail', 'include/a/slist.h', 'if (!at->next) { to->tail = ctx->tail; }', 'if (!at->next) { to->tail = node; }'),
  ('list_swap_order', 'include/a/list.h', 'a_list *const head = tail2->next, *const tail = head2->prev;\n    a_list_add_(tail1->next, head1->prev, head2, tail2);\n    a_list_add_(head, tail, head1, tail1);', 'a_list_add_(tail1->next, head1->prev, head2, tail2);\n    a_list_add_(tail2->next, head2->prev, head1, tail1);'),
  ('list_rot_prev', 'include/a/list.h', 'a_list *const node = ctx->next;\n    a_list_del_(node, node);\n    a_list_add_(ctx, ctx->prev, node, node);', 'a_list *const node = ctx->next;\n    a_list_del_(node, node);\n    a_list_add_(ctx->next, ctx, node, node);'),
  ('que_recycle_no_dec', 'src/que.c', 'node = ctx->ptr_[--ctx->cur_];', 'node = ctx->ptr_[ctx->cur_ - 1];\n        if (ctx->cur_ > 1) { --ctx->cur_; }'),
  ('que_insert_after', 'src/que.c', 'a_list_add_prev(it, node);\n                    break;', 'a_list_add_next(it, node);\n                    break;'),
  ('que_sort_back_tie', 'src/que.c', 'if (cmp(at + 1, it + 1) <= 0) { break; }\n            at = at->prev;\n        } while (at != &ctx->head_);\n        if (at != it->prev)\n        {\n            at = at->next;', 'if (cmp(at + 1, it + 1) <= 0) { break; }\n            at = at->prev;\n        } while (at != &ctx->head_);\n        if (at != it->prev && at != &ctx->head_)\n        {\n            at = at->next;'),
  ('que_at_neg_offbyone', 'src/que.c', 'if (--cur == idx) { return it + 1; }', 'if (cur-- == idx) { return it + 1; }'),
 ],
 'C06': [
  ('catc_room', 'src/str.c', 'if (a_str_setm(ctx, ctx->num_ + 2) == 0)', 'if (a_str_setm(ctx, ctx->num_ + 1) == 0)'),
  ('catv_no_second_format', 'src/str.c', 'res = vsnprintf(ptr, mem, fmt, va);\n    }', '(void)vsnprintf(ptr, mem - 1, fmt, va);\n    }'),
  ('catv_fit_offbyone', 'src/str.c', 'mem = ctx->num_ + (a_size)(res + 1);\n    if (mem > ctx->mem_)', 'mem = ctx->num_ + (a_size)(res + 1);\n    if (mem > ctx->mem_ + 1)'),
  ('cmp_len_tiebreak', 'src/str.c', 'return (n0 > n1) - (n0 < n1);', 'return (n0 < n1) ? -1 : 0;'),
  ('ltrim_move_len', 'src/str.c', 'a_move(ctx->ptr_, p, num);\n        ctx->num_ = num;', 'a_move(ctx->ptr_, p, num - 1);\n        ctx->num_ = num;'),
  ('getn_no_term', 'src/str.c', 'if (pdata) { a_copy(pdata, ctx->ptr_ + ctx->num_, nbyte); }\n        ctx->ptr_[ctx->num_] = 0;', 'if (pdata) { a_copy(pdata, ctx->ptr_ + ctx->num_, nbyte); ctx->ptr_[ctx->num_] = 0; }'),
  ('utf_catc_reserve', 'src/str.c', 'int rc = a_str_setm(ctx, ctx->num_ + 7);', 'int rc = a_str_setm(ctx, ctx->num_ + 6);'),
  ('rtrim_term_cond', 'src/str.c', 'a_str_rtrim_(ctx, s, n);\n    if (ctx->num_ < num)\n    {\n        ctx->ptr_[ctx->num_] = 0;\n    }', 'a_str_rtrim_(ctx, s, n);\n    if (ctx->num_ + 1 < num)\n    {\n        ctx->ptr_[ctx->num_] = 0;\n    }'),
 ],
}
