# planted mutants: (name, file, old, new[, occurrence]) — exact string replacement in a scratch copy
MUTANTS = {
 'C19': [
  ('sqrt32_start', 'src/math.c', 'x1 <<= (A_U32_BSR(x) >> 1) + 1;', 'x1 <<= (A_U32_BSR(x) + 1) >> 1;'),
  ('sqrt64_loop', 'src/math.c', '} while (x0 > x1);\n    return (a_u32)x0;', '} while (x0 > x1 + 1);\n    return (a_u32)x0;'),
  ('lcm_mul_first', 'src/math.c', 'a_u64 r = a_u64_gcd(a, b);\n    if (r) { r = a / r * b; }', 'a_u64 r = a_u64_gcd(a, b);\n    if (r) { r = a * b / r; }'),
 ],
 'C01': [
  ('rotate_drop_E_parent', 'src/avl.c', 'if (E) { a_avl_set_parent(E, A); }', ''),
  ('dup_returns_null', 'src/avl.c', 'else { return parent; }', 'else { return A_NULL; }'),
  ('rotate2_factor', 'src/avl.c', 'a_avl_set_parent_factor(A, E, (sign * e >= 0) ? 0 : -e);', 'a_avl_set_parent_factor(A, E, (sign * e <= 0) ? 0 : -e);'),
  ('shrink_balanced_child_returns', 'src/avl.c', '/* Height is unchanged; nothing more to do. */\n                return A_NULL;', ''),
 ],
 'C02': [
  ('case4_drop_tmp2_parent', 'src/rbt.c', 'if (tmp2) { a_rbt_set_parent(tmp2, parent); }', ''),
  ('case2_no_recurse', 'src/rbt.c', 'node = parent;\n                        parent = a_rbt_parent(node);\n                        if (parent) { continue; }', 'node = parent;\n                        parent = a_rbt_parent(node);'),
  ('remove_adjust_decision', 'src/rbt.c', 'adjust = (parent_ & 1) ? parent : A_NULL;', 'adjust = A_NULL;'),
 ],
 'C03': [
  ('avl_pre_next_cmp', 'src/avl.c', 'if (node->right && node->right != leaf)\n        {\n            node = node->right;\n            break; /* A -> B -> C */', 'if (node->right)\n        {\n            node = node->right;\n            break; /* A -> B -> C */'),
  ('rbt_tear_no_unlink', 'src/rbt.c', '    *next = a_rbt_parent(node);\n    a_rbt_new_child(root, *next, node, A_NULL);', '    *next = a_rbt_parent(node);\n    if (!*next) { root->node = A_NULL; }'),
  ('rbt_post_prev', 'src/rbt.c', 'if (node && node->left && node->left != leaf)', 'if (node && node->left && node->left == leaf)'),
  ('avl_prev_descend', 'src/avl.c', 'node = node->left;\n        while (node->right) { node = node->right; }', 'node = node->left;'),
 ],
}
