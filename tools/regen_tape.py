#!/usr/bin/env python3
# regen_tape.py <ID> <commit> <stale-tape-relative-path> — find a fresh tape for a repaired defect after the executor's tape
# decoding changed: take the fix back in a scratch copy, run the property's quick check there, keep the reported tape with the
# same signature, replace the stale file and its entry in known_findings.json.
import glob, json, os, shutil, subprocess, sys, tempfile
VERIF = os.path.dirname(os.path.dirname(os.path.abspath(__file__)))
pid, commit, stale = sys.argv[1:4]
kfp = os.path.join(VERIF, 'known_findings.json')
kf = json.load(open(kfp))
entry = [e for e in kf['findings'] if e.get('commit') == commit and stale in e.get('replay', [])][0]
d = tempfile.mkdtemp(prefix='vpg_', dir='/tmp')
try:
    repo = os.path.join(d, 'repo')
    os.makedirs(repo)
    for sub in ('src', 'include'):
        shutil.copytree(os.path.join('/repo', sub), os.path.join(repo, sub))
    diff = subprocess.run(['git', '-C', '/repo', 'show', '--format=', commit, '--', 'src', 'include'], stdout=subprocess.PIPE).stdout
    subprocess.run(['patch', '-R', '-p1', '-s', '-d', repo], input=diff, check=True)
    env = dict(os.environ, VERIF_REPO=repo, VERIF_SCRATCH=os.path.join(d, 'out'))
    r = subprocess.run([os.path.join(VERIF, 'check'), pid], env=env, stdout=subprocess.PIPE, stderr=subprocess.STDOUT, text=True, cwd=VERIF)
    want = entry['signature']
    cands = []
    for tp in glob.glob(os.path.join(d, 'out', 'replays', pid, '*.tape')):
        head = open(tp).read(2000)
        sig = [l.split(':', 1)[1].strip() for l in head.splitlines() if l.startswith('# signature:')]
        if sig and sig[0] == want:
            cands.append((os.path.getsize(tp), tp))
    if not cands:
        print('no tape with signature %s found; output tail:\n%s' % (want, r.stdout[-1500:]))
        sys.exit(1)
    cands.sort()
    new = cands[0][1]
    rel = os.path.join('replays', pid, os.path.basename(new))
    shutil.copy(new, os.path.join(VERIF, rel))
    if rel != stale:
        os.remove(os.path.join(VERIF, stale))
    entry['replay'] = [rel if x == stale else x for x in entry['replay']]
    json.dump(kf, open(kfp, 'w'), indent=1)
    open(kfp, 'a').write('\n')
    print('replaced %s by %s' % (stale, rel))
finally:
    shutil.rmtree(d, ignore_errors=True)
