#!/usr/bin/env python3
# regress_tapes.py [ID ...] — do the saved regression tapes still reproduce the defects they were saved for?
# For every `fixed` entry of known_findings.json: copy /repo's src+include (+lib.rs) to a scratch directory, take the fix back
# (reverse-apply the commit), and replay each of the entry's tapes against that copy with the current executors. Every tape must
# report a violation there (and, by the ordinary checks, none on the repaired tree). Run after any change to an executor's tape
# decoding. Nothing is written into /repo or /verif; exit 1 if a tape no longer reproduces.
import json, os, shutil, subprocess, sys, tempfile
VERIF = os.path.dirname(os.path.dirname(os.path.abspath(__file__)))


def main():
    only = set(sys.argv[1:])
    kf = json.load(open(os.path.join(VERIF, 'known_findings.json')))['findings']
    bad = 0
    total = 0
    for e in kf:
        if e.get('status') != 'fixed' or not e.get('replay'):
            continue
        if only and e['property'] not in only:
            continue
        d = tempfile.mkdtemp(prefix='vpr_%s_' % e['property'], dir='/tmp')
        try:
            repo = os.path.join(d, 'repo')
            os.makedirs(repo)
            for sub in ('src', 'include'):
                shutil.copytree(os.path.join('/repo', sub), os.path.join(repo, sub))
            diff = subprocess.run(['git', '-C', '/repo', 'show', '--format=', e['commit'], '--', 'src', 'include'], stdout=subprocess.PIPE).stdout
            r = subprocess.run(['patch', '-R', '-p1', '-s', '-d', repo], input=diff, stdout=subprocess.PIPE, stderr=subprocess.STDOUT)
            if r.returncode:
                print('SKIP  %s %s: the fix no longer reverse-applies (%s)' % (e['property'], e['commit'], r.stdout.decode()[-120:].strip()))
                continue
            for tp in e['replay']:
                if not tp.endswith('.tape'):
                    continue
                total += 1
                env = dict(os.environ, VERIF_REPO=repo, VERIF_SCRATCH=os.path.join(d, 'out'))
                r = subprocess.run([os.path.join(VERIF, 'check'), e['property'], '--replay', os.path.join(VERIF, tp)], env=env,
                                   stdout=subprocess.PIPE, stderr=subprocess.STDOUT, text=True, cwd=VERIF)
                ok = r.returncode == 1 and 'VIOLATION' in r.stdout
                bad += not ok
                print('%s %s %s %s' % ('OK   ' if ok else 'STALE', e['property'], e['commit'], tp) + ('' if ok else '  -> ' + r.stdout.strip().splitlines()[-1][:160] if r.stdout.strip() else ''))
        finally:
            shutil.rmtree(d, ignore_errors=True)
    print('%d tapes, %d no longer reproduce their defect' % (total, bad))
    return 1 if bad else 0


if __name__ == '__main__':
    sys.exit(main())
