#!/bin/bash
# seed_intake.sh <ID> <A|B> — confirm a sub-agent's change in its scratch worktree and file it under /verif/seeded/
# confirms: patch applies, library builds, the 41 tests pass with it, demo fails with it and passes without it
set -u
ID=$1; V=$2; W=/tmp/seed/$ID; S=$W/SEED_OUT/$V; OUT=/verif/seeded/$ID-$V
cd $W || exit 2
git checkout -q -- . ; rm -rf _build
[ -f $S/patch.diff ] || { echo "$ID-$V: no patch"; exit 2; }
bash $S/run_demo.sh $W >/tmp/seed/$ID.$V.demo0.log 2>&1; D0=$?
git apply $S/patch.diff || { echo "$ID-$V: patch does not apply"; exit 2; }
cmake -G Ninja -B _build -DBUILD_TESTING=ON -DCMAKE_BUILD_TYPE=RelWithDebInfo -DCMAKE_C_FLAGS=-Wno-error >/dev/null 2>&1 && cmake --build _build >/tmp/seed/$ID.$V.build.log 2>&1; B=$?
T=$(ctest --test-dir _build -j4 --timeout 900 2>&1 | grep "tests passed")
bash $S/run_demo.sh $W >/tmp/seed/$ID.$V.demo1.log 2>&1; D1=$?
git checkout -q -- . ; rm -rf _build
echo "$ID-$V: demo_unchanged_exit=$D0 build=$B tests='$T' demo_patched_exit=$D1"
if [ $D0 -eq 0 ] && [ $B -eq 0 ] && [ $D1 -ne 0 ] && echo "$T" | grep -q "100% tests passed"; then
  mkdir -p $OUT && cp $S/patch.diff $S/run_demo.sh $OUT/ && cp $S/demo.* $OUT/ 2>/dev/null
  python3 - "$S/meta.json" "$OUT/meta.json" "$ID" "$V" "$T" <<'PY'
import json,sys
src,dst,ID,V,T=sys.argv[1:6]
try: m=json.load(open(src))
except Exception as e: m={'summary':'(agent meta unreadable: %s)'%e}
m['property']=ID
m['confirmed_by_intake']={'demo_on_unchanged_tree':'exit 0','tests_with_patch':T.strip(),'demo_with_patch':'non-zero exit',
  'commands':['bash run_demo.sh <worktree>  (unchanged)','git apply patch.diff; cmake -G Ninja -B _build -DBUILD_TESTING=ON ...; cmake --build _build; ctest --test-dir _build','bash run_demo.sh <worktree>  (patched)']}
json.dump(m,open(dst,'w'),indent=1)
PY
  echo "$ID-$V: KEPT"
else
  echo "$ID-$V: REJECTED"
fi
