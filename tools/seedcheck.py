#!/usr/bin/env python3
# seedcheck.py [--tier quick] [--seeds a,b] <seeded-dir-name ...|all>
# applies /verif/seeded/<name>/patch.diff to a scratch copy of /repo (src+include), runs the property's check there
import argparse, concurrent.futures as cf, json, os, shutil, subprocess, sys, tempfile, time
VERIF = os.path.dirname(os.path.dirname(os.path.abspath(__file__)))

def run_one(name, args, seed):
    sd = os.path.join(VERIF, 'seeded', name)
    pid = json.load(open(os.path.join(sd, 'meta.json')))['property']
    d = tempfile.mkdtemp(prefix='vps_%s_' % name, dir='/tmp')
    try:
        repo = os.path.join(d, 'repo')
        os.makedirs(repo)
        shutil.copytree('/repo/src', os.path.join(repo, 'src'))
        shutil.copytree('/repo/include', os.path.join(repo, 'include'))
        r = subprocess.run(['patch', '-p1', '-s', '-d', repo, '-i', os.path.join(sd, 'patch.diff')], stdout=subprocess.PIPE, stderr=subprocess.STDOUT, text=True)
        if r.returncode:
            return dict(seed_change=name, error='patch failed: ' + r.stdout[-300:])
        env = dict(os.environ, VERIF_REPO=repo, VERIF_SCRATCH=os.path.join(d, 'out'), VERIF_SEED=str(seed), VERIF_JOBS=str(args.jobs))
        t0 = time.time()
        r = subprocess.run([os.path.join(VERIF, 'check'), pid, '--tier', args.tier], env=env, stdout=subprocess.PIPE, stderr=subprocess.STDOUT, text=True, cwd=VERIF)
        sigs = [l.strip()[:200] for l in r.stdout.splitlines() if l.startswith('  ') and ':' in l][:3]
        return dict(seed_change=name, property=pid, seed=seed, exit=r.returncode, wall=round(time.time() - t0, 1), detail=sigs if r.returncode == 1 else [l[:200] for l in r.stdout.splitlines()[-2:]])
    finally:
        shutil.rmtree(d, ignore_errors=True)

def main():
    ap = argparse.ArgumentParser()
    ap.add_argument('names', nargs='+')
    ap.add_argument('--tier', default='quick')
    ap.add_argument('--seeds', default='20260927')
    ap.add_argument('-j', '--par', type=int, default=2)
    ap.add_argument('--jobs', type=int, default=8)
    args = ap.parse_args()
    names = sorted(os.listdir(os.path.join(VERIF, 'seeded'))) if args.names == ['all'] else args.names
    from_props = None
    work = [(n, int(s)) for n in names for s in args.seeds.split(',')]
    missed = 0
    with cf.ThreadPoolExecutor(args.par) as ex:
        for res in ex.map(lambda w: run_one(w[0], args, w[1]), work):
            ok = res.get('exit') == 1
            missed += not ok
            print(('CAUGHT ' if ok else 'MISSED ') + json.dumps(res), flush=True)
    print('%d/%d caught' % (len(work) - missed, len(work)))
    return 1 if missed else 0

if __name__ == '__main__':
    sys.exit(main())
