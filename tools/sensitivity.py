#!/usr/bin/env python3
# sensitivity.py [-j N] [--suite] [--tier quick] [--seeds a,b,c] <PID> [mutant-name ...]
# Applies each planted mutant from tools/mutants.py to a scratch copy of /repo (src + include only; the
# full tree with --suite, which also builds it and runs CTest to confirm the mutant survives the suite),
# runs ./check <PID> with VERIF_REPO/VERIF_SCRATCH pointing at the scratch copy and expects exit 1.
import argparse, concurrent.futures as cf, json, os, shutil, subprocess, sys, tempfile, time
HERE = os.path.dirname(os.path.abspath(__file__))
VERIF = os.path.dirname(HERE)
sys.path.insert(0, HERE)
from mutants import MUTANTS


def apply(root, m):
    name, path, old, new = m[:4]
    occ = m[4] if len(m) > 4 else 0
    p = os.path.join(root, path)
    s = open(p).read()
    idx = -1
    for _ in range(occ + 1):
        idx = s.find(old, idx + 1)
        if idx < 0:
            raise SystemExit('mutant %s: pattern not found in %s: %r' % (name, path, old))
    s = s[:idx] + new + s[idx + len(old):]
    open(p, 'w').write(s)


def run_one(pid, m, args, seed):
    name = m[0]
    d = tempfile.mkdtemp(prefix='vpm_%s_%s_' % (pid, name), dir='/tmp')
    try:
        repo = os.path.join(d, 'repo')
        if args.suite:
            shutil.copytree('/repo', repo, ignore=shutil.ignore_patterns('_build', '.git'), symlinks=True)
        else:
            os.makedirs(repo)
            shutil.copytree('/repo/src', os.path.join(repo, 'src'))
            shutil.copytree('/repo/include', os.path.join(repo, 'include'))
        apply(repo, m)
        suite = None
        if args.suite:
            r = subprocess.run('cmake -G Ninja -S %s -B %s/_build -DCMAKE_BUILD_TYPE=RelWithDebInfo -DBUILD_TESTING=ON -DCMAKE_C_FLAGS=-Wno-error >/dev/null 2>&1; cmake --build %s/_build >/dev/null 2>&1 && ctest --test-dir %s/_build -j8 --timeout 900 2>&1 | tail -3' % (repo, repo, repo, repo),
                               shell=True, stdout=subprocess.PIPE, stderr=subprocess.STDOUT, text=True)
            suite = '100% tests passed' in r.stdout
        env = dict(os.environ, VERIF_REPO=repo, VERIF_SCRATCH=os.path.join(d, 'out'), VERIF_SEED=str(seed), VERIF_JOBS=str(args.jobs))
        t0 = time.time()
        r = subprocess.run([os.path.join(VERIF, 'check'), pid, '--tier', args.tier], env=env, stdout=subprocess.PIPE, stderr=subprocess.STDOUT, text=True, cwd=VERIF)
        sigs = [l.strip() for l in r.stdout.splitlines() if l.startswith('  ') and ':' in l][:3]
        return dict(mutant=name, seed=seed, exit=r.returncode, wall=round(time.time() - t0, 1), suite_passes=suite,
                    detail=sigs if r.returncode == 1 else r.stdout.splitlines()[-3:])
    finally:
        shutil.rmtree(d, ignore_errors=True)


def main():
    ap = argparse.ArgumentParser()
    ap.add_argument('pid')
    ap.add_argument('names', nargs='*')
    ap.add_argument('--suite', action='store_true')
    ap.add_argument('--tier', default='quick')
    ap.add_argument('--seeds', default='20260927')
    ap.add_argument('-j', '--par', type=int, default=2)
    ap.add_argument('--jobs', type=int, default=8)
    args = ap.parse_args()
    ms = [m for m in MUTANTS.get(args.pid, []) if not args.names or m[0] in args.names]
    seeds = [int(x) for x in args.seeds.split(',')]
    work = [(m, s) for m in ms for s in seeds]
    missed = 0
    with cf.ThreadPoolExecutor(args.par) as ex:
        for res in ex.map(lambda w: run_one(args.pid, w[0], args, w[1]), work):
            ok = res['exit'] == 1
            missed += not ok
            print(('CAUGHT ' if ok else 'MISSED ') + json.dumps(res), flush=True)
    print('%s: %d/%d mutant runs caught' % (args.pid, len(work) - missed, len(work)))
    return 1 if missed else 0


if __name__ == '__main__':
    sys.exit(main())
