#!/bin/bash
# sweep.sh <tier> <seed...> — run every claimed check for each seed on the unchanged tree; print non-OK lines
tier=$1; shift
for s in "$@"; do
  for id in C01 C02 C03 C04 C05 C06 C07 C08 C09 C10 C11 C12 C13 C14 C15 C16 C17 C18 C19 C20; do
    out=$(VERIF_SEED=$s ./check $id --tier $tier 2>&1); rc=$?
    echo "seed=$s $id rc=$rc $(echo "$out" | tail -1 | cut -c1-160)"
    if [ $rc -ne 0 ]; then echo "$out" | grep "^  \|VIOLATION\|ERROR\|INCONCL\|NOT-REPRO" | head -8; fi
  done
done
