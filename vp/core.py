# core.py — build, run, merge, minimise, evidence. Python stdlib only.
import array, concurrent.futures as cf, glob, hashlib, json, os, re, shutil, subprocess, sys, time
from . import once

VERIF = os.path.dirname(os.path.dirname(os.path.abspath(__file__)))
REPO = os.environ.get('VERIF_REPO', '/repo')
NPROC = int(os.environ.get('VERIF_JOBS', '16'))
# VERIF_SCRATCH (sensitivity tool only): build output, evidence and new replay files go there instead of /verif
OUTDIR = os.environ.get('VERIF_SCRATCH', VERIF)

HAVE_ALL = ['ASINH', 'ACOSH', 'ATANH', 'EXPM1', 'LOG1P', 'ATAN2', 'HYPOT', 'CSQRT', 'CPOW', 'CEXP', 'CLOG',
            'CSIN', 'CCOS', 'CTAN', 'CSINH', 'CCOSH', 'CTANH', 'CASIN', 'CACOS', 'CATAN', 'CASINH', 'CACOSH', 'CATANH']

SAN = ['-fsanitize=address,undefined', '-fno-sanitize=pointer-overflow,nonnull-attribute', '-fno-sanitize-recover=undefined',
       '-fno-omit-frame-pointer']
# flags mirroring the repository's own build (PIC, hidden visibility, A_EXPORTS)
REPOFLAGS = ['-fPIC', '-fvisibility=hidden', '-DA_EXPORTS']

ASAN_ENV = 'detect_leaks=0:detect_container_overflow=0:abort_on_error=0:exitcode=86:allocator_may_return_null=1:symbolize=1:detect_stack_use_after_return=0'
UBSAN_ENV = 'print_stacktrace=1:halt_on_error=1:exitcode=87'


def config_defs(real=8, have=None):
    have = HAVE_ALL if have is None else have
    return ['-DA_SIZE_REAL=%d' % real] + ['-DA_HAVE_%s=1' % h for h in have]


class Unit:
    """one executor binary set: executor source + liba sources + configuration"""

    def __init__(self, name, exec_src, liba, defs=None, libs=None, opt='-O1', tape_len=None, enum=False,
                 fuzz=True, exec_defs=None, config=None):
        self.name = name
        self.exec_src = exec_src
        self.liba = liba
        self.defs = defs if defs is not None else config_defs()
        self.exec_defs = exec_defs or []
        self.libs = libs or []
        self.opt = opt
        self.tape_len = tape_len
        self.enum = enum
        self.fuzz = fuzz
        self.config = config or 'default (double, all A_HAVE_* on)'
        self.bins = {}


def sh(cmd, **kw):
    return subprocess.run(cmd, stdout=subprocess.PIPE, stderr=subprocess.STDOUT, text=True, errors='replace', **kw)


class BuildError(Exception):
    pass


def write_literals(u, path):
    """integer literals (>= 256) that occur in the unit's library sources and the headers of the same name: a dictionary for the
    generators (magic constants compared against inside the library are unreachable by chance); steering only"""
    vals = set()
    for s in u.liba:
        if s.startswith('wrap:'):
            continue
        stem = os.path.splitext(os.path.basename(s))[0]
        for f in (os.path.join(REPO, 'src', s), os.path.join(REPO, 'include', 'a', stem + '.h')):
            try:
                text = open(f, errors='replace').read()
            except OSError:
                continue
            text = re.sub(r'/\*.*?\*/', ' ', text, flags=re.S)
            for m in re.finditer(r'\b0[xX]([0-9a-fA-F]{3,16})\b|\b([1-9][0-9]{2,18})\b(?![.eE])', text):
                v = int(m.group(1), 16) if m.group(1) else int(m.group(2))
                if 256 <= v < 2 ** 64:
                    vals.add(v)
    vals = sorted(vals)[:4096]
    with open(path, 'w') as f:
        f.write('// generated from the library sources of this unit\n')
        f.write('static unsigned long long const vp_literals[] = {%s0};\n' % ''.join('0x%xull, ' % v for v in vals))
        f.write('static unsigned const vp_nliterals = %d;\n' % len(vals))


def build_units(pid, units, want_fuzz, want_enum, log):
    """compile everything from REPO's working tree; returns after all binaries exist"""
    bdir = os.path.join(OUTDIR, 'build', pid)
    shutil.rmtree(bdir, ignore_errors=True)
    os.makedirs(bdir)
    drv = os.path.join(VERIF, 'build', 'drv')
    if not os.path.exists(os.path.join(drv, 'rc_driver.o')):
        r = sh(['sh', os.path.join(VERIF, 'setup.sh')])
        if r.returncode:
            raise BuildError('setup.sh failed:\n' + r.stdout)
    inc = ['-I', os.path.join(REPO, 'include'), '-I', VERIF]
    jobs = []  # (cmd list, output)
    links = []
    for u in units:
        ud = os.path.join(bdir, u.name)
        os.makedirs(ud)
        write_literals(u, os.path.join(ud, 'vp_literals.h'))
        findings, nnames, nmac = once.scan_unit(VERIF, REPO, u)
        once.write_header(os.path.join(ud, 'vp_once.h'), findings, nnames, nmac)
        u.once_scanned = nnames
        variants = [('san', SAN + [u.opt, '-g'])]
        if want_fuzz and u.fuzz:
            variants.append(('fz', SAN + [u.opt, '-g', '-fsanitize=fuzzer-no-link']))
        if want_enum and u.enum:
            variants.append(('o2', ['-O2']))
        for vn, vflags in variants:
            objs = []
            for s in u.liba:
                o = os.path.join(ud, '%s_%s.o' % (vn, os.path.basename(s).replace('.', '_')))
                src = os.path.join(REPO, 'src', s)
                if s.startswith('wrap:'):
                    # a file of /verif/exec that #includes a library source after overriding compiler-feature macros
                    src = os.path.join(VERIF, 'exec', s[5:])
                    cmd = ['clang', '-std=gnu11', '-Wno-builtin-macro-redefined'] + vflags + REPOFLAGS + u.defs + inc + ['-I', os.path.join(REPO, 'src'), '-c', src, '-o', o]
                elif s.endswith('.c'):
                    cmd = ['clang', '-std=gnu11'] + vflags + REPOFLAGS + u.defs + inc + ['-c', src, '-o', o]
                else:
                    cmd = ['clang++', '-std=gnu++17'] + vflags + REPOFLAGS + u.defs + inc + ['-c', src, '-o', o]
                jobs.append(cmd)
                objs.append(o)
            eo = os.path.join(ud, '%s_exec.o' % vn)
            jobs.append(['clang++', '-std=gnu++17'] + vflags + ['-fPIC'] + u.defs + u.exec_defs + ['-I', ud] + inc +
                        ['-Wno-c99-designator', '-c', os.path.join(VERIF, u.exec_src), '-o', eo])
            objs.append(eo)
            if vn == 'san':
                for kind in ('rc', 'replay'):
                    out = os.path.join(ud, kind)
                    extra = ['-lrapidcheck'] if kind == 'rc' else []
                    links.append(['clang++'] + SAN + [os.path.join(drv, {'rc': 'rc_driver.o', 'replay': 'replay_main.o'}[kind])] +
                                 objs + extra + u.libs + ['-lm', '-o', out])
                    u.bins[kind] = out
            elif vn == 'fz':
                out = os.path.join(ud, 'fuzz')
                links.append(['clang++'] + SAN + ['-fsanitize=fuzzer', os.path.join(drv, 'fuzz_main.o')] + objs + u.libs + ['-lm', '-o', out])
                u.bins['fuzz'] = out
            else:
                out = os.path.join(ud, 'enum')
                links.append(['clang++', '-O2', os.path.join(drv, 'enum_main.o')] + objs + u.libs + ['-lm', '-o', out])
                u.bins['enum'] = out
    t0 = time.time()
    with cf.ThreadPoolExecutor(NPROC) as ex:
        for cmd, r in zip(jobs, ex.map(sh, jobs)):
            if r.returncode:
                raise BuildError('compile failed: %s\n%s' % (' '.join(cmd), r.stdout[-4000:]))
        for cmd, r in zip(links, ex.map(sh, links)):
            if r.returncode:
                raise BuildError('link failed: %s\n%s' % (' '.join(cmd), r.stdout[-4000:]))
    log('built %d objects, %d binaries in %.1fs' % (len(jobs), len(links), time.time() - t0))
    return bdir


def base_env(known):
    e = dict(os.environ)
    e['ASAN_OPTIONS'] = ASAN_ENV
    e['UBSAN_OPTIONS'] = UBSAN_ENV
    e['ASAN_SYMBOLIZER_PATH'] = shutil.which('llvm-symbolizer') or shutil.which('llvm-symbolizer-14') or ''
    if known:
        e['VP_KNOWN'] = ','.join(known)
    else:
        e.pop('VP_KNOWN', None)
    return e


class Job:
    def __init__(self, kind, unit, cmd, env, out, timeout, desc):
        self.kind, self.unit, self.cmd, self.env, self.out, self.timeout, self.desc = kind, unit, cmd, env, out, timeout, desc
        self.rc = None
        self.log = ''
        self.timed_out = False
        self.wall = 0.0


def run_job(j):
    t0 = time.time()
    try:
        r = subprocess.run(j.cmd, env=j.env, stdout=subprocess.PIPE, stderr=subprocess.STDOUT, timeout=j.timeout,
                           cwd=os.path.dirname(j.out) if j.out else None)
        j.rc = r.returncode
        j.log = r.stdout.decode('utf-8', 'replace')
    except subprocess.TimeoutExpired as e:
        j.rc = -999
        j.timed_out = True
        j.log = (e.stdout or b'').decode('utf-8', 'replace')
    j.wall = time.time() - t0
    if j.out:
        try:
            with open(j.out + '.log', 'w') as f:
                f.write(j.log[-200000:])
        except OSError:
            pass
    return j


def run_jobs(jobs):
    with cf.ThreadPoolExecutor(NPROC) as ex:
        return list(ex.map(run_job, jobs))


def sanitizer_sig(text):
    """derive a violation signature from a sanitizer report: kind + first liba frame"""
    kind = None
    m = re.search(r'ERROR: AddressSanitizer: ([\w-]+)', text)
    if m:
        kind = 'asan:' + m.group(1)
    else:
        m = re.search(r'runtime error: ([^\n]+)', text)
        if m:
            kind = 'ubsan:' + re.sub(r'[^a-z]+', '_', m.group(1).lower())[:40].strip('_')
        elif 'AddressSanitizer' in text or 'SEGV' in text:
            kind = 'asan:unknown'
    if not kind:
        return None
    fn = None
    for m in re.finditer(r'#\d+ 0x[0-9a-f]+ in (\w+) [^\n]*/src/(\w+\.c)', text):
        if m.group(1) in ('a_copy', 'a_move', 'a_swap', 'a_fill', 'a_zero', 'a_alloc_'):
            continue  # generic helpers: name the caller
        fn = m.group(1)
        break
    if not fn:
        for m in re.finditer(r'#\d+ 0x[0-9a-f]+ in (a_\w+)', text):
            fn = m.group(1)
            break
    return kind + (':' + fn if fn else '')


def replay_once(unit, tape, env):
    r = subprocess.run([unit.bins['replay'], tape], env=env, stdout=subprocess.PIPE, stderr=subprocess.STDOUT, timeout=120)
    text = r.stdout.decode('utf-8', 'replace')
    m = re.search(r'REPLAY-VIOLATION sig=(\S+) msg=(.*)', text)
    if m:
        return True, m.group(1), m.group(2), text
    if r.returncode != 0:
        sig = sanitizer_sig(text) or ('crash:rc%d' % r.returncode)
        return True, sig, text.strip().splitlines()[-1][:300] if text.strip() else '', text
    return False, None, None, text


def read_tape(path):
    data = open(path, 'rb').read()
    if not data.startswith(b'# vp tape'):
        return list(data)
    out = []
    for line in data.decode('ascii', 'replace').splitlines():
        if line.startswith('#'):
            continue
        out += [int(x, 16) for x in line.split()]
    return out


def write_tape(path, bytes_, header=''):
    with open(path, 'w') as f:
        f.write('# vp tape v1\n')
        for l in header.splitlines():
            f.write('# ' + l + '\n')
        for i in range(0, len(bytes_), 32):
            f.write(' '.join('%02x' % b for b in bytes_[i:i + 32]) + '\n')
        if not bytes_:
            f.write('\n')


def ddmin(unit, tape_bytes, env, sig, tmp, budget=400):
    """shrink a failing tape while the same signature class keeps failing (used for sanitizer aborts,
    which bypass rapidcheck's shrinking)"""
    runs = [0]

    def fails(b):
        if runs[0] >= budget:
            return False
        runs[0] += 1
        write_tape(tmp, b)
        ok, s, _, _ = replay_once(unit, tmp, env)
        return ok and s == sig

    cur = list(tape_bytes)
    n = 2
    while len(cur) >= 2 and runs[0] < budget:
        chunk = max(1, len(cur) // n)
        reduced = False
        i = 0
        while i < len(cur):
            cand = cur[:i] + cur[i + chunk:]
            if cand != cur and fails(cand):
                cur = cand
                reduced = True
            else:
                i += chunk
        if not reduced:
            if chunk == 1:
                break
            n = min(len(cur), n * 2)
    # trailing cut + zeroing
    while cur and fails(cur[:-1]):
        cur = cur[:-1]
    for i in range(len(cur)):
        if cur[i] and runs[0] < budget:
            cand = cur[:i] + [0] + cur[i + 1:]
            if fails(cand):
                cur = cand
    return cur, runs[0]


def merge_hashes(paths, cap=6000000):
    arr = array.array('Q')
    for p in paths:
        try:
            with open(p, 'rb') as f:
                data = f.read()
            a = array.array('Q')
            a.frombytes(data[:len(data) // 8 * 8])
            arr.extend(a)
        except OSError:
            pass
        if len(arr) > cap:
            break
    return len(set(arr))


def load_known():
    p = os.path.join(VERIF, 'known_findings.json')
    if not os.path.exists(p):
        return []
    return json.load(open(p)).get('findings', [])
