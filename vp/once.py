# once.py — how often does a public macro evaluate each of its arguments?
#
# The properties quantify over argument *values*; a caller may write any expression for an argument, also one with a side effect
# (`i++`, `next()`), and a function evaluates it exactly once. Two kinds of change break that silently for every plain-variable
# call a random tester makes: a documented function that becomes a function-like macro mentioning a parameter twice, and a
# documented macro whose new body mentions a parameter more often than before. Both are decided here on generated call
# expressions: for every name the executor uses, the preprocessor (with the unit's own -D flags, C++ mode like the executor)
# expands `name(VPARG0_, VPARG1_, ...)`, and the expansion is evaluated symbolically: the number of times each marker is evaluated
# on the worst path through the expression (`c ? a : b` counts c + max(a, b); operands of sizeof / typeof / alignof / decltype
# count 0; everything else adds up). A function name has the reference count 1 per argument; a macro has the counts recorded from
# the pinned tree in exec/once_baseline.json. More evaluations than the reference on some path = a finding, handed to the executor
# as a table (vp_once.h) and reported by it as an ordinary violation (so that replay, triage and evidence work as for any other).
import glob, json, os, re, subprocess

UNEVAL = {'sizeof', '__typeof__', 'typeof', '__typeof', '_Alignof', 'alignof', '__alignof__', '__alignof', 'decltype', '__builtin_types_compatible_p',
          '__builtin_constant_p', '__builtin_offsetof', 'offsetof', 'noexcept'}
STATEMENT_WORDS = {'if', 'else', 'switch', 'goto', 'case'}
LOOP_WORDS = {'for', 'while', 'do'}


def strip_comments(text):
    return re.sub(r'//[^\n]*', ' ', re.sub(r'/\*.*?\*/', ' ', text, flags=re.S))


def parse_headers(repo):
    """-> (functions {name: arity}, macros {name: nparams}) declared in include/a/*.h of the tree"""
    funcs, macros = {}, {}
    for h in sorted(glob.glob(os.path.join(repo, 'include', 'a', '*.h'))):
        src = strip_comments(open(h, errors='replace').read())
        joined = src.replace('\\\n', ' ')
        for m in re.finditer(r'^[ \t]*#[ \t]*define[ \t]+([A-Za-z_][A-Za-z0-9_]*)\(([^)]*)\)', joined, flags=re.M):
            params = [p.strip() for p in m.group(2).split(',')] if m.group(2).strip() else []
            if any(p == '...' or p.endswith('...') for p in params):
                continue
            if m.group(1).startswith('__'):
                continue  # compiler feature probes re-defined for portability
            macros.setdefault(m.group(1), len(params))
        for m in re.finditer(r'^\s*A_(?:EXTERN|INTERN|PUBLIC)\s+([^;{#]*?)\b(a_[A-Za-z0-9_]+)\s*\(([^;{]*?)\)\s*[;{]', src, flags=re.M | re.S):
            name, params = m.group(2), m.group(3).strip()
            if params in ('void', ''):
                ar = 0
            else:
                depth, ar = 0, 1
                for ch in params:
                    depth += ch == '('
                    depth -= ch == ')'
                    ar += ch == ',' and depth == 0
            if '...' in params:
                continue
            funcs.setdefault(name, ar)
    return funcs, macros


def tokenize(s):
    return re.findall(r'[A-Za-z_][A-Za-z0-9_]*|\d[\w.]*|"(?:\\.|[^"\\])*"|\'(?:\\.|[^\'\\])*\'|&&|\|\||[(){}\[\]?:,;]|[^\sA-Za-z0-9_]', s)


def count_tokens(toks, marker):
    """worst-path number of evaluations of `marker` in the token list (an expression, possibly with nested groups)"""
    # split into top-level items: groups become ('group', opener, [tokens], preceded_by_uneval)
    items, i = [], 0
    while i < len(toks):
        t = toks[i]
        if t in '([{':
            close = {'(': ')', '[': ']', '{': '}'}[t]
            depth, j = 1, i + 1
            while j < len(toks) and depth:
                depth += toks[j] == t
                depth -= toks[j] == close
                j += 1
            prev = toks[i - 1] if i else ''
            items.append(('group', t, toks[i + 1:j - 1], prev in UNEVAL))
            i = j
        else:
            items.append(('tok', t))
            i += 1

    def seq(items):
        # commas / semicolons at this level: plain sum; inside each piece: conditional operator
        total, piece = 0, []
        for it in items + [('tok', ',')]:
            if it[0] == 'tok' and it[1] in (',', ';'):
                total += cond(piece)
                piece = []
            else:
                piece.append(it)
        return total

    def cond(items):
        for k, it in enumerate(items):
            if it[0] == 'tok' and it[1] == '?':
                depth, j = 1, k + 1
                while j < len(items):
                    if items[j][0] == 'tok' and items[j][1] == '?':
                        depth += 1
                    if items[j][0] == 'tok' and items[j][1] == ':':
                        depth -= 1
                        if depth == 0:
                            break
                    j += 1
                return flat(items[:k]) + max(cond(items[k + 1:j]), cond(items[j + 1:]))
        return flat(items)

    def flat(items):
        n = 0
        for k, it in enumerate(items):
            if it[0] == 'tok':
                if it[1] == marker:
                    # an operand of sizeof without parentheses: `sizeof x`
                    if k and items[k - 1][0] == 'tok' and items[k - 1][1] in UNEVAL:
                        continue
                    n += 1
            elif not it[3]:
                n += count_tokens(it[2], marker)
        return n

    return seq(items)


def analyse(expansion, nparams):
    """-> list of worst-path counts per parameter, or None when the expansion has statements the evaluator does not model"""
    toks = tokenize(expansion)
    if any(t in STATEMENT_WORDS for t in toks):
        return None
    loop = any(t in LOOP_WORDS for t in toks)
    out = []
    for k in range(nparams):
        c = count_tokens(toks, 'VPARG%d_' % k)
        out.append(c if not loop else c)  # loops: the textual count (a lower bound of the worst path)
    return out


def expansions(repo, names, headers, defs, cxx=True):
    """names: {name: nparams}; -> {name: expansion text} for the names that are function-like macros in this configuration"""
    lines = ['#include "a/%s"' % h for h in headers]
    for n, ar in sorted(names.items()):
        lines.append('#ifdef %s' % n)
        lines.append('VPONCE_ "%s" : %s(%s)' % (n, n, ', '.join('VPARG%d_' % i for i in range(ar))))  # (the quoted name is not macro-replaced)
        lines.append('#endif')
    cmd = (['clang++', '-std=gnu++17', '-x', 'c++'] if cxx else ['clang', '-std=gnu11', '-x', 'c']) + ['-E', '-P', '-w', '-I', os.path.join(repo, 'include')] + list(defs) + ['-']
    r = subprocess.run(cmd, input='\n'.join(lines) + '\n', stdout=subprocess.PIPE, stderr=subprocess.PIPE, text=True)
    if r.returncode:
        raise RuntimeError('preprocessing failed: ' + r.stderr[-2000:])
    out = {}
    text = r.stdout
    for m in re.finditer(r'VPONCE_\s+"(\w+)"\s*:(.*?)(?=VPONCE_\s|\Z)', text, flags=re.S):
        out[m.group(1)] = ' '.join(m.group(2).split())
    return out


def executor_context(verif, exec_src):
    """identifiers the executor source (and the exec/*.h files it includes) mentions, and the a/*.h headers it includes"""
    seen, todo, text_all = set(), [os.path.join(verif, exec_src)], ''
    headers = []
    while todo:
        f = todo.pop()
        if f in seen or not os.path.exists(f):
            continue
        seen.add(f)
        text = open(f, errors='replace').read()
        text_all += strip_comments(text)
        for m in re.finditer(r'#\s*include\s*"([^"]+)"', text):
            inc = m.group(1)
            if inc.startswith('a/'):
                if inc[2:] not in headers:
                    headers.append(inc[2:])
            else:
                todo.append(os.path.normpath(os.path.join(os.path.dirname(f), inc)))
    return set(re.findall(r'[A-Za-z_][A-Za-z0-9_]*', text_all)), headers


def const_readers(repo, headers, defs, idents):
    """functions declared __attribute__((const)) although they take a pointer (a const function may not read memory through its
    arguments: the compiler is then free to reuse an earlier result after the caller has changed the data in place).
    Found on the preprocessed declarations of the unit's headers; -> list of names the executor uses"""
    src = '\n'.join('#include "a/%s"' % h for h in headers) + '\n'
    # (C mode: no extern "C" { } around the declarations)
    cmd = ['clang', '-std=gnu11', '-x', 'c', '-E', '-P', '-w', '-I', os.path.join(repo, 'include')] + [d for d in defs if d.startswith('-D') or d.startswith('-U')] + ['-']
    r = subprocess.run(cmd, input=src, stdout=subprocess.PIPE, stderr=subprocess.PIPE, text=True)
    if r.returncode:
        raise RuntimeError('preprocessing failed: ' + r.stderr[-2000:])
    text = r.stdout
    # drop function bodies / aggregate bodies: only declarators matter
    out, depth = [], 0
    for ch in text:
        if ch == '{':
            depth += 1
            if depth == 1:
                out.append(';')
            continue
        if ch == '}':
            depth -= 1
            if depth == 0:
                out.append(';')
            continue
        if depth == 0:
            out.append(ch)
    found = []
    for piece in ''.join(out).split(';'):
        if not re.search(r'__attribute__\s*\(\(\s*(?:[^()]*,\s*)?(?:__const__|const)\b', piece):
            continue
        flat = ' '.join(piece.split())
        m = re.search(r'\b(a_\w+)\s*\(((?:[^()]|\([^()]*\))*)\)\s*$', flat)
        if m and '*' in m.group(2) and m.group(1) in idents:
            found.append('%s (declared as a function): attribute const on a function that takes a pointer - the result may be reused by the compiler after the caller changed the pointed-to data; declaration: %s' % (m.group(1), flat[-240:]))
    return found


def baseline_path(verif):
    return os.path.join(verif, 'exec', 'once_baseline.json')


def scan_unit(verif, repo, unit):
    """-> (findings [str], number of names scanned, number that are macros) for one build unit"""
    idents, headers = executor_context(verif, unit.exec_src)
    funcs, macros = parse_headers(repo)
    base = json.load(open(baseline_path(verif)))['macros']
    names = {n: a for n, a in funcs.items() if n in idents}
    for n, a in macros.items():
        if n in idents and n in base and len(base[n]) == a and n not in names:
            names[n] = a
    names = {n: a for n, a in names.items() if a > 0}
    if not names or not headers:
        return [], 0, 0
    exp = expansions(repo, names, headers, list(unit.defs) + list(unit.exec_defs))
    findings = const_readers(repo, headers, list(unit.defs) + list(unit.exec_defs), idents)
    for n, e in sorted(exp.items()):
        counts = analyse(e, names[n])
        if counts is None:
            continue
        ref = [1] * names[n] if n in funcs else base[n]
        for k, (c, r0) in enumerate(zip(counts, ref)):
            if c > r0 and c > 1:
                kind = 'declared as a function' if n in funcs else 'macro'
                findings.append('%s (%s): argument %d is evaluated up to %d times on one path of its expansion, reference %d; expansion: %s' % (n, kind, k + 1, c, r0, e[:300]))
    return findings, len(names), len(exp)


def write_header(path, findings, nnames, nmacros):
    def cstr(s):
        return '"' + s.replace('\\', '\\\\').replace('"', '\\"') + '"'
    with open(path, 'w') as f:
        f.write('// generated by vp/once.py for this unit: names scanned %d, of which function-like macros in this configuration %d\n' % (nnames, nmacros))
        f.write('#ifndef VP_ONCE_H\n#define VP_ONCE_H\n')
        f.write('static char const *const vp_once_findings[] = {%s nullptr};\n' % ''.join(cstr(x) + ', ' for x in findings))
        f.write('static unsigned const vp_once_scanned = %d;\n#endif\n' % nnames)
