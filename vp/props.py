# props.py — per-property configuration: units (executor + liba sources + configuration) and engine plans
from .core import Unit, config_defs, HAVE_ALL

PROPS = {}

COMMON_ASSUME = [
    'x86-64 Linux, clang 14, glibc; liba sources compiled directly from /repo with the shipped flag set (-fPIC -fvisibility=hidden -DA_EXPORTS) plus ASan/UBSan at -O1',
    'nothing is proved: absence of violations is claimed only for the generated cases counted here',
    'arguments are judged as values: that a caller may write any expression for one (a function evaluates it once) is covered by the argument-evaluation scan of each unit (vp/once.py): for every library name the executor uses, the preprocessor expansion of name(marker, ...) with the unit flags must not evaluate a marker more often on its worst path than on the pinned tree (1 for a name the headers declare as a function; exec/once_baseline.json for documented macros)',
]

PROPS['C19'] = dict(
    level='exploration',
    rule='rapidcheck/libFuzzer choice tapes decoded into up to 24 sub-cases each (sqrt32/sqrt64 on random, k^2-1,k^2,k^2+1, 2^j+-1 '
         'arguments; gcd/lcm on random, multiples, coprime, Fibonacci, power-of-two, zero, extreme pairs; bit reversal on all widths; '
         'get/set at random offsets of an exact-size heap block) plus enumeration of the finite sub-domains listed under '
         'enumerated_domains; non-trivial = sqrt argument >= 4, or gcd pair both non-zero and different, or rev/getset word not 0/~0; '
         'distinct = hash of the decoded arguments (tape cases) + enumerated inputs (distinct by construction)',
    units=lambda tier, seed: [Unit('intmath', 'exec/C19.cc', ['a.c', 'math.c'], enum=True, tape_len=96),
                              Unit('intmath-nobitscan', 'exec/C19.cc', ['a.c', 'wrap:wrap_math_nobsr.c'], enum=True, tape_len=96,
                                   config='math.c compiled as by a compiler without a bit-scan builtin: digit-by-digit bodies of a_u32_sqrt / a_u64_sqrt')],
    plan={
        'quick': dict(rc_procs=4, rc_cases=30000, fuzz_procs=2, fuzz_secs=15, enum_shards=4, enum_tier=0),
        'thorough': dict(rc_procs=6, rc_cases=400000, fuzz_procs=3, fuzz_secs=90, enum_shards=8, enum_tier=1),
    },
    exhaustive_when_enum=False, has_enum=True,
    assumptions=COMMON_ASSUME + ['oracle: unsigned __int128 arithmetic, binary gcd, bit loop; independent of liba'],
    technique='property-based testing (rapidcheck choice tapes) + libFuzzer on the same executor + exhaustive enumeration of the 32-bit square root; oracle = exact 128-bit integer arithmetic',
    level_text='generated-input search against an exact integer oracle; the thorough tier enumerates all 2^32 arguments of a_u32_sqrt, every k^2-1,k^2,k^2+1 of a_u64_sqrt and all 8/16-bit reversals, the rest is sampled',
    level_note='trusts clang __int128 arithmetic and the reference gcd/bit-reversal loops in exec/C19.cc; 64-bit domains are sampled, not exhausted',
)

TREE_RULE = ('choice tape -> key-universe size in {4,8,12,16,32,64,128,256} and a history of <= 400 ops (search, insert x3, remove x2 of a present key, '
             'duplicate insert of a resident key (a second object, or the resident element itself), bulk insert of 8..64 keys, manual link + insert_adjust) with a comparator whose style is fixed per history (-1/0/+1, key difference, x1000, INT_MIN/INT_MAX, asymmetric mixes: the contract is the sign) on one tree whose nodes are separate 0xCC-poisoned heap blocks; two builds: the default packed node layout and the unpacked one (A_SIZE_POINTER=1: separate parent and balance/colour members); one tape in 16 (rapidcheck processes) instead builds the minimal-node AVL shape of height 10..20 (143..28656 nodes, level by level) and removes keys at both ends, at the root and at random, with the full walk after each; after every call a full walk checks links, order, '
             'balance/colour invariants and identity against a std::map model; non-trivial = >= 8 successful inserts, >= 1 removal of a two-child node '
             'and >= 1 insert after a removal; distinct = hash of (universe, decoded op/key sequence)')
TREE_ASSUME = COMMON_ASSUME + ['model: std::map<int, node*>; the walk reads the public node fields and decodes parent_ as documented in the header',
                               'histories are bounded by 400 operations and 256 live keys']

# second node layout of avl.h / rbt.h: separate parent + factor / colour members (selected when A_SIZE_POINTER is small)
UNPACKED = config_defs() + ['-DA_SIZE_POINTER=1']
UNPACKED_CFG = 'A_SIZE_POINTER=1: unpacked node layout (separate parent and balance/colour members)'

PROPS['C01'] = dict(
    level='exploration', rule=TREE_RULE, assumptions=TREE_ASSUME,
    units=lambda tier, seed: [Unit('avl', 'exec/trees.cc', ['avl.c'], exec_defs=['-DVP_PROP=1'], tape_len=400),
                              Unit('avl-unpacked', 'exec/trees.cc', ['avl.c'], defs=UNPACKED, exec_defs=['-DVP_PROP=1'], tape_len=400, config=UNPACKED_CFG)] +
    ([Unit('avl-O2', 'exec/trees.cc', ['avl.c'], exec_defs=['-DVP_PROP=1'], tape_len=600, opt='-O2', fuzz=False)] if tier == 'thorough' else []),
    plan={'quick': dict(rc_procs=6, rc_cases=6000, fuzz_procs=3, fuzz_secs=25),
          'thorough': dict(rc_procs=6, rc_cases=60000, fuzz_procs=5, fuzz_secs=240)},
    technique='model-based stateful property-based testing (rapidcheck choice tapes, std::map model, full invariant walk after every call) + coverage-guided libFuzzer on the same executor under ASan/UBSan',
    level_text='generated insert/remove/lookup histories against a reference model with every structural invariant of the statement checked after every call; sampling, not proof',
    level_note='trusts the std::map model and the invariant walker in exec/trees.cc; histories <= 400 ops, <= 256 keys',
)
PROPS['C02'] = dict(
    level='exploration', rule=TREE_RULE + '; labels record the unlink case and whether a black node left the tree', assumptions=TREE_ASSUME,
    units=lambda tier, seed: [Unit('rbt', 'exec/trees.cc', ['rbt.c'], exec_defs=['-DVP_PROP=2'], tape_len=400),
                              Unit('rbt-unpacked', 'exec/trees.cc', ['rbt.c'], defs=UNPACKED, exec_defs=['-DVP_PROP=2'], tape_len=400, config=UNPACKED_CFG)] +
    ([Unit('rbt-O2', 'exec/trees.cc', ['rbt.c'], exec_defs=['-DVP_PROP=2'], tape_len=600, opt='-O2', fuzz=False)] if tier == 'thorough' else []),
    plan={'quick': dict(rc_procs=6, rc_cases=6000, fuzz_procs=3, fuzz_secs=25),
          'thorough': dict(rc_procs=6, rc_cases=60000, fuzz_procs=5, fuzz_secs=240)},
    technique='model-based stateful property-based testing (rapidcheck choice tapes, std::map model, red-black invariant walk after every call) + coverage-guided libFuzzer under ASan/UBSan',
    level_text='generated histories against a reference model; root colour, red-red, black-height, order and parent links are checked after every call; sampling, not proof',
    level_note='trusts the std::map model and the invariant walker in exec/trees.cc; the -O2 unit (thorough) exercises the A_ASSUME code generation',
)
PROPS['C03'] = dict(
    level='exploration',
    rule='(a) histories as for C01/C02 on both containers, with the full iterator battery (six traversals in both macro spellings, head/tail, next/prev inverses) after '
         'mutating steps and a tear-down at the end whose start node (null, root or any element), interruption point and continuation mode come from the tape (nodes are freed when handed out); packed and unpacked node layouts; tall minimal shapes of height 8..14 with all traversals after every removal; '
         '(b) enumeration: every insertion order of n <= 6 (quick) / 8 (thorough) distinct keys, every ordered pair of removals, every tear interruption point; '
         'non-trivial = final tree with >= 5 nodes having a left-only and a right-only internal node; distinct = hash of the decoded history (a) / distinct tree shapes (b)',
    assumptions=TREE_ASSUME + ['reference traversals are recursive walks over the same links; link integrity itself is C01/C02'],
    units=lambda tier, seed: [Unit('avl', 'exec/trees.cc', ['avl.c', 'rbt.c'], exec_defs=['-DVP_PROP=3'], tape_len=300, enum=True),
                              Unit('rbt', 'exec/trees.cc', ['avl.c', 'rbt.c'], exec_defs=['-DVP_PROP=3', '-DVP_RBT'], tape_len=300, enum=True),
                              Unit('avl-unpacked', 'exec/trees.cc', ['avl.c', 'rbt.c'], defs=UNPACKED, exec_defs=['-DVP_PROP=3'], tape_len=300, fuzz=False, config=UNPACKED_CFG),
                              Unit('rbt-unpacked', 'exec/trees.cc', ['avl.c', 'rbt.c'], defs=UNPACKED, exec_defs=['-DVP_PROP=3', '-DVP_RBT'], tape_len=300, fuzz=False, config=UNPACKED_CFG)],
    plan={'quick': dict(rc_procs=4, rc_cases=5000, fuzz_procs=2, fuzz_secs=20, enum_shards=2, enum_tier=0),
          'thorough': dict(rc_procs=4, rc_cases=50000, fuzz_procs=4, fuzz_secs=180, enum_shards=8, enum_tier=1)},
    has_enum=True,
    technique='property-based testing of iterator sequences against recursive reference traversals over generated histories, plus exhaustive enumeration of all small trees (insertion orders x removals x tear interruption points); free-on-hand-out under ASan for tear-down',
    level_text='every iterator protocol (function and macro forms) compared element by element with a reference traversal on generated and exhaustively enumerated small trees; tear-down checked with immediate free under ASan',
    level_note='trusts the recursive reference traversals; trees beyond 256 nodes are not generated; exhaustive only for <= 8 keys',
)

SEQ_SRC = ['a.c', 'vec.c', 'buf.c']
PROPS['C04'] = dict(
    level='exploration',
    rule='choice tape -> container kind (vector via new/ctor, buffer via new/ctor-on-caller-storage with capacity 0..12), element size in {0->1,1,2,3,4,7,8,12,16,24}, '
         'optional second container, then <= 300 ops (push/pull either end, insert/remove/store/erase at indices from {in range, 0, 1, n/2, n-1, n, n+1, 2n+1, 2^31, 2^32-1, 2^63, '
         'SIZE_MAX-1, SIZE_MAX}, erase counts incl. SIZE_MAX and counts that wrap idx+num, setn/setm/setz, sort, push+sort_fore/sort_back, push_sort, search, swap, at/of/top/end, '
         'fill-to-capacity); after every op count<=capacity, payload bytes and returned pointers are compared with a std::vector model, the claimed capacity is touched under ASan and the '
         'allocator ledger is checked (allocator policy per history: always move, or grow in place within a size class); non-trivial = a positional remove or sort_fore/sort_back ran in BOTH capacity states (spare slot / exactly full) or an index >= 2^32 was used; '
         'distinct = hash of the decoded header and op bytes',
    assumptions=COMMON_ASSUME + ['model: std::vector<std::vector<uint8_t>>; sorted variants judged by a validity predicate (sorted + multiset preserved), tie positions free',
                                 'store counts are bounded by the source block the caller really passes (<= 6 elements); indices and erase counts are unbounded',
                                 'a_buf_setm below the current count: the abstract sequence is truncated to the new capacity'],
    units=lambda tier, seed: [Unit('vecbuf', 'exec/C04.cc', SEQ_SRC, tape_len=300)],
    plan={'quick': dict(rc_procs=10, rc_cases=12000, fuzz_procs=6, fuzz_secs=30),
          'thorough': dict(rc_procs=8, rc_cases=150000, fuzz_procs=8, fuzz_secs=300)},
    technique='model-based stateful property-based testing (rapidcheck choice tapes, std::vector model, validity predicates for sorted variants) + coverage-guided libFuzzer on the same executor under ASan/UBSan with an allocator ledger',
    level_text='generated operation histories on vector and buffer against an abstract sequence, with extreme indices/counts and both capacity states constructed on purpose; sampling, not proof',
    level_note='trusts the std::vector model in exec/C04.cc and ASan for ownership of returned pointers; histories <= 300 ops',
)

PROPS['C05'] = dict(
    level='exploration',
    rule='three executors. list: pool of 24 nodes, two rings, <= 300 ops (add_next/add_prev/add_node at any ring position, del_node/del_next/del_prev of real nodes, rot_next/rot_prev on any '
         'length incl. 0/1, mov_next/mov_prev of a non-empty ring followed by a_list_init, set_node, swap_node of distinct non-adjacent nodes in one ring or across rings, section '
         'del_/add_/set_/swap_ on disjoint non-adjacent sections); slist: add_head/add_tail/add/del/del_head/rot/mov on two lists incl. empty and one-element lists; removal-safe iteration macros of both list kinds (all spellings) with deletions selected by a mask from inside the loop body; que: two queues, '
         'element sizes {0->1,1,2,3,4,8,12,16}, push/pull either end, insert/remove with indices up to SIZE_MAX (incl. SIZE_MAX-k, 2^63+-k, 2^32-1+k: the signed views -1, -2, ...), at() for negative/huge indices, push_sort, push+sort_fore/sort_back on sorted '
         'contents, element swap (adjacent, non-adjacent or identity), whole-queue swap, drop, setz, foreach (macro forms), bulk push/pull of 8..80 elements, comparator styles as for the trees, sorted inserts with a probe key of another layout half of the time (the key is documented to be the right-hand argument), and a fill-to-K / pull-a-few / drop scenario with K around the pool thresholds 8..65; after every op both rings are walked forwards and backwards against the model, element '
         'addresses must stay fixed and a pushed slot must not alias an enqueued element. non-trivial = list: a cross-ring swap or a section op; slist: a rot/mov on length <= 1 AND one on '
         'length >= 3; que: a pull followed by >= 2 pushes (recycling) or a whole-queue swap with a non-empty side. distinct = hash of the decoded op bytes and positions',
    assumptions=COMMON_ASSUME + ['preconditions respected by construction and counted under excluded_by_construction: swaps only on distinct non-adjacent nodes/sections, a_list_mov_* only from a non-empty ring '
                                 'that is re-initialised afterwards, a_slist_mov followed by a_slist_dtor of the source (as the repository tests do), element swap across queues only for equal element sizes'],
    units=lambda tier, seed: [Unit('list', 'exec/C05_list.cc', [], exec_defs=['-DVP_SUB=1'], tape_len=300),
                              Unit('slist', 'exec/C05_list.cc', [], exec_defs=['-DVP_SUB=2'], tape_len=200),
                              Unit('que', 'exec/C05_que.cc', ['a.c', 'que.c'], tape_len=300)],
    plan={'quick': dict(rc_procs=3, rc_cases=15000, fuzz_procs=2, fuzz_secs=25),
          'thorough': dict(rc_procs=4, rc_cases=150000, fuzz_procs=3, fuzz_secs=240)},
    technique='model-based stateful property-based testing (rapidcheck choice tapes; std::vector/std::deque models; ring walks in both directions after every op) + coverage-guided libFuzzer under ASan/UBSan with an allocator ledger',
    level_text='generated operation histories on intrusive lists, singly linked lists and the queue against abstract sequences; sampling, not proof',
    level_note='trusts the models in exec/C05_*.cc; pool of 24 list nodes, histories <= 300 ops',
)

PROPS['C06'] = dict(
    level='exploration',
    rule='choice tape -> <= 300 ops on two strings (heap or embedded objects): catc/catn/cats/cat and their non-terminating "_" forms with any byte values (NUL, >= 0x80) and lengths '
         'chosen to land 2/1/0 short of and 1 past the current capacity, catf from 11 typed templates (%s with a string sized to fill the spare room exactly / one more, %.*s, %d, %5u, %x, %c, '
         '%%, %g, mixed; three templates with a wide-character conversion the "C" locale refuses - at once, after partial output, inside a wide string: the formatter returns a negative value, nothing is appended and a terminated string stays terminated) compared with snprintf on the same arguments, a_utf_catc over all six encoding lengths and on code points related to the one appended before (UTF-16 surrogate halves one after the other, the same again), getc/getn (with/without destination, counts up to SIZE_MAX), trim/ltrim/rtrim '
         'with default white space and explicit sets (incl. NUL, high bytes, "every byte of the content"), setn/setn_ within capacity, setm (incl. reservations of 200..65536 bytes), index accessors at/at_/of, a_utf_len against a_utf_length, a_str_cmp_/cmpn on prefixes of the other string and of the storage of the string itself, exit (ownership hand-over, block checked and released), '
         'swap, dtor+ctor, cmp/cmpn/cmps; after every op len<=mem, content, and the NUL after the content (after terminating variants) are checked against std::string under ASan with an '
         'allocator ledger (allocator policy per history: always move, or grow in place within a size class). non-trivial = history with a reallocation of a non-empty string, a formatted append that exactly fills the spare capacity, or a trim that empties a string of >= 2 bytes; '
         'distinct = hash of the decoded op bytes',
    assumptions=COMMON_ASSUME + ['self-aliasing appends (a_str_cat(ctx, ctx)) are not generated', 'default white-space set = C locale isspace',
                                 'a_str_setm_ (unchecked) is not called with a capacity below the length'],
    units=lambda tier, seed: [Unit('str', 'exec/C06.cc', ['a.c', 'str.c', 'utf.c'], tape_len=300)],
    plan={'quick': dict(rc_procs=10, rc_cases=12000, fuzz_procs=6, fuzz_secs=30),
          'thorough': dict(rc_procs=8, rc_cases=150000, fuzz_procs=8, fuzz_secs=300)},
    technique='model-based stateful property-based testing (rapidcheck choice tapes, std::string model, snprintf differential for formatted append) + coverage-guided libFuzzer under ASan/UBSan with an allocator ledger',
    level_text='generated operation histories on the dynamic string against an abstract byte string, lengths aimed at reallocation boundaries; sampling, not proof',
    level_note='trusts std::string, glibc snprintf and ASan; histories <= 300 ops, strings <= a few hundred bytes',
)

PROPS['C07'] = dict(
    level='fault_enumeration',
    rule='histories as in C04 (vector, buffer), C05 (queue) and C06 (string), <= 60 ops each, generated from choice tapes. For every history the executor first runs it fault-free under a counting '
         'allocator shim (N = number of allocation requests, capped at 96) and then re-runs it from scratch for EVERY k in 1..N in two fault shapes: only request k fails / every request >= k fails. '
         'At the op where the fault strikes the return value must signal failure, the container must equal the model before the op (incl. the NUL terminator) and pass all C04/C05/C06 invariants; '
         'in single-fault mode the same op is retried at once and must succeed; the ledger of live blocks must be empty after destruction (no leak, no double/foreign free). '
         'non-trivial = history in which an injected fault hit a library request in an op that was not the first; evaluations = histories, oracle_evaluations counts ops plus faulty executions; '
         'distinct = hash of (decoded history, N)',
    assumptions=COMMON_ASSUME + ['a_que_setz: its documented effect begins with an unconditional drop, so after a failed setz the queue may be validly empty with its old element size (declared reading, DESIGN §4 C07)',
                                 'the allocator shim follows one of two policies per history: every reallocation moves the block (exact-size blocks, stale pointers are ASan errors), or blocks grow in place inside their power-of-two size class with the slack poisoned',
                                 'fault positions are enumerated exhaustively per history (up to 96 requests); histories themselves are sampled'],
    units=lambda tier, seed: [Unit('vecbuf', 'exec/C04.cc', SEQ_SRC, exec_defs=['-DVP_FAULT'], tape_len=120),
                              Unit('que', 'exec/C05_que.cc', ['a.c', 'que.c'], exec_defs=['-DVP_FAULT'], tape_len=120),
                              Unit('str', 'exec/C06.cc', ['a.c', 'str.c', 'utf.c'], exec_defs=['-DVP_FAULT'], tape_len=120)],
    plan={'quick': dict(rc_procs=3, rc_cases=1500, fuzz_procs=2, fuzz_secs=25),
          'thorough': dict(rc_procs=4, rc_cases=20000, fuzz_procs=3, fuzz_secs=240)},
    technique='fault injection by exhaustive enumeration of allocation-failure positions over generated histories (rapidcheck choice tapes + libFuzzer), model-based oracle and live-block ledger',
    level_text='every allocation request of every generated history is made to fail (single fault and persistent fault); the container is compared with the model at the failing op and the block ledger is balanced at destruction',
    level_note='histories are sampled; fault positions within a history are exhaustive up to 96 requests; trusts the shim allocator and the models of C04/C05/C06',
)

PROPS['C09'] = dict(
    level='exploration',
    rule='three builds: a_real = double, float, long double (A_SIZE_REAL = 8 / 4 / 16). choice tape -> up to 8 sub-cases: kernel in {mulmm, mulTm, mulmT, mulTT, T2 (+back), T1 (vs T2, twice), eye1/eye2, tri1/tri2, diag+diag1, diag2, triL/triL1/triL2/triU/triU1/triU2}, '
         'row/col/inner dimensions independent in 1..9 (thorough: 1..20), one case in 16 with dimensions from {15..140}, contents from three classes (small integers, integers with signed zeros, reals with exponents 2^-8..2^8, in a quarter of the fills stretched to 2^+-24 / 2^+-400 / 2^+-7200 by type - beyond the double range in the long double build); in a quarter of the product cases the two read-only operands share storage (the smaller is the leading part of the larger), in another quarter X, Y and Z are carved back to back in any order out of one block, in another the operands lie in read-only memory; inputs and outputs are '
         'exact-size heap blocks under ASan, outputs pre-filled with a signalling value so that unwritten cells are detected; products compared exactly with a long double triple loop for the integer classes and within '
         '4*(k+1)*u*sum|x||y| for reals; all other kernels compared bitwise with the pattern written from the header text. non-trivial = rows != cols for a rectangular kernel, three pairwise different '
         'dimensions for a product, or T1 on n >= 3; distinct = hash of (kernel, dimensions, contents)',
    assumptions=COMMON_ASSUME + ['dimensions >= 1 as the statement quantifies', 'reference: long double triple loop on explicitly transposed index expressions'],
    units=lambda tier, seed: [Unit(nm, 'exec/C09.cc', ['a.c', 'linalg.c'], defs=config_defs(real), exec_defs=['-DVP_MAXDIM=%d' % (20 if tier == 'thorough' else 9)],
                                   tape_len=400 if tier == 'thorough' else 256, config='a_real = %s (A_SIZE_REAL=%d)' % (ty, real))
                              for nm, real, ty in (('linalg', 8, 'double'), ('linalg-f32', 4, 'float'), ('linalg-f80', 16, 'long double'))],
    plan={'quick': dict(rc_procs=5, rc_cases=40000, fuzz_procs=2, fuzz_secs=20),
          'thorough': dict(rc_procs=5, rc_cases=400000, fuzz_procs=3, fuzz_secs=240)},
    tolerances={'real_product_bound': '4*(k+1)*2^-53*sum|x_l||y_l|', 'integer_classes': 'exact'},
    technique='property-based testing against definitional reference loops (differential oracle), exact-size ASan-guarded inputs/outputs, rapidcheck choice tapes + libFuzzer',
    level_text='generated shapes (square, tall, wide, inner dimension 1) and contents for every kernel of linalg.c compared with the definition; sampling, not proof',
    level_note='trusts the reference loops in exec/C09.cc; dimensions <= 20',
)

PROPS['C08'] = dict(
    level='exploration',
    rule='three builds of the library and executor: a_real = double, float and long double (A_SIZE_REAL = 8 / 4 / 16), unit roundoff u of that type in every bound. choice tape -> factorisation (PLU / LDL^T / LL^T), order n in 1..12 (thorough 1..32), occasionally 13..65 pattern-filled, matrix class: small integers, reals, rows/cols scaled by 2^+-k, near-singular rank-one + 2^-30 noise, '
         'pivot exchange forced at the last step, Hilbert/Vandermonde-like, global scale 2^s (|s| <= 30 / 300 / 4800 for float / double / long double builds, the last reaching beyond the double range), wide-exponent reals, strictly diagonally dominant integers (must succeed), and exactly singular classes '
         'whose elimination is exact: zero column, bit-identical rows, zero row (PLU); integer unit-L * D * L^T with a zero in D (LDL^T); integer L*L^T with a zero diagonal entry or a pivot made negative (LL^T); '
         'badly scaled block-diagonal classes (uncoupled blocks multiplied by 4^S, S over +-505 / +-57 / +-8185 by type: pivots from ~min to ~max in one matrix; solve and inverse are skipped there), strided triangular solves (lower_/upper_) on one column of an n x n block, solves with the factors returned by plu_L / plu_U / llt_L; symmetric inputs get their strict upper triangle poisoned in half of the cases (the code reads only the lower triangle). Oracle in long double: permutation + parity = sign, |L_ij| <= 1, positive Cholesky diagonal, '
         'componentwise |PA-LU| <= 4*gamma_n|L||U| (gamma_2n for LDL^T, gamma_{n+1} for LL^T, lower triangle), solve / inv / inv_ residuals |b-Ax| <= 4*gamma_{3n(+2)}*(|L||D||L^T|)|x|, det/lndet/sgndet against '
         'products/sums of the stored pivots and against each other, extraction helpers exact, the determinant family also on a compact factor written by the caller (diagonal with exact zeros of either sign, negative entries, one entry at the smallest normal: sgndet must be the sign product or 0, det 0 and lndet -inf with a zero), solve / inverse / determinant routines also with their const inputs in read-only memory (same bits), LDL^T inputs whose rows / columns k and k+1 are bit-identical (multiplier x/x = 1, next pivot d - d = 0 exactly) must fail, singular classes must fail and dominant classes must succeed. non-trivial = n >= 4 and (a row exchange happened, or a '
         'non-default symmetric class, or a singular class that was reported); distinct = hash of (kind, n, matrix entries)',
    assumptions=COMMON_ASSUME + ['entries are kept in an exponent window where no intermediate of the elimination over/underflows; cases whose factors still become non-finite are counted under excluded_by_construction',
                                 'singular matrices from real-valued constructions other than the exact classes are not required to fail',
                                 'det is compared only while every prefix of the running product of pivots stays representable in a_real (float 1e-34..1e36, double 1e-290..1e300, long double 1e-4890..1e4900); lndet is always compared'],
    units=lambda tier, seed: [Unit(nm, 'exec/C08.cc', ['a.c', 'math.c', 'linalg.c', 'linalg_plu.c', 'linalg_ldl.c', 'linalg_llt.c'], defs=config_defs(real),
                                   exec_defs=['-DVP_MAXN=%d' % (32 if tier == 'thorough' else 12)], tape_len=6000 if tier == 'thorough' else 900,
                                   config='a_real = %s (A_SIZE_REAL=%d), all A_HAVE_* on' % (ty, real))
                              for nm, real, ty in (('factor', 8, 'double'), ('factor-f32', 4, 'float'), ('factor-f80', 16, 'long double'))],
    plan={'quick': dict(rc_procs=5, rc_cases=12000, fuzz_procs=2, fuzz_secs=25),
          'thorough': dict(rc_procs=5, rc_cases=60000, fuzz_procs=3, fuzz_secs=300)},
    tolerances={'safety_factor_c': '4 (6 in the long double build, where the residual is evaluated in the same precision)', 'reconstruction': 'c*gamma_n|L||U| (PLU), c*gamma_2n|L||D||L^T| (LDL^T), c*gamma_{n+1}|L||L^T| (LL^T)',
                'solve_inverse': 'c*gamma_{3n}(P^T|L||U|)|x| resp. c*gamma_{3n+2}(|L||D||L^T|)|x|', 'lndet': 'c*(n+2)*u*(sum|log d_i|+1)', 'det': 'c*gamma_{n+1}|det| (2n+2 for symmetric)'},
    technique='property-based testing with validity predicates (standard componentwise backward-error bounds evaluated in long double) over structured matrix classes; exactly singular classes built so the elimination is exact; rapidcheck tapes + libFuzzer under ASan',
    level_text='generated matrices per class against residual bounds from the standard error analysis with a fixed safety factor 4; sampling, not proof; errors below the bound are invisible',
    level_note='trusts long double (64-bit mantissa) residual evaluation: its own error is 2^11 below the bound for double, 2^40 for float, and of the order of the unit of the bound for the long double build (safety factor raised to 6); orders <= 65',
)

PROPS['C17'] = dict(
    level='exploration',
    rule='choice tape -> CRC case (width 8/16/32/64, bit order, polynomial from published ones, arbitrary incl. top bit set, the bit reversal of a tape word, or an integer literal harvested from the library source / its bit reversal, arbitrary initial value, message of 0..300 bytes: digits, arbitrary, high bytes, text-like, or records of 2/4/8-byte machine words in either byte order from a boundary pool with copy / negation / complement / +1 of the predecessor and zero runs; two split points) or hash case '
         '(bkdr/sdbm, initial value, message, split point). The table buffer starts with chosen contents (pattern, zeros, table of the other bit order, the right table with all but three entries damaged); table and message are also passed in read-only memory. CRC oracle: all 256 table entries and the value equal bit-by-bit polynomial division in the same bit order (reference written from the definition, own bit '
         'reflection), three-piece feeding with carried value = one shot, and the opposite bit order on bit-reflected data/value gives the bit-reflected result. Hash oracle: multiply-add definition in 32-bit arithmetic, '
         'hash(ab,v) = hash(b, hash(a,v)), NUL-terminated form = length form on the prefix before the first NUL, mixed feeding. Messages live in exact-size heap blocks (ASan). Enumeration: one message of 2^32 + d bytes per routine (7 CRC updates, 4 hash forms; a 2 MiB block of non-zero bytes mapped 2049 times), at once against three pieces shorter than 2^32. non-trivial = message >= 2 bytes containing '
         'a byte outside 0x30-0x39 and a non-zero initial value; distinct = hash of (kind, width, order, polynomial, initial value, message)',
    assumptions=COMMON_ASSUME + ['reference: bitwise shift/xor division and bit-loop reflection in exec/C17.cc, independent of liba helpers'],
    units=lambda tier, seed: [Unit('crc_hash', 'exec/C17.cc', ['crc.c', 'hash.c'], tape_len=360, enum=True)],
    plan={'quick': dict(rc_procs=4, rc_cases=30000, fuzz_procs=3, fuzz_secs=20, enum_shards=11, enum_tier=0),
          'thorough': dict(rc_procs=8, rc_cases=200000, fuzz_procs=8, fuzz_secs=240, enum_shards=11, enum_tier=1)},
    has_enum=True,
    technique='property-based differential testing against a bit-by-bit reference plus metamorphic relations (reflection, concatenation); rapidcheck tapes + libFuzzer under ASan + one message beyond 2^32 bytes per routine (enumeration engine)',
    level_text='generated polynomials, initial values, messages and split points against the defining bitwise division; sampling, not proof',
    level_note='trusts the bitwise reference in exec/C17.cc; messages <= 300 bytes, plus one of 2^32 + d bytes per routine judged by at-once vs pieces only',
)
PROPS['C18'] = dict(
    level='exploration',
    rule='(a) enumeration of code points (thorough: every value in [1,2^31); quick: every value below 2^21, +-4096 around each length boundary, stride 7919 over the rest): a_utf_encode length = UTF-8 table, bytes = '
         'reference encoder written from the bit layout, decode(encode(c)) = (same length, c) with and without value output, every proper prefix fails; encode/decode buffers end flush against a PROT_NONE page. '
         '(b) choice tapes: code points near boundaries, arbitrary byte strings of 0..16 bytes (lead/continuation/NUL dictionary) with an independently chosen stated length in an exact-size heap block (ASan): result <= stated '
         'length and <= 6, equal with and without value output, r >= 2 only if the lead announces r and bytes 1..r-1 are continuation bytes and the value equals the bit layout, r = 1 only for a non-NUL byte below 0xC0, '
         'complete well-formed sequences are not rejected; a_utf_length = number / total length of successive successful decodes; well-formed strings: both counters = number of code points; texts of up to 256 mostly-ASCII code points with embedded NULs before the stated end and random cuts: a_utf_length = successive decodes; a string object built with a_utf_catc - after every append the bytes are the concatenated reference encodings and a_utf_len the number of code points appended, with code points related to the previous one (the two halves of a UTF-16 surrogate pair in sequence, the same again, one bit flipped) - and cut back by 0..6 bytes through the non-terminating interface: a_utf_len = a_utf_length on an exact-size copy of the first a_str_len bytes. '
         'non-trivial = multi-byte code point or input starting with a byte >= 0x80; distinct = code points (enumerated, distinct by construction) + hash of decoded tape cases',
    assumptions=COMMON_ASSUME + ['a stray continuation byte decoding as a 1-byte character is not judged: the statement only constrains multi-byte acceptance',
                                 'a_utf_length_ (unchecked counter) is only required to be memory-safe on arbitrary input and exact on well-formed input'],
    units=lambda tier, seed: [Unit('utf8', 'exec/C18.cc', ['a.c', 'utf.c', 'str.c'], tape_len=64, enum=True)],
    plan={'quick': dict(rc_procs=6, rc_cases=60000, fuzz_procs=4, fuzz_secs=20, enum_shards=6, enum_tier=0),
          'thorough': dict(rc_procs=6, rc_cases=600000, fuzz_procs=6, fuzz_secs=180, enum_shards=16, enum_tier=1)},
    has_enum=True, exhaustive_when_enum=False,
    technique='exhaustive enumeration of code points (round trip vs a reference encoder, prefix rejection, guard page) + property-based testing/fuzzing of arbitrary byte strings with a validity predicate under ASan',
    level_text='thorough tier enumerates all 2^31-1 code points; arbitrary byte input is sampled by rapidcheck and libFuzzer with the decoder validity predicate inside the target',
    level_note='trusts the reference encoder in exec/C18.cc; byte strings <= 16 bytes',
)

PROPS['C16'] = dict(
    level='exploration',
    rule='two builds: a_real = double and float (exactness limit 2^52 resp. 2^23, ulps of the type; the strict-interior window of the generators is [1e-6, 1e5] in the float build, where 1 - 1/(2 pi 1e12) is not representable). choice tape -> one of: (tf) orders num_n, den_n in 0..8, integer coefficients |c|<=3, two integer input sequences |x|<=5 of length <= 24, a zero() position, scalars and a delay: outputs compared exactly with an '
         '__int128 reference recurrence while every partial sum stays below 2^52, zero+rerun compared with a freshly initialised filter, linearity and time invariance exact on integers, delay lines in exact-size dirty heap blocks, a new numerator or denominator (0..8 coefficients) installed on the live filter with a_tf_set_num / a_tf_set_den (replaced side restarts from zero, the other side keeps its history), the C++ member init/set_num/set_den/call operator/zero on a twin, coefficient vectors of the primary filter in read-only memory, homogeneity: the inputs times 2^s give the integer response times 2^s exactly, s over the whole exponent range and preferably at its ends (results down to the smallest subnormal), stored history = returned value; '
         '(lpf) alpha from {0, 1, j/2^m, 2^-k, 1-2^-k, uniform}, integer or real inputs: output inside the range of {0, inputs so far} (exact for the dyadic class, 4 ulp otherwise), constant input: monotone approach and '
         'settling no slower than (1-alpha)^k; (hpf) arbitrary prefix then a constant input: |output| non-increasing and bounded by alpha^k of the step response up to the rounding of (output+x)-input, zero = fresh; lpf/hpf member gen / call operator / zero bit-equal to the C forms; '
         '(gen) fc, ts positive doubles over the WHOLE exponent range (subnormal .. near DBL_MAX), half of them steered so that fc*ts lies in [1e-12, 1e12]: results in [0,1], macro forms A_LPF_GEN / A_HPF_GEN / A_LPF_1/2 / A_HPF_1/2 with expressions as arguments equal to the functions, strictly inside and within 4 ulp of the '
         'long double formula when the product is in the window. non-trivial = tf with num_n,den_n >= 2 and >= 3 distinct consecutive inputs or a mid-history zero with num_n != den_n; lpf/hpf with 0 < alpha < 1; every gen case; '
         'distinct = hash of decoded parameters and inputs',
    assumptions=COMMON_ASSUME + ['tf exactness is asserted only while all partial sums stay below 2^52 (longer histories are cut and counted)',
                                 'hpf decay is judged up to the rounding error of (output + x) - input, which is relative to the input magnitude',
                                 'long double (x87) supplies the exponent range for fc*ts of any two doubles'],
    units=lambda tier, seed: [Unit(nm, 'exec/C16.cc', ['a.c', 'math.c', 'tf.c'], defs=config_defs(real), tape_len=200, config='a_real = %s (A_SIZE_REAL=%d)' % (ty, real))
                              for nm, real, ty in (('filters', 8, 'double'), ('filters-f32', 4, 'float'))],
    plan={'quick': dict(rc_procs=6, rc_cases=40000, fuzz_procs=3, fuzz_secs=20),
          'thorough': dict(rc_procs=6, rc_cases=400000, fuzz_procs=4, fuzz_secs=240)},
    tolerances={'lpf_range': '0 (dyadic alpha, integer inputs, <= 8 steps) else 4 ulp of the largest input', 'generators': '4 ulp of the long double formula'},
    technique='property-based testing: exact integer reference model for the transfer function plus metamorphic relations (linearity, time invariance, zero = fresh), range/monotonicity invariants for the RC filters; rapidcheck tapes + libFuzzer under ASan',
    level_text='generated orders, coefficients and input histories against an exact integer recurrence; filters and generators against invariants and the long double formula; sampling, not proof',
    level_note='trusts the __int128 reference recurrence; orders <= 8, histories <= 24 samples',
)

PROPS['C15'] = dict(
    level='exploration',
    rule='two builds: a_real = double and float (u of the type in every bound). choice tape -> cubic/quintic/septic trajectory (duration 2^k, k in -10..10, or log-uniform real in [1e-3,1e3]; boundary values integers |v|<=1000 (all derivatives non-zero in 3/4 of the cases; one case in 16 with every end datum equal to plus or minus the start datum: equal, negated, time-mirrored, anti-mirrored) or reals '
         '2^-10..2^10; one case in four is a nearly degenerate request: the boundary data of a motion of degree <= 3 with one datum moved by a relative 1e-1..1e-15 or not at all) or a polynomial (n in 0..13 coefficients, integer or real, evaluation point). Oracle in exact rational arithmetic (GMP mpq, doubles convert exactly): pos(0)=p0 and vel(0)=v0 exactly, acc(0)/jer(0) '
         'within 2 ulp; stored coefficients against the exactly solved boundary-value problem and end values of the stored polynomial against the requested ones within 16384*u*falling(deg,k)*S/T^k (S = sum of |boundary data| in position units); '
         'accessor outputs = exact derivative coefficients of the stored polynomial (2 ulp), vel/acc/jer(x) = exact derivatives of the stored position polynomial within the Horner bound at 4 query times (inside, at and outside [0,T]); '
         'the C++ member gen/pos/vel/acc/jer/c0..c3 of the three structures give bit-identical coefficients and values; the evaluation routines also run on a read-only copy of the coefficients; a_poly_eval/evar = exact ascending/descending value within the Horner bound, n = 0 gives 0, evar(swap(a)) = eval(a) and swap twice = identity bit for bit. '
         'non-trivial = all boundary derivatives non-zero and T != 1, or a polynomial with n >= 1; distinct = hash of decoded parameters',
    assumptions=COMMON_ASSUME + ['durations in [2^-10, 2^10] and boundary magnitudes <= 2^10 (no intermediate overflow; the statement\'s "many orders of magnitude")',
                                 'tolerance constant 16384 on u*scale is about 25x the largest ratio seen on the unchanged tree (evidence: metrics)'],
    units=lambda tier, seed: [Unit(nm, 'exec/C15.cc', ['a.c', 'poly.c', 'trajpoly3.c', 'trajpoly5.c', 'trajpoly7.c'], defs=config_defs(real), libs=['-lgmpxx', '-lgmp'], tape_len=128,
                                   config='a_real = %s (A_SIZE_REAL=%d)' % (ty, real))
                              for nm, real, ty in (('poly', 8, 'double'), ('poly-f32', 4, 'float'))],
    plan={'quick': dict(rc_procs=6, rc_cases=12000, fuzz_procs=3, fuzz_secs=25),
          'thorough': dict(rc_procs=6, rc_cases=200000, fuzz_procs=4, fuzz_secs=240)},
    tolerances={'end_values_and_coefficients': '16384*u*falling(deg,k)*S/T^k', 'horner': '4*(2n+6)*u*sum|c_i||x|^i', 'accessors': '2 ulp'},
    technique='property-based testing against an exact rational (GMP) reference: exact solution of the boundary-value problem and exact derivatives of the stored polynomial; rapidcheck tapes + libFuzzer under ASan',
    level_text='generated durations, boundary data and query times judged in exact rational arithmetic with stated rounding bounds; sampling, not proof',
    level_note='trusts GMP; errors below the stated bounds are invisible',
)

PROPS['C14'] = dict(
    level='exploration',
    rule='choice tape -> trapezoid or bell request: limits log-uniform in [0.05, 200], distance log-uniform in [1e-3, 1e4] in either direction, start position in [-1000, 1000] or 0, boundary velocities inside the limit '
         '(0, exactly on the limit, 30% opposing the travel direction, 10% outside the limit to exercise clamping); trapezoid: sign(ac) = sign(p1-p0), sign(de) = -sign(p1-p0) by construction; bell: the request is made feasible by the '
         'standard double-S inequality (evaluated in long double; infeasible draws are repaired by doubling the distance); a third of the bell requests lie on a coarse lattice (all quantities small multiples of 1, 1/2, 1/4, 1/5, 1/8 or 1/10), two ninths are single-phase requests constructed next to the dyadic accelerations am*k/2^n the planner tries; enumeration: every bell request on the lattices listed under enumerated_domains. Only a positive return value activates the oracle (others are counted under excluded_by_construction): '
         'non-negative phase durations adding up to T, pos(0)=p0, vel(0)=clamped v0, pos(T)=p1, vel(T)=recorded v1 (1e-9*scale), hold before 0 / after T (incl. acc=jer=0 for the bell profile), continuity of pos/vel(/acc) across every '
         'phase boundary (1e-7*scale between nextafter(t_b,-inf) and t_b), |vel|<=vm, |acc|<=am, |jer|<=jm (1e-9 relative) on a 200-point grid plus every boundary +-1ulp plus segment midpoints, and vel = d pos/dt, acc = d vel/dt, '
         'jer = d acc/dt by central differences inside every phase longer than T/1000. The C++ member gen/pos/vel/acc/jer of both structures are called with the same arguments and compared bit for bit. non-trivial = any branch other than the plain full profile (no cruise, empty acceleration or deceleration phase, reduced acceleration) or '
         'reversed travel; distinct = hash of the request',
    assumptions=COMMON_ASSUME + ['scale s = max(|p0|,|p1|,|p1-p0|, vm*T, 1); velocity/acceleration/jerk scales are the requested limits',
                                 'a request that the generator rejects (return value <= 0) is outside the statement and is not judged',
                                 'the trapezoid final velocity is drawn in the direction of travel (a trapezoid cannot end moving backwards)'],
    units=lambda tier, seed: [Unit('traj', 'exec/C14.cc', ['a.c', 'math.c', 'trajtrap.c', 'trajbell.c'], tape_len=64, enum=True)],
    plan={'quick': dict(rc_procs=8, rc_cases=20000, fuzz_procs=4, fuzz_secs=25, enum_shards=6, enum_tier=0),
          'thorough': dict(rc_procs=6, rc_cases=300000, fuzz_procs=6, fuzz_secs=240, enum_shards=8, enum_tier=1)},
    has_enum=True,
    tolerances={'boundary_state': '1e-9*scale', 'continuity': '1e-7*scale', 'limits': '1e-9 relative', 'derivative_link': '1e-5*scale + 64u*scale/h (+ jm h^2 for cubic segments)'},
    technique='property-based testing with validity predicates over generated feasible requests (boundary states, limits, continuity at all phase boundaries, derivative consistency); rapidcheck tapes + libFuzzer + exhaustive enumeration of the bell requests on small rational lattices',
    level_text='generated requests covering all planning branches plus every bell request on the enumerated lattices, judged by predicates with stated tolerances; sampling outside the lattices, not proof',
    level_note='trusts the feasibility inequality and tolerance constants in exec/C14.cc; limits in [0.05, 200], distances in [1e-3, 1e4]',
)

PROPS['C13'] = dict(
    level='exploration',
    rule='two builds: a_real = double and float. choice tape -> (a) one membership function of the 13 families with break points sorted by construction (equalities with probability 1/4 for trap/tri/lins/linz, non-zero widths for gauss/gbell/sig/S/Z/pi, equal slopes '
         'and ordered centres for dsig) and x from {far left/right, each break point and its neighbours within 2 ulp, midpoints, random}: value in [0,1] (never NaN), equal to the documented piecewise shape evaluated in long double '
         '(4..256 ulp of 1 per family), exactly 1 on the core of the compact families incl. degenerate shoulders, S+Z = lins+linz = 1, monotone on each flank for a second point, dispatcher bit-equal; a zero-width ramp may take any '
         'value in [0,1] at its single break point; (b) a pair (and a third value) of membership degrees incl. 0, 1, equal values, denormals: each of the seven operators equals its documented formula (2 ulp, 8 for equ), is commutative '
         'bit for bit, monotone, intersections <= min, unions >= max, boundary cases at 0 and 1, equ between the algebraic product and sum, equ_(1/2)=equ; (c) a fuzzy PID with rule order 2..7, any of the seven operators, membership '
         'tables generated as ordered partitions (tri with end shoulders as in the repository test, trap, gauss, mixed lins/linz/S/Z/pi/gbell/gauss2/sig/dsig/psig; neighbour overlap 1..2.5 widths; one table in nine has fewer sets than the order and is closed by the A_MF_NUL entry), integer consequents, and up to 12 steps with e and ec on '
         'set centres, inside, around and far outside the tables: after each step gain - base gain = weighted mean of the consequents of the active rules (weights by the documented formula in double, accumulated in long double), inside '
         '[min,max] of those consequents, finite, and unchanged when no rule is active; the scratch buffer is re-set every step to an exact-size heap block of A_PID_FUZZY_BFUZZ(N) bytes, N = number of simultaneously active sets (ASan). '
         'non-trivial = (a) x within 2 ulp of a break point or a degenerate shoulder, (b) both degrees strictly inside (0,1), (c) >= 2 active sets on both inputs; distinct = hash of decoded parameters',
    assumptions=COMMON_ASSUME + ['declared exception to oracle independence: the inference reference takes membership values from liba\'s public a_mf dispatcher, which part (a) validates separately',
                                 'at a degenerate break point the core value 1 is required (MATLAB trimf/trapmf convention); a zero-width lins/linz ramp is only required to stay in [0,1] at its step'],
    units=lambda tier, seed: [Unit(nm, 'exec/C13.cc', ['a.c', 'math.c', 'mf.c', 'fuzzy.c', 'pid.c', 'pid_fuzzy.c'], defs=config_defs(real), tape_len=400,
                                   config='a_real = %s (A_SIZE_REAL=%d), all A_HAVE_* on' % (ty, real))
                              for nm, real, ty in (('fuzzy', 8, 'double'), ('fuzzy-f32', 4, 'float'))],
    plan={'quick': dict(rc_procs=6, rc_cases=30000, fuzz_procs=3, fuzz_secs=25),
          'thorough': dict(rc_procs=8, rc_cases=400000, fuzz_procs=8, fuzz_secs=300)},
    technique='property-based testing: differential check of every membership function against its documented definition in long double, algebraic laws of the operators, and a reference weighted-mean model of the fuzzy inference with an exact-size ASan-guarded scratch buffer; rapidcheck tapes + libFuzzer',
    level_text='generated parameters, break-point-centred inputs, degree pairs and rule bases judged against reference definitions and laws; sampling, not proof',
    level_note='trusts the reference definitions in exec/C13.cc and exec/fuzzy_gen.h; rule order <= 7',
)

PROPS['C12'] = dict(
    level='exploration',
    rule='two builds: a_real = double and float. choice tape -> controller kind (plain / fuzzy-tuned / single neuron / zero-vs-fresh pair), configuration and a history of up to 200 steps. Exact class: integer set-points and feedback |v| <= 1000 (100 in the float build), dyadic gains j/8 (|j| <= 64, ki >= 0), '
         'integer limits with summin <= 0 <= summax and outmin <= outmax (every intermediate exactly representable); real class: magnitudes up to 1e6 over 40 binades. Steps pick run / positional / incremental mode (switched within a history), '
         'zero, or a gain change. After every step: outmin <= out <= outmax, all state fields finite; plain/exact: output, integrator and cached fields equal a reference written from the documented difference equations exactly (real class: '
         'one-step equation within 64 ulp of the term magnitudes); integrator monotone once outside its clamp and overshooting by at most one increment; an incremental twin fed the same positional history agrees exactly for as long as no limit '
         'is active; zero then H2 equals a freshly initialised controller on H2 bit for bit (plain and neuron, the neuron keeping its present weights); a fuzzy controller with an all-zero rule base equals the plain controller exactly; fuzzy tables/operators '
         'as in C13 with the scratch buffer sized for all sets, the gain schedule compared with the reference weighted mean after every step, the membership and rule tables in read-only memory in half of the cases, the operator installed in four ways (setter, pointer returned by a_pid_fuzzy_opr, the fuzzy.h function named in the executor, a function of the caller), set_rule (another subset of the consequent tables present) and set_opr on the live controller without re-issuing the base gains; every history is also driven through the C++ member functions of a_pid / a_pid_fuzzy / a_pid_neuro on a twin object and compared bit for bit. non-trivial = history in which an output or integrator limit became active and inactive again, or a zero occurred mid-history; distinct = hash of configuration and decoded steps',
    assumptions=COMMON_ASSUME + ['inputs obey the quantifier: ki >= 0, summin <= 0 <= summax, outmin <= outmax, magnitudes <= 1e6 so that no intermediate overflows',
                                 'the reference model follows the equations documented in pid.h; on the exact class all arithmetic is exact, so equality is required'],
    units=lambda tier, seed: [Unit(nm, 'exec/C12.cc', ['a.c', 'math.c', 'mf.c', 'fuzzy.c', 'pid.c', 'pid_fuzzy.c', 'pid_neuro.c'], defs=config_defs(real), tape_len=500,
                                   config='a_real = %s (A_SIZE_REAL=%d), all A_HAVE_* on' % (ty, real))
                              for nm, real, ty in (('pid', 8, 'double'), ('pid-f32', 4, 'float'))],
    plan={'quick': dict(rc_procs=6, rc_cases=15000, fuzz_procs=3, fuzz_secs=25),
          'thorough': dict(rc_procs=8, rc_cases=250000, fuzz_procs=8, fuzz_secs=300)},
    technique='model-based stateful property-based testing: exact reference of the documented difference equations on an exactly representable input class, invariants after every step, twin-controller metamorphic relations (positional = incremental, zero = fresh, zero rule base = plain); rapidcheck tapes + libFuzzer',
    level_text='generated configurations and input histories for all three controllers and modes; exact equality on the exactly representable class; sampling, not proof',
    level_note='trusts the reference equations in exec/C12.cc; histories <= 200 steps',
)

REAL_SW = ['ASINH', 'ACOSH', 'ATANH', 'EXPM1', 'LOG1P', 'ATAN2', 'HYPOT']
CPLX_SW = [h for h in HAVE_ALL if h not in REAL_SW]


def c11_units(tier, seed):
    import random
    rnd = random.Random(seed)
    if tier == 'thorough':
        masks = list(range(128))
    else:
        masks = [127, 0] + rnd.sample(range(1, 127), 2)
    units = []
    for real in (8, 4):
        for m in masks:
            on = [s for i, s in enumerate(REAL_SW) if (m >> i) & 1]
            off = [s for s in REAL_SW if s not in on]
            name = '%s-%02x' % ('f64' if real == 8 else 'f32', m)
            cfg = '%s, libm: %s; fallback: %s' % ('double' if real == 8 else 'float', ','.join(on) or '-', ','.join(off) or '-')
            units.append(Unit(name, 'exec/C11.cc', ['a.c', 'math.c'], defs=config_defs(real, on + CPLX_SW),
                              exec_defs=['-DVP_CFG="%s"' % name], tape_len=200, config=cfg, fuzz=(m in (0, 127))))
    return units


PROPS['C11'] = dict(
    level='exploration',
    rule='one executor binary per build configuration: a subset of the 7 switches A_HAVE_ASINH/ACOSH/ATANH/EXPM1/LOG1P/ATAN2/HYPOT (libm or fallback each) x real type (double, float) passed as -D flags to the unmodified sources; '
         'quick: all-on, all-off and two seeded random subsets for both types, thorough: all 128 subsets x 2 types. Each tape yields up to 6 sub-cases: asinh/acosh/atanh/expm1/log1p/atan2 on arguments log-uniform over the whole exponent '
         'range of the type (both signs, 1+tiny for acosh, near 0 / +-0.5 / +-1 for atanh, > -1 for log1p, all quadrants and exact axis points for atan2) plus a dictionary of formula-switch values +-4 ulp; norms of 2, 3, n <= 40 '
         '(strided) components mixing magnitudes whose squares over/underflow (incl. subnormal components; components sharing one binade at / next to the square roots of the largest and smallest normal number), norms of 1000..300001 components of one common magnitude around sqrt(max), sqrt(min) or anywhere in the exponent range (rapidcheck processes only; compensated long double reference), cart2pol/cart2sph/pol2cart/sph2cart; sum/sum1/sum2/mean/dot and strided forms on integer (exact) and real data, also with both dot operands in one block (the same vector twice, x and y interleaved) and on read-only inputs; copy/swap/fill/zero/push/roll and block '
         'forms on lengths 0..20 against std::rotate/copy models in exact-size heap blocks. Oracle: glibc long double functions (64-bit mantissa); accept |got-ref| <= K*u*|ref| (u = 2^-53 / 2^-24), norms (n+4)*u and finite whenever the '
         'true value is representable; atan2(0, x<0) accepts +-pi. non-trivial = argument outside [1e-3, 1e3] or on an axis, extreme norm mix, reductions/shifts with n >= 2; distinct = (configuration, function, argument bits)',
    assumptions=COMMON_ASSUME + ['reference: glibc asinhl/acoshl/atanhl/expm1l/log1pl/atan2l/sqrtl in x87 long double, whose own error (<= 1 ulp of 2^-64) is 2^-10 of the acceptance bound',
                                 'results in the subnormal range are judged with absolute precision', 'block push forms are generated only for cache length <= block length'],
    units=c11_units,
    plan={'quick': dict(rc_procs=2, rc_cases=25000, fuzz_procs=1, fuzz_secs=15),
          'thorough': dict(rc_procs=1, rc_cases=60000, fuzz_procs=1, fuzz_secs=60)},
    tolerances={'K': 16, 'norms': '(n+4)*u', 'reductions': 'exact on integers, (n+2)*u*sum|terms| otherwise'},
    technique='property-based differential testing against long double references, one binary per A_HAVE_* configuration and real type (configurations are part of the generated case space); rapidcheck tapes + libFuzzer',
    level_text='generated arguments over the full exponent range per function and configuration, judged against a higher-precision reference with a fixed ulp budget; sampling, not proof; errors below K*u are invisible',
    level_note='trusts glibc long double math; quick covers 4 of 128 switch subsets per type, thorough all of them',
)


def c10_units(tier, seed):
    import random
    rnd = random.Random(seed + 10)
    n = len(HAVE_ALL)
    full = (1 << n) - 1
    if tier == 'thorough':
        masks = [full, 0] + [full ^ (1 << i) for i in range(n)] + [1 << i for i in range(n)] + [rnd.getrandbits(n) for _ in range(40)]
    else:
        masks = [full, 0] + [rnd.getrandbits(n) for _ in range(2)]
    units, seen = [], set()
    for real in (8, 4):
        for m in masks:
            if (real, m) in seen:
                continue
            seen.add((real, m))
            on = [s for i, s in enumerate(HAVE_ALL) if (m >> i) & 1]
            off = [s for s in HAVE_ALL if s not in on]
            name = '%s-%06x' % ('f64' if real == 8 else 'f32', m)
            cfg = '%s; fallback bodies: %s' % ('double' if real == 8 else 'float', ','.join(off) or 'none (all libm)')
            units.append(Unit(name, 'exec/C10.cc', ['a.c', 'math.c', 'complex.c'], defs=config_defs(real, on),
                              exec_defs=['-DVP_CFG="%s"' % name], tape_len=96, config=cfg, fuzz=(m in (0, full))))
    return units


PROPS['C10'] = dict(
    level='exploration',
    rule='one executor binary per build configuration: a subset of the 23 A_HAVE_* switches (each function libm-backed or fallback) x real type (double, float), passed as -D flags to the unmodified sources; quick: all-on, all-off and two '
         'seeded random subsets for both types; thorough: all-on, all-off, the 23 single-off, the 23 single-on and 40 seeded random subsets for both types. Each tape yields up to 6 sub-cases over 58 complex operations (field arithmetic incl. '
         'real/imaginary scalar and in-place forms, inv, conj, neg, polar, abs/abs2/logabs/arg, sqrt, pow, pow_real, exp, log, log2, log10, logb, six trigonometric, six inverse, six hyperbolic, six inverse hyperbolic), 7 real-argument variants '
         'and the inverse pairs (mul/div by the same real, imaginary and complex operand, exp(log z), log(exp z)). Arguments: modulus log-uniform over 2^-27..2^27 (2^-26..2^26 for float) or from a dictionary of formula-switch values +-4 ulp, or up to 2^+-1000 for operations whose true result stays representable; for the inverse families one case in five is constructed on the region boundaries of the usual asin/acos algorithm (a = (|z+1|+|z-1|)/2 = 1.5, |Re z|/a = 0.6417, |Re z| = 1) and at their pairwise intersections within 1e-6..1e-16, mapped through the reductions of asinh/acsc/asec/acsch/asech; linked sub-cases call the previous two-operand function again with its second operand mapped through a one-operand library function (results inside the ordinary modulus window); angle '
         'class = interior of each quadrant, near an axis (relative distance 1e-6..1e-3), exactly on an axis, or the origin itself (the zero branches of sqrt / pow / pow_real / arg / acot ...: judged wherever the reference is finite there, base 0 of logb left out); points closer than 2e-6*|z| to a branch cut of the function are moved off the cut (counted), poles/overflows of the true value are skipped (counted). '
         'Oracle: glibc long double complex functions (principal values, ISO C Annex G); accept |got-ref| <= K*u*(|ref| + kappa), kappa = max over directions {1, i} (and the second operand) of |f(z+eps|z|d)-f(z)|/eps with eps = 2^-30, evaluated by the '
         'same reference. non-trivial = z off both axes with modulus outside [0.5, 2] or within 1e-3 of an axis, every real-argument and pair case; distinct = (configuration, function, argument bits)',
    assumptions=COMMON_ASSUME + ['reference: glibc csqrtl/cpowl/cexpl/clogl/csinl/.../catanhl in x87 long double; reciprocal families as 1/f resp. f(1/z) in long double',
                                 'the numerical condition term kappa is part of the acceptance bound ("scaled by the conditioning of the function at that point")',
                                 'real-argument variants on a cut may return either side (sign of the imaginary part free)'],
    units=c10_units,
    plan={'quick': dict(rc_procs=2, rc_cases=12000, fuzz_procs=1, fuzz_secs=15),
          'thorough': dict(rc_procs=1, rc_cases=40000, fuzz_procs=1, fuzz_secs=60)},
    tolerances={'K': '32 (128 for the inverse trigonometric and inverse hyperbolic families)', 'eps_for_kappa': '2^-30', 'largest_ratio_seen_on_unchanged_tree': 'about 17 (inverse hyperbolic), 8 elsewhere'},
    technique='property-based differential testing against long double complex references with a numerically evaluated condition term, one binary per A_HAVE_* configuration and real type; inverse-pair metamorphic relations; rapidcheck tapes + libFuzzer',
    level_text='generated arguments by modulus/angle class for every complex operation in every built configuration, judged against a higher-precision reference with a fixed budget K*u*(|f|+kappa); sampling, not proof',
    level_note='trusts glibc long double complex math; quick covers 4 of 2^23 switch subsets per type, thorough 88',
)


def _c20(args, log):
    import importlib.util, os
    from . import core
    spec = importlib.util.spec_from_file_location('c20', os.path.join(core.VERIF, 'exec', 'C20', 'c20.py'))
    m = importlib.util.module_from_spec(spec)
    spec.loader.exec_module(m)
    return m.run(args, log)


PROPS['C20'] = dict(
    custom=_c20, level='exploration',
    engine='enumeration of declarations (clang JSON AST + bare rustc probes) + Hypothesis value round trips',
    technique='complete enumeration of every mirrored struct and extern declaration with compiler-computed layouts on both sides (differential oracle: clang vs rustc), plus Hypothesis-generated cross-boundary field values',
    level_text='the finite set of mirrors and declarations is enumerated completely for both real widths from the current tree; the "value written on one side is read identically on the other" clause is exercised with generated field values',
    level_note='trusts clang and rustc layout computation and the small lib.rs parser in exec/C20/c20.py; x86-64 only; cargo/cmake build paths not exercised',
)


# ---------------------------------------------------------------------------------------------------------------------------
# classes added while the seeded changes of rounds seven and eight were worked through (DESIGN §7); appended to the rule texts
_ADDED = {
    'C01': 'half of the histories place the elements in the heap and in three mapped arenas more than 4 GiB apart; every fourth insertion of an absent key discards the returned pointer',
    'C02': 'half of the histories place the elements in the heap and in three mapped arenas more than 4 GiB apart; every fourth insertion of an absent key discards the returned pointer',
    'C03': 'half of the histories place the elements in the heap and in three mapped arenas more than 4 GiB apart',
    'C04': 'per history the one-byte key of an element sits in byte 0 or in byte 1 behind a byte that is mostly NUL (comparator, model and search probe follow); typed macro spellings (A_VEC_PUSH_BACK ... A_BUF_SEARCH) alternate with the functions',
    'C06': 'bytes >= 0x80 are passed to catc half of the time the way a signed char promotes (negative; 0xFF = -1); a_str_setm_ sets the capacity exactly (shrink to fit or a little above the length)',
    'C08': 'a general class whose first-column pivot candidates agree to a relative 2^-21 .. 2^-50 in either order and sign (the larger has to win: multipliers stay <= 1)',
    'C09': 'the units run under the allocator shim and in half of the cases every allocation request is refused (the kernels are void functions and must be right either way); the integer class also holds infinite entries: a cell whose terms contain one is that infinity, cells whose value is indeterminate (inf * 0, inf - inf) are not judged',
    'C10': 'further argument classes: both components independently from a pool of named constants (e, 2, 10, pi, pi/2, ln 2, sqrt 2, 1/e, ...); for pow_real exponents at the limits of the integer types (+-2^31, 2^31+-1, 2^32, 2^15, 2^16, 2^24, ...) with the base within exp(+-600/|s|) of the unit circle, judged with the closed-form condition |s||f|(1+|log z|) and only while |s| u <= 2^-10',
    'C11': 'a_real_fill with values of any bit pattern, in particular repeating byte / 16-bit / 32-bit groups, compared bit for bit; the norms are asked again with the same arguments after an in-place change of the last component (the value follows the data, not the pointer)',
    'C12': 'one table object may be registered for both inputs (me == mec); a twin controller is stepped m times with one constant sample and the results discarded, against the same steps with every result used; in the exact class one integrator clamp in twelve is a small multiple of ki moved outwards by 2^-30, with small integer errors, so that sums land exactly on the integer next to the clamp',
    'C13': 'one table object may be registered for both inputs (me == mec)',
    'C15': 'the context objects start with arbitrary bytes and, in half of the cases, with an earlier plan of another request on the same object',
    'C14': 'in half of the cases another request is planned on the same context object first (C and member twin alike); the lattice class includes bell moves of length zero that reverse their velocity (feasible whenever v0 + v1 < 0)',
    'C16': '(tf) primed samples whose results are discarded followed by a loop over one constant sample, against the reference recurrence',
    'C17': 'each CRC is computed three times by direct calls with identical arguments in straight-line code: before, after and after undoing an in-place edit of one message byte',
    'C18': 'a freshly constructed string object is counted with the out-parameter pre-set to a wrong value; after the cut the string object is appended to again (code points and raw bytes), so that an interrupted character lies in its interior, and counted with and without the out-parameter',
    'C19': 'every case runs under one of the four rounding modes (to nearest in 5 of 8)',
}
for _k, _v in _ADDED.items():
    PROPS[_k]['rule'] = PROPS[_k]['rule'] + '. Also: ' + _v
