# props.py — per-property configuration: units (executor + liba sources + configuration) and engine plans
from .core import Unit, config_defs, HAVE_ALL

PROPS = {}

COMMON_ASSUME = [
    'x86-64 Linux, clang 14, glibc; liba sources compiled directly from /repo with the shipped flag set (-fPIC -fvisibility=hidden -DA_EXPORTS) plus ASan/UBSan at -O1',
    'nothing is proved: absence of violations is claimed only for the generated cases counted here',
]

PROPS['C19'] = dict(
    level='exploration',
    rule='rapidcheck/libFuzzer choice tapes decoded into up to 24 sub-cases each (sqrt32/sqrt64 on random, k^2-1,k^2,k^2+1, 2^j+-1 '
         'arguments; gcd/lcm on random, multiples, coprime, Fibonacci, power-of-two, zero, extreme pairs; bit reversal on all widths; '
         'get/set at random offsets of an exact-size heap block) plus enumeration of the finite sub-domains listed under '
         'enumerated_domains; non-trivial = sqrt argument >= 4, or gcd pair both non-zero and different, or rev/getset word not 0/~0; '
         'distinct = hash of the decoded arguments (tape cases) + enumerated inputs (distinct by construction)',
    units=lambda tier, seed: [Unit('intmath', 'exec/C19.cc', ['a.c', 'math.c'], enum=True, tape_len=96)],
    plan={
        'quick': dict(rc_procs=6, rc_cases=30000, fuzz_procs=2, fuzz_secs=15, enum_shards=8, enum_tier=0),
        'thorough': dict(rc_procs=8, rc_cases=400000, fuzz_procs=4, fuzz_secs=90, enum_shards=16, enum_tier=1),
    },
    exhaustive_when_enum=False, has_enum=True,
    assumptions=COMMON_ASSUME + ['oracle: unsigned __int128 arithmetic, binary gcd, bit loop; independent of liba'],
    technique='property-based testing (rapidcheck choice tapes) + libFuzzer on the same executor + exhaustive enumeration of the 32-bit square root; oracle = exact 128-bit integer arithmetic',
    level_text='generated-input search against an exact integer oracle; the thorough tier enumerates all 2^32 arguments of a_u32_sqrt, every k^2-1,k^2,k^2+1 of a_u64_sqrt and all 8/16-bit reversals, the rest is sampled',
    level_note='trusts clang __int128 arithmetic and the reference gcd/bit-reversal loops in exec/C19.cc; 64-bit domains are sampled, not exhausted',
)
